//! C35 — HTTP GET requests never execute mutations.
//!
//! Seams: the real request extractors / filters / guards and ready-made services of the five
//! bundled integrations, driven in memory (no sockets):
//!
//! * axum       `GraphQLRequest`, `GraphQLBatchRequest` (Router + `tower::ServiceExt::oneshot`),
//!              `GraphQL` tower service (plain and `Accept: multipart/mixed`)
//! * actix-web  `GraphQLRequest`, `GraphQLBatchRequest` (`actix_web::test::init_service`),
//!              `GraphQL` handler (plain and `Accept: multipart/mixed`)
//! * poem       `GraphQLRequest`, `GraphQLBatchRequest` (`Endpoint::get_response`),
//!              `GraphQL` endpoint (plain and `Accept: multipart/mixed`)
//! * warp       `graphql`, `graphql_batch` filters (`warp::test::request().reply`)
//! * rocket     `GraphQLQuery` form guard on a GET route; `GraphQLRequest` / `GraphQLBatchRequest`
//!              data guards on POST routes (controls) (`rocket::local::asynchronous::Client`)
//!
//! Every entry point is run with a static (`Schema`) and a dynamic (`dynamic::Schema`) executor.
//! The schema is `Query { q }`, `Mutation { bump }`; both resolvers count their invocations in
//! atomics owned by the case, so "a mutation resolver ran" is observed directly.
//!
//! Space: complete product  documents × operation name {absent, M, Q, B} in both spellings ×
//! variables {absent, {}} × extensions {absent, {}} × query-string styles × entry points ×
//! executors over GET, plus GET requests that carry a JSON body, plus POST controls.
//! Oracle (own reference for operation selection = spec `GetOperation` over the generator's
//! operation list, no parser involved): on GET the mutation counter stays 0; the response carries
//! an error (GraphQL `errors` entry or status ≥ 400) whenever the selected operation is a mutation
//! or selection fails; control queries answer `{"q":1}`. POST controls must execute (else the
//! harness could not see a mutation and the run is a machinery error, not a verdict).

use agv_engine::record::{Cx, Violation};
use async_graphql::dynamic;
use async_graphql::futures_util::stream::BoxStream;
use async_graphql::{Context, Data, Executor, Object, Request, Response, Schema, Subscription};
use rayon::prelude::*;
use serde_json::{json, Value};
use std::future::Future;
use std::sync::atomic::{AtomicU64, AtomicUsize, Ordering};
use std::sync::Arc;

use async_graphql_actix_web as aw;
use async_graphql_axum as ax;
use async_graphql_poem as pm;
use async_graphql_rocket as rk;
use async_graphql_warp as wp;

const MM_ACCEPT: &str = "multipart/mixed; boundary=\"graphql\"; subscriptionSpec=\"1.0\"";

// ---------------------------------------------------------------------------------------------
// schema under test: static and dynamic twins, counting resolver invocations

#[derive(Clone, Default)]
struct Counters {
    bump: Arc<AtomicUsize>,
    q: Arc<AtomicUsize>,
}

struct QueryRoot;
#[Object]
impl QueryRoot {
    async fn q(&self, ctx: &Context<'_>) -> i32 {
        ctx.data_unchecked::<Counters>().q.fetch_add(1, Ordering::SeqCst);
        1
    }
}

struct MutationRoot;
#[Object]
impl MutationRoot {
    async fn bump(&self, ctx: &Context<'_>) -> i32 {
        ctx.data_unchecked::<Counters>().bump.fetch_add(1, Ordering::SeqCst) as i32 + 1
    }
}

/// A subscription root exists in both twins: `dynamic::Schema::execute_stream` (the
/// `Accept: multipart/mixed` path of the ready-made services) refuses every operation of a schema
/// without one, which would hide the mutation path there.
struct SubscriptionRoot;
#[Subscription]
impl SubscriptionRoot {
    async fn tick(&self) -> impl futures_util::Stream<Item = i32> {
        futures_util::stream::iter([1])
    }
}

type StaticSchema = Schema<QueryRoot, MutationRoot, SubscriptionRoot>;

/// One executor type for all handlers; pure delegation to the two real executors.
#[derive(Clone)]
enum AnyExec {
    Static(StaticSchema),
    Dynamic(dynamic::Schema),
}

impl Executor for AnyExec {
    fn execute(&self, request: Request) -> impl Future<Output = Response> + Send {
        async move {
            match self {
                AnyExec::Static(s) => Executor::execute(s, request).await,
                AnyExec::Dynamic(s) => Executor::execute(s, request).await,
            }
        }
    }
    fn execute_stream(&self, request: Request, session_data: Option<Arc<Data>>) -> BoxStream<'static, Response> {
        match self {
            AnyExec::Static(s) => Executor::execute_stream(s, request, session_data),
            AnyExec::Dynamic(s) => Executor::execute_stream(s, request, session_data),
        }
    }
}

fn build_exec(executor: &str, c: &Counters) -> AnyExec {
    match executor {
        "static" => AnyExec::Static(Schema::build(QueryRoot, MutationRoot, SubscriptionRoot).data(c.clone()).finish()),
        "dynamic" => {
            use dynamic::{Field, FieldFuture, Object, TypeRef};
            let cq = c.clone();
            let cm = c.clone();
            let query = Object::new("QueryRoot").field(Field::new("q", TypeRef::named_nn(TypeRef::INT), move |_| {
                let c = cq.clone();
                FieldFuture::new(async move {
                    c.q.fetch_add(1, Ordering::SeqCst);
                    Ok(Some(async_graphql::Value::from(1)))
                })
            }));
            let mutation = Object::new("MutationRoot").field(Field::new("bump", TypeRef::named_nn(TypeRef::INT), move |_| {
                let c = cm.clone();
                FieldFuture::new(async move {
                    let n = c.bump.fetch_add(1, Ordering::SeqCst) as i32 + 1;
                    Ok(Some(async_graphql::Value::from(n)))
                })
            }));
            let subscription = dynamic::Subscription::new("SubscriptionRoot").field(dynamic::SubscriptionField::new("tick", TypeRef::named_nn(TypeRef::INT), |_| {
                dynamic::SubscriptionFieldFuture::new(async { Ok(futures_util::stream::iter([Ok(async_graphql::Value::from(1))])) })
            }));
            let s = dynamic::Schema::build("QueryRoot", Some("MutationRoot"), Some("SubscriptionRoot")).register(query).register(mutation).register(subscription).finish().expect("dynamic harness schema builds");
            AnyExec::Dynamic(s)
        }
        other => panic!("unknown executor {other}"),
    }
}

// ---------------------------------------------------------------------------------------------
// documents and the reference for operation selection

#[derive(Clone, Copy, PartialEq, Debug)]
enum Kind {
    Query,
    Mutation,
}

struct Doc {
    text: &'static str,
    /// the operations of the document as the generator wrote them: (name, kind)
    ops: &'static [(Option<&'static str>, Kind)],
}

const M: Kind = Kind::Mutation;
const Q: Kind = Kind::Query;

fn documents() -> Vec<Doc> {
    vec![
        Doc { text: "mutation { bump }", ops: &[(None, M)] },
        Doc { text: "mutation M { bump }", ops: &[(Some("M"), M)] },
        Doc { text: "query Q { q } mutation M { bump }", ops: &[(Some("Q"), Q), (Some("M"), M)] },
        Doc { text: "mutation A { bump } mutation B { bump }", ops: &[(Some("A"), M), (Some("B"), M)] },
        Doc { text: "{ q }", ops: &[(None, Q)] },
        Doc { text: "query Q { q }", ops: &[(Some("Q"), Q)] },
        // the same mutation behind syntax a textual guard would miss
        Doc { text: "# query\n  mutation{bump}", ops: &[(None, M)] },
        Doc { text: "fragment F on MutationRoot { bump } mutation M { ...F }", ops: &[(Some("M"), M)] },
        Doc { text: "mutation M($s: Boolean = true) { x: bump @skip(if: $s) y: bump }", ops: &[(Some("M"), M)] },
        Doc { text: "mutation M { bump } query Q { q }", ops: &[(Some("M"), M), (Some("Q"), Q)] },
    ]
}

#[derive(Clone, Copy, PartialEq, Debug)]
enum Sel {
    Query,
    Mutation,
    /// GetOperation raises a request error (unknown name / name required)
    Error,
}

/// GraphQL §6.1 GetOperation over the generator's operation list.
fn get_operation(doc: &Doc, name: Option<&str>) -> Sel {
    let k = match name {
        None => {
            if doc.ops.len() == 1 {
                Some(doc.ops[0].1)
            } else {
                None
            }
        }
        Some(n) => doc.ops.iter().find(|(on, _)| *on == Some(n)).map(|(_, k)| *k),
    };
    match k {
        Some(Kind::Query) => Sel::Query,
        Some(Kind::Mutation) => Sel::Mutation,
        None => Sel::Error,
    }
}

// ---------------------------------------------------------------------------------------------
// request specification and encoders (own percent-encoder; no framework helper)

#[derive(Clone, Copy, PartialEq, Debug)]
enum OpSpelling {
    Camel, // operationName=
    Snake, // operation_name=  (not a GraphQL-over-HTTP parameter; a decoder may or may not read it)
}

#[derive(Clone, Debug)]
struct Spec {
    doc: usize,
    op: Option<(&'static str, OpSpelling)>,
    vars: bool,
    ext: bool,
}

#[derive(Clone, Copy, Debug, PartialEq)]
struct QsStyle {
    plus: bool,  // space as '+' (else %20)
    upper: bool, // hex digit case
}

fn pct(s: &str, st: QsStyle) -> String {
    let mut out = String::new();
    for &b in s.as_bytes() {
        if b == b' ' {
            out.push_str(if st.plus { "+" } else { "%20" });
        } else if b.is_ascii_alphanumeric() || matches!(b, b'-' | b'_' | b'.' | b'~') {
            out.push(b as char);
        } else if st.upper {
            out.push_str(&format!("%{:02X}", b));
        } else {
            out.push_str(&format!("%{:02x}", b));
        }
    }
    out
}

fn qs_pairs(docs: &[Doc], s: &Spec) -> Vec<(&'static str, String)> {
    let mut p = vec![("query", docs[s.doc].text.to_string())];
    if let Some((n, sp)) = s.op {
        p.push((if sp == OpSpelling::Camel { "operationName" } else { "operation_name" }, n.to_string()));
    }
    if s.vars {
        p.push(("variables", "{}".to_string()));
    }
    if s.ext {
        p.push(("extensions", "{}".to_string()));
    }
    p
}

fn qs_text(pairs: &[(&'static str, String)], order: &[usize], st: QsStyle) -> String {
    order.iter().map(|i| format!("{}={}", pairs[*i].0, pct(&pairs[*i].1, st))).collect::<Vec<_>>().join("&")
}

fn json_body(docs: &[Doc], s: &Spec) -> Value {
    let mut m = serde_json::Map::new();
    m.insert("query".into(), json!(docs[s.doc].text));
    if let Some((n, _)) = s.op {
        m.insert("operationName".into(), json!(n));
    }
    if s.vars {
        m.insert("variables".into(), json!({}));
    }
    if s.ext {
        m.insert("extensions".into(), json!({}));
    }
    Value::Object(m)
}

fn permutations(n: usize) -> Vec<Vec<usize>> {
    fn rec(cur: &mut Vec<usize>, used: &mut Vec<bool>, n: usize, out: &mut Vec<Vec<usize>>) {
        if cur.len() == n {
            out.push(cur.clone());
            return;
        }
        for i in 0..n {
            if !used[i] {
                used[i] = true;
                cur.push(i);
                rec(cur, used, n, out);
                cur.pop();
                used[i] = false;
            }
        }
    }
    let mut out = Vec::new();
    rec(&mut Vec::new(), &mut vec![false; n], n, &mut out);
    out
}

// ---------------------------------------------------------------------------------------------
// the in-memory HTTP exchange

#[derive(Clone, Debug)]
struct HttpReq {
    method: &'static str, // "GET" | "POST"
    query: Option<String>,
    accept_mm: bool,
    content_type: Option<&'static str>,
    body: Option<String>,
}

#[derive(Clone, Debug)]
struct HttpObs {
    status: u16,
    content_type: String,
    body: Vec<u8>,
}

fn uri_of(path: &str, r: &HttpReq) -> String {
    match &r.query {
        Some(q) => format!("{path}?{q}"),
        None => path.to_string(),
    }
}

#[derive(Clone, Copy, PartialEq, Eq, Debug, Hash)]
enum Entry {
    Single,
    Batch,
    Service,
}
impl Entry {
    fn name(self) -> &'static str {
        match self {
            Entry::Single => "single-extractor",
            Entry::Batch => "batch-extractor",
            Entry::Service => "service",
        }
    }
    fn parse(s: &str) -> Entry {
        match s {
            "single-extractor" => Entry::Single,
            "batch-extractor" => Entry::Batch,
            _ => Entry::Service,
        }
    }
}

fn tokio_block_on<F: Future>(f: F) -> F::Output {
    tokio::runtime::Builder::new_current_thread().enable_all().build().expect("tokio runtime").block_on(f)
}

// ---- axum -----------------------------------------------------------------------------------

fn axum_run(entry: Entry, exec: AnyExec, r: &HttpReq) -> HttpObs {
    use axum::body::Body;
    use axum::routing::get;
    use axum::Router;
    use tower::ServiceExt;
    tokio_block_on(async move {
        let mut b = http::Request::builder().method(r.method).uri(uri_of("/", r));
        if r.accept_mm {
            b = b.header("accept", MM_ACCEPT);
        }
        if let Some(ct) = r.content_type {
            b = b.header("content-type", ct);
        }
        let req = b.body(Body::from(r.body.clone().unwrap_or_default())).expect("axum request");
        let resp = match entry {
            Entry::Single => {
                let h = move |req: ax::GraphQLRequest| {
                    let e = exec.clone();
                    async move { ax::GraphQLResponse::from(e.execute(req.into_inner()).await) }
                };
                Router::new().route("/", get(h.clone()).post(h)).oneshot(req).await.expect("infallible")
            }
            Entry::Batch => {
                let h = move |req: ax::GraphQLBatchRequest| {
                    let e = exec.clone();
                    async move { ax::GraphQLResponse::from(e.execute_batch(req.into_inner()).await) }
                };
                Router::new().route("/", get(h.clone()).post(h)).oneshot(req).await.expect("infallible")
            }
            Entry::Service => ax::GraphQL::new(exec).oneshot(req).await.expect("infallible"),
        };
        let status = resp.status().as_u16();
        let content_type = resp.headers().get("content-type").and_then(|v| v.to_str().ok()).unwrap_or("").to_string();
        let body = axum::body::to_bytes(resp.into_body(), usize::MAX).await.expect("axum body").to_vec();
        HttpObs { status, content_type, body }
    })
}

// ---- actix-web ------------------------------------------------------------------------------

async fn aw_single(e: actix_web::web::Data<AnyExec>, req: aw::GraphQLRequest) -> aw::GraphQLResponse {
    e.execute(req.into_inner()).await.into()
}
async fn aw_batch(e: actix_web::web::Data<AnyExec>, req: aw::GraphQLBatchRequest) -> aw::GraphQLResponse {
    e.execute_batch(req.into_inner()).await.into()
}

async fn actix_call<S, B>(app: &S, r: &HttpReq) -> HttpObs
where
    S: actix_web::dev::Service<actix_http::Request, Response = actix_web::dev::ServiceResponse<B>, Error = actix_web::Error>,
    B: actix_web::body::MessageBody,
{
    use actix_web::test;
    let mut t = if r.method == "GET" { test::TestRequest::get() } else { test::TestRequest::post() }.uri(&uri_of("/", r));
    if r.accept_mm {
        t = t.insert_header(("accept", MM_ACCEPT));
    }
    if let Some(ct) = r.content_type {
        t = t.insert_header(("content-type", ct));
    }
    if let Some(b) = &r.body {
        t = t.set_payload(b.clone());
    }
    match test::try_call_service(app, t.to_request()).await {
        Ok(resp) => {
            let status = resp.status().as_u16();
            let content_type = resp.headers().get("content-type").and_then(|v| v.to_str().ok()).unwrap_or("").to_string();
            let body = match test::try_read_body(resp).await {
                Ok(b) => b.to_vec(),
                Err(_) => b"<body error>".to_vec(),
            };
            HttpObs { status, content_type, body }
        }
        Err(e) => {
            let resp = e.error_response();
            let status = resp.status().as_u16();
            let body = actix_web::body::to_bytes(resp.into_body()).await.map(|b| b.to_vec()).unwrap_or_default();
            HttpObs { status, content_type: String::new(), body }
        }
    }
}

fn actix_run(entry: Entry, exec: AnyExec, r: &HttpReq) -> HttpObs {
    use actix_web::{test, web, App};
    // actix's own single-threaded runtime (tokio current_thread + LocalSet), as `#[actix_web::test]` uses
    actix_web::rt::System::new().block_on(async move {
        match entry {
            Entry::Single => {
                let app = test::init_service(App::new().app_data(web::Data::new(exec)).service(web::resource("/").route(web::get().to(aw_single)).route(web::post().to(aw_single)))).await;
                actix_call(&app, r).await
            }
            Entry::Batch => {
                let app = test::init_service(App::new().app_data(web::Data::new(exec)).service(web::resource("/").route(web::get().to(aw_batch)).route(web::post().to(aw_batch)))).await;
                actix_call(&app, r).await
            }
            Entry::Service => {
                let app = test::init_service(App::new().service(web::resource("/").to(aw::GraphQL::new(exec)))).await;
                actix_call(&app, r).await
            }
        }
    })
}

// ---- poem -----------------------------------------------------------------------------------

#[poem::handler]
async fn pm_single(req: pm::GraphQLRequest, e: poem::web::Data<&AnyExec>) -> pm::GraphQLResponse {
    e.0.execute(req.0).await.into()
}
#[poem::handler]
async fn pm_batch(req: pm::GraphQLBatchRequest, e: poem::web::Data<&AnyExec>) -> pm::GraphQLBatchResponse {
    e.0.execute_batch(req.0).await.into()
}

fn poem_run(entry: Entry, exec: AnyExec, r: &HttpReq) -> HttpObs {
    use poem::{get, Endpoint, EndpointExt, Route};
    tokio_block_on(async move {
        let mut b = poem::Request::builder().method(if r.method == "GET" { poem::http::Method::GET } else { poem::http::Method::POST }).uri_str(uri_of("/", r));
        if r.accept_mm {
            b = b.header("accept", MM_ACCEPT);
        }
        if let Some(ct) = r.content_type {
            b = b.header("content-type", ct);
        }
        let req = b.body(r.body.clone().unwrap_or_default());
        let resp = match entry {
            Entry::Single => Route::new().at("/", get(pm_single).post(pm_single)).data(exec).get_response(req).await,
            Entry::Batch => Route::new().at("/", get(pm_batch).post(pm_batch)).data(exec).get_response(req).await,
            Entry::Service => pm::GraphQL::new(exec).get_response(req).await,
        };
        let status = resp.status().as_u16();
        let content_type = resp.content_type().unwrap_or("").to_string();
        let body = resp.into_body().into_vec().await.unwrap_or_else(|_| b"<body error>".to_vec());
        HttpObs { status, content_type, body }
    })
}

// ---- warp -----------------------------------------------------------------------------------

async fn warp_recover(err: warp::Rejection) -> Result<warp::reply::WithStatus<String>, std::convert::Infallible> {
    // the recover handler of the crate's documented example
    if let Some(wp::GraphQLBadRequest(e)) = err.find() {
        return Ok(warp::reply::with_status(e.to_string(), warp::http::StatusCode::BAD_REQUEST));
    }
    Ok(warp::reply::with_status("INTERNAL_SERVER_ERROR".to_string(), warp::http::StatusCode::INTERNAL_SERVER_ERROR))
}

fn warp_run(entry: Entry, exec: AnyExec, r: &HttpReq) -> HttpObs {
    use std::convert::Infallible;
    use warp::Filter;
    tokio_block_on(async move {
        let mut t = warp::test::request().method(r.method).path(&uri_of("/", r));
        if r.accept_mm {
            t = t.header("accept", MM_ACCEPT);
        }
        if let Some(ct) = r.content_type {
            t = t.header("content-type", ct);
        }
        if let Some(b) = &r.body {
            t = t.body(b.clone());
        }
        let resp = match entry {
            Entry::Single => {
                let f = wp::graphql(exec).and_then(|(e, req): (AnyExec, Request)| async move { Ok::<_, Infallible>(wp::GraphQLResponse::from(e.execute(req).await)) }).recover(warp_recover);
                t.reply(&f).await
            }
            Entry::Batch => {
                let f = wp::graphql_batch(exec)
                    .and_then(|(e, req): (AnyExec, async_graphql::BatchRequest)| async move { Ok::<_, Infallible>(wp::GraphQLBatchResponse::from(e.execute_batch(req).await)) })
                    .recover(warp_recover);
                t.reply(&f).await
            }
            Entry::Service => unreachable!("warp has no ready-made service"),
        };
        let status = resp.status().as_u16();
        let content_type = resp.headers().get("content-type").and_then(|v| v.to_str().ok()).unwrap_or("").to_string();
        HttpObs { status, content_type, body: resp.body().to_vec() }
    })
}

// ---- rocket ---------------------------------------------------------------------------------

#[rocket::get("/graphql?<query..>")]
async fn rk_get(exec: &rocket::State<AnyExec>, query: rk::GraphQLQuery) -> rk::GraphQLResponse {
    query.execute(exec.inner()).await
}
#[rocket::post("/graphql", data = "<request>", format = "application/json")]
async fn rk_post(exec: &rocket::State<AnyExec>, request: rk::GraphQLRequest) -> rk::GraphQLResponse {
    request.execute(exec.inner()).await
}
#[rocket::post("/batch", data = "<request>", format = "application/json")]
async fn rk_post_batch(exec: &rocket::State<AnyExec>, request: rk::GraphQLBatchRequest) -> rk::GraphQLResponse {
    request.execute(exec.inner()).await
}

fn rocket_run(entry: Entry, exec: AnyExec, r: &HttpReq) -> HttpObs {
    use rocket::local::asynchronous::Client;
    tokio_block_on(async move {
        let config = rocket::Config { log_level: rocket::config::LogLevel::Off, ..rocket::Config::default() };
        let rocket = rocket::custom(config).manage(exec).mount("/", rocket::routes![rk_get, rk_post, rk_post_batch]);
        let client = Client::untracked(rocket).await.expect("rocket instance");
        let path = if r.method == "POST" && entry == Entry::Batch { "/batch" } else { "/graphql" };
        let uri = uri_of(path, r);
        let mut req = if r.method == "GET" { client.get(uri) } else { client.post(uri) };
        if r.accept_mm {
            req = req.header(rocket::http::Header::new("accept", MM_ACCEPT));
        }
        if let Some(ct) = r.content_type {
            req = req.header(rocket::http::Header::new("content-type", ct));
        }
        if let Some(b) = &r.body {
            req = req.body(b.clone());
        }
        let resp = req.dispatch().await;
        let status = resp.status().code;
        let content_type = resp.content_type().map(|c| c.to_string()).unwrap_or_default();
        let body = resp.into_bytes().await.unwrap_or_default();
        HttpObs { status, content_type, body }
    })
}

// ---------------------------------------------------------------------------------------------
// one case: fresh counters, fresh executor, fresh application

/// (integration, entry, accepts multipart/mixed variant?) — every bundled entry point.
fn entry_points() -> Vec<(&'static str, Entry)> {
    vec![
        ("axum", Entry::Single),
        ("axum", Entry::Batch),
        ("axum", Entry::Service),
        ("actix-web", Entry::Single),
        ("actix-web", Entry::Batch),
        ("actix-web", Entry::Service),
        ("poem", Entry::Single),
        ("poem", Entry::Batch),
        ("poem", Entry::Service),
        ("warp", Entry::Single),
        ("warp", Entry::Batch),
        ("rocket", Entry::Single),
    ]
}

struct Outcome {
    obs: HttpObs,
    bump: usize,
    q: usize,
}

fn run_case(integration: &str, entry: Entry, executor: &str, r: &HttpReq) -> Result<Outcome, String> {
    let c = Counters::default();
    let exec = build_exec(executor, &c);
    let obs = agv_engine::catch_quiet(|| match integration {
        "axum" => axum_run(entry, exec, r),
        "actix-web" => actix_run(entry, exec, r),
        "poem" => poem_run(entry, exec, r),
        "warp" => warp_run(entry, exec, r),
        "rocket" => rocket_run(entry, exec, r),
        other => panic!("unknown integration {other}"),
    })?;
    Ok(Outcome { obs, bump: c.bump.load(Ordering::SeqCst), q: c.q.load(Ordering::SeqCst) })
}

/// GraphQL responses carried by an HTTP body: a JSON object, a JSON array (batch), or the parts of
/// a multipart/mixed body with boundary `graphql`.
fn graphql_responses(o: &HttpObs) -> Vec<Value> {
    let text = String::from_utf8_lossy(&o.body);
    if o.content_type.starts_with("multipart/mixed") {
        let mut out = Vec::new();
        for part in text.split("--graphql") {
            if let Some(i) = part.find("\r\n\r\n") {
                if let Ok(v) = serde_json::from_str::<Value>(part[i + 4..].trim()) {
                    out.push(v);
                }
            }
        }
        return out;
    }
    match serde_json::from_str::<Value>(&text) {
        Ok(Value::Array(a)) => a,
        Ok(v @ Value::Object(_)) => vec![v],
        _ => Vec::new(),
    }
}

fn has_errors(v: &Value) -> bool {
    v.get("errors").and_then(|e| e.as_array()).map(|a| !a.is_empty()).unwrap_or(false)
}

/// "answered with an error": an HTTP error status, or every GraphQL response in the body has `errors`.
fn carries_error(o: &HttpObs) -> bool {
    if o.status >= 400 {
        return true;
    }
    let rs = graphql_responses(o);
    !rs.is_empty() && rs.iter().all(has_errors)
}

/// the control query was answered: 2xx, one response, no errors, data == {"q":1}
fn answers_q(o: &HttpObs) -> bool {
    let rs = graphql_responses(o);
    (200..300).contains(&o.status) && rs.len() == 1 && !has_errors(&rs[0]) && rs[0].get("data") == Some(&json!({"q": 1}))
}

fn obs_json(o: &Outcome) -> Value {
    json!({"status": o.obs.status, "content_type": o.obs.content_type, "body": String::from_utf8_lossy(&o.obs.body).chars().take(300).collect::<String>(), "bump_resolver_runs": o.bump, "q_resolver_runs": o.q})
}

fn case_json(integration: &str, entry: Entry, executor: &str, r: &HttpReq, info: Value) -> Value {
    json!({"integration": integration, "entry": entry.name(), "executor": executor, "method": r.method, "query_string": r.query, "accept_multipart_mixed": r.accept_mm, "content_type": r.content_type, "body": r.body, "info": info})
}

/// the request target as shown in reports (the path is `/`, for rocket `/graphql`)
fn shown(integration: &str, r: &HttpReq) -> String {
    uri_of(if integration == "rocket" { "/graphql" } else { "/" }, r)
}

fn entry_key(entry: Entry, r: &HttpReq) -> String {
    if r.accept_mm {
        format!("{}+multipart-mixed", entry.name())
    } else {
        entry.name().to_string()
    }
}

/// What the property demands of one GET exchange.
#[derive(Clone, Copy, PartialEq, Debug)]
enum Expect {
    /// selected operation is a mutation, or selection fails: error, no mutation resolver
    MustError,
    /// control query: answered with its data, no mutation resolver
    MustAnswerQ,
    /// admissible readings of the request differ (unspecified parameter / ignored body): only "no mutation resolver"
    NoMutationOnly,
}

struct Tally {
    per_entry: std::sync::Mutex<std::collections::BTreeMap<String, [u64; 4]>>, // cases, antecedent(mutation selected), executed-mutation, other violations
    get_cases: AtomicU64,
    post_cases: AtomicU64,
    post_executed: AtomicU64,
}

impl Tally {
    fn add(&self, integration: &str, ek: &str, antecedent: bool, executed: bool, other: bool) {
        let mut g = self.per_entry.lock().unwrap();
        let e = g.entry(format!("{integration}/{ek}")).or_insert([0; 4]);
        e[0] += 1;
        e[1] += antecedent as u64;
        e[2] += executed as u64;
        e[3] += other as u64;
    }
}

#[allow(clippy::too_many_arguments)]
fn judge_get(cx: &Cx, tally: &Tally, integration: &str, entry: Entry, executor: &str, r: &HttpReq, expect: Expect, antecedent: bool, info: Value) {
    cx.eval();
    tally.get_cases.fetch_add(1, Ordering::Relaxed);
    let ek = entry_key(entry, r);
    let case = || case_json(integration, entry, executor, r, info.clone());
    let keyed = |v: Violation| v.key("integration", integration).key("entry", ek.clone()).key("executor", executor);
    let out = match run_case(integration, entry, executor, r) {
        Ok(o) => o,
        Err(p) => {
            tally.add(integration, &ek, antecedent, false, true);
            cx.violation(keyed(Violation::new("panic", format!("{integration} {ek} panicked on a GET request: {p}"), case())));
            return;
        }
    };
    let h = agv_engine::h64(&(integration, ek.as_str(), executor, &r.query, &r.body));
    if antecedent {
        cx.nontrivial(h);
    }
    cx.sample_with(h, || json!({"request": case(), "expectation": format!("{expect:?}"), "observed": obs_json(&out)}));
    if out.bump > 0 {
        tally.add(integration, &ek, antecedent, true, false);
        cx.violation(keyed(Violation::new(
            "get-executes-mutation",
            format!("GET {} through {integration} {ek} ({executor} executor) ran the mutation resolver {} time(s); response {} {}", shown(integration, r), out.bump, out.obs.status, String::from_utf8_lossy(&out.obs.body).chars().take(160).collect::<String>()),
            case(),
        )));
        return;
    }
    let other = match expect {
        Expect::MustError if !carries_error(&out.obs) => {
            cx.violation(keyed(Violation::new(
                "get-mutation-no-error",
                format!("GET {} through {integration} {ek}: no mutation resolver ran but the response carries no error: {}", shown(integration, r), obs_json(&out)),
                case(),
            )));
            true
        }
        Expect::MustAnswerQ if !(answers_q(&out.obs) && out.q == 1) => {
            cx.violation(keyed(Violation::new(
                "get-query-rejected",
                format!("GET {} (a query) through {integration} {ek} was not answered with {{\"q\":1}}: {}", shown(integration, r), obs_json(&out)),
                case(),
            )));
            true
        }
        _ => false,
    };
    tally.add(integration, &ek, antecedent, false, other);
}

/// POST control: must behave as the reference says, otherwise the harness cannot observe mutations.
fn control_post(cx: &Cx, tally: &Tally, integration: &str, entry: Entry, executor: &str, r: &HttpReq, sel: Sel, copies: usize) {
    cx.eval();
    tally.post_cases.fetch_add(1, Ordering::Relaxed);
    let ek = entry_key(entry, r);
    let out = match run_case(integration, entry, executor, r) {
        Ok(o) => o,
        Err(p) => {
            cx.machinery_error(format!("POST control panicked ({integration} {ek} {executor}): {p}"));
            return;
        }
    };
    let ok = match sel {
        Sel::Mutation => out.bump == copies && (200..300).contains(&out.obs.status) && !graphql_responses(&out.obs).iter().any(has_errors),
        Sel::Query => out.bump == 0 && out.q == copies && (200..300).contains(&out.obs.status) && !graphql_responses(&out.obs).iter().any(has_errors),
        Sel::Error => out.bump == 0 && out.q == 0 && carries_error(&out.obs),
    };
    if !ok {
        cx.machinery_error(format!(
            "POST control failed ({integration} {ek}, {executor} executor, body {:?}): reference selects {sel:?} ×{copies}, observed {}",
            r.body,
            obs_json(&out)
        ));
        return;
    }
    if sel == Sel::Mutation {
        tally.post_executed.fetch_add(1, Ordering::Relaxed);
        cx.nontrivial(agv_engine::h64(&("post", integration, ek.as_str(), executor, &r.body)));
    }
}

// ---------------------------------------------------------------------------------------------

struct GetJob {
    integration: &'static str,
    entry: Entry,
    executor: &'static str,
    req: HttpReq,
    expect: Expect,
    antecedent: bool,
    info: Value,
}

struct PostJob {
    integration: &'static str,
    entry: Entry,
    executor: &'static str,
    req: HttpReq,
    sel: Sel,
    copies: usize,
}

fn expectation(doc: &Doc, op: Option<(&'static str, OpSpelling)>) -> (Expect, bool) {
    // admissible readings of the operation name: camelCase is the standard parameter (read);
    // snake_case is not a parameter of GraphQL over HTTP (ignored) but a decoder might read it.
    let readings: Vec<Sel> = match op {
        None => vec![get_operation(doc, None)],
        Some((n, OpSpelling::Camel)) => vec![get_operation(doc, Some(n))],
        Some((n, OpSpelling::Snake)) => vec![get_operation(doc, None), get_operation(doc, Some(n))],
    };
    let antecedent = readings.iter().all(|s| *s == Sel::Mutation);
    let e = if readings.iter().all(|s| *s != Sel::Query) {
        Expect::MustError
    } else if readings.iter().all(|s| *s == Sel::Query) {
        Expect::MustAnswerQ
    } else {
        Expect::NoMutationOnly
    };
    (e, antecedent)
}

/// Rocket installs a global stdout logger and re-raises its level on every `rocket::custom`; a
/// logger installed first keeps Rocket's away (Rocket only touches the level of its own logger).
struct NoLog;
impl log::Log for NoLog {
    fn enabled(&self, _: &log::Metadata) -> bool {
        false
    }
    fn log(&self, _: &log::Record) {}
    fn flush(&self) {}
}
static NO_LOG: NoLog = NoLog;

fn silence_framework_logging() {
    let _ = log::set_logger(&NO_LOG);
    log::set_max_level(log::LevelFilter::Off);
}

pub fn run(cx: &Cx) {
    silence_framework_logging();
    cx.rule(
        "case = (integration, entry point, executor, HTTP request); fresh resolver counters, executor and application per case. GET product: 10 documents (anonymous / named mutation, query+mutation in \
         both orders, two mutations, two control queries, and the mutation behind a comment, a fragment, variables+@skip+aliases) × operation name {absent, M, Q, B} spelled operationName= and \
         operation_name= × variables {absent, {}} × extensions {absent, {}} × query-string styles (space as %20 / +; thorough also lower-case hex) × parameter orders (canonical and reversed; thorough: \
         all permutations) × 12 entry points (+ Accept: multipart/mixed on the 3 ready-made services) × {static, dynamic} executor. Plus GET requests carrying a JSON body (single mutation / batch of \
         two mutations) with query string {none, control query, mutation}. POST controls: every document × operation name through every entry point incl. rocket's data guards, single and batch of 2. \
         Non-trivial = GET cases whose selected operation is a mutation under every admissible reading (the property's antecedent) and POST controls in which the mutation resolver ran.",
    );
    cx.assume("'a mutation resolver ran' is observed by an atomic counter owned by the case and incremented in the Mutation.bump resolver (static and dynamic twin); fresh counters per case, so nothing leaks between cases");
    cx.assume("operation selection reference = GraphQL §6.1 GetOperation over the generator's own operation list (no parser); operation_name= is not a GraphQL-over-HTTP parameter: both readings (ignored / read) are admitted and only what they agree on is demanded");
    cx.assume("'answered with an error' = HTTP status ≥ 400, or every GraphQL response in the body (JSON object, JSON array, multipart/mixed parts) has a non-empty errors list");
    cx.assume("frameworks run on a real tokio current-thread runtime per case (actix-web: actix_rt::System); no sockets, no sleeps; the 30 s heartbeat timer of multipart/mixed responses is created but never fires because the response stream ends at once. The property quantifies over requests, not schedules");
    cx.assume("rocket has no GET batch entry point and no ready-made service (its data guards read bodies and are mounted on POST routes, used as controls); warp has no ready-made service; rocket's GraphQLQuery ignores extensions=");
    cx.assume("a GET request that carries a JSON body is judged on 'no mutation resolver ran' (and on 'error' when the query string holds no query or a mutation); whether the body is ignored is left open");

    let thorough = !cx.quick();
    let docs = documents();
    let executors: [&'static str; 2] = ["static", "dynamic"];
    let styles: Vec<QsStyle> = if thorough {
        vec![QsStyle { plus: false, upper: true }, QsStyle { plus: true, upper: true }, QsStyle { plus: false, upper: false }, QsStyle { plus: true, upper: false }]
    } else {
        vec![QsStyle { plus: false, upper: true }, QsStyle { plus: true, upper: true }]
    };

    // ---- the request product
    let mut specs: Vec<Spec> = Vec::new();
    let mut ops: Vec<Option<(&'static str, OpSpelling)>> = vec![None];
    for n in ["M", "Q", "B"] {
        for sp in [OpSpelling::Camel, OpSpelling::Snake] {
            ops.push(Some((n, sp)));
        }
    }
    for d in 0..docs.len() {
        for op in &ops {
            for vars in [false, true] {
                for ext in [false, true] {
                    specs.push(Spec { doc: d, op: *op, vars, ext });
                }
            }
        }
    }

    // entry points incl. the multipart/mixed variant of the ready-made services
    let mut eps: Vec<(&'static str, Entry, bool)> = Vec::new();
    for (i, e) in entry_points() {
        eps.push((i, e, false));
        if e == Entry::Service {
            eps.push((i, e, true));
        }
    }

    let mut get_jobs: Vec<GetJob> = Vec::new();
    let mut distinct_qs = std::collections::BTreeSet::new();
    for s in &specs {
        let pairs = qs_pairs(&docs, s);
        let orders: Vec<Vec<usize>> = if thorough {
            permutations(pairs.len())
        } else {
            let id: Vec<usize> = (0..pairs.len()).collect();
            let rev: Vec<usize> = id.iter().rev().cloned().collect();
            if rev == id {
                vec![id]
            } else {
                vec![id, rev]
            }
        };
        let (expect, antecedent) = expectation(&docs[s.doc], s.op);
        for order in &orders {
            for st in &styles {
                let qs = qs_text(&pairs, order, *st);
                if !distinct_qs.insert(qs.clone()) {
                    continue; // styles coincide when nothing needs escaping differently
                }
                for (integration, entry, mm) in &eps {
                    for executor in executors {
                        get_jobs.push(GetJob {
                            integration,
                            entry: *entry,
                            executor,
                            req: HttpReq { method: "GET", query: Some(qs.clone()), accept_mm: *mm, content_type: None, body: None },
                            expect,
                            antecedent,
                            info: json!({"part": "product", "document": docs[s.doc].text, "operation_name": s.op.map(|(n, sp)| format!("{}={n}", if sp == OpSpelling::Camel { "operationName" } else { "operation_name" })), "variables": s.vars, "extensions": s.ext}),
                        });
                    }
                }
            }
        }
    }
    let product_get = get_jobs.len();

    // ---- GET with a JSON body
    let st0 = QsStyle { plus: false, upper: true };
    let body_single = json!({"query": "mutation { bump }"}).to_string();
    let body_batch = json!([{"query": "mutation { bump }"}, {"query": "mutation { bump }"}]).to_string();
    let qs_menu: Vec<(Option<String>, Expect, bool, &str)> = vec![
        (None, Expect::MustError, false, "no query string"),
        (Some(format!("query={}", pct("{ q }", st0))), Expect::NoMutationOnly, false, "control query in the query string"),
        (Some(format!("query={}", pct("mutation { bump }", st0))), Expect::MustError, true, "mutation in the query string"),
    ];
    for (qs, expect, antecedent, what) in &qs_menu {
        for (body, bname) in [(&body_single, "single mutation"), (&body_batch, "batch of two mutations")] {
            for (integration, entry, mm) in &eps {
                for executor in executors {
                    get_jobs.push(GetJob {
                        integration,
                        entry: *entry,
                        executor,
                        req: HttpReq { method: "GET", query: qs.clone(), accept_mm: *mm, content_type: Some("application/json"), body: Some(body.clone()) },
                        expect: *expect,
                        antecedent: *antecedent,
                        info: json!({"part": "get-with-body", "query_string": what, "json_body": bname}),
                    });
                }
            }
        }
    }

    // ---- POST controls
    let mut post_jobs: Vec<PostJob> = Vec::new();
    let mut post_eps: Vec<(&'static str, Entry, bool)> = eps.clone();
    post_eps.push(("rocket", Entry::Batch, false));
    for d in 0..docs.len() {
        for op in [None, Some(("M", OpSpelling::Camel)), Some(("Q", OpSpelling::Camel)), Some(("B", OpSpelling::Camel))] {
            let s = Spec { doc: d, op, vars: d % 2 == 0, ext: false };
            let sel = get_operation(&docs[d], op.map(|(n, _)| n));
            let one = json_body(&docs, &s);
            for (integration, entry, mm) in &post_eps {
                for executor in executors {
                    let mk = |body: String| HttpReq { method: "POST", query: None, accept_mm: *mm, content_type: Some("application/json"), body: Some(body) };
                    post_jobs.push(PostJob { integration, entry: *entry, executor, req: mk(one.to_string()), sel, copies: 1 });
                    // a JSON batch of two through everything that decodes batches and answers them as JSON
                    // (actix-web's GraphQL handler is built on the single-request extractor)
                    let batch_capable = (*entry == Entry::Batch || (*entry == Entry::Service && *integration != "actix-web")) && !*mm;
                    if batch_capable {
                        post_jobs.push(PostJob { integration, entry: *entry, executor, req: mk(Value::Array(vec![one.clone(), one.clone()]).to_string()), sel, copies: 2 });
                    }
                }
            }
        }
    }

    let tally = Tally { per_entry: Default::default(), get_cases: AtomicU64::new(0), post_cases: AtomicU64::new(0), post_executed: AtomicU64::new(0) };

    // controls first: if mutations cannot be observed, say so before judging anything
    post_jobs.par_iter().for_each(|j| control_post(cx, &tally, j.integration, j.entry, j.executor, &j.req, j.sel, j.copies));
    get_jobs.par_iter().for_each(|j| judge_get(cx, &tally, j.integration, j.entry, j.executor, &j.req, j.expect, j.antecedent, j.info.clone()));

    if tally.post_executed.load(Ordering::Relaxed) == 0 {
        cx.machinery_error("no POST control executed a mutation: the harness cannot observe mutation resolvers");
    }
    let table: serde_json::Map<String, Value> = tally
        .per_entry
        .lock()
        .unwrap()
        .iter()
        .map(|(k, v)| (k.clone(), json!({"get_cases": v[0], "selected_operation_is_mutation": v[1], "mutation_resolver_ran": v[2], "other_violations": v[3]})))
        .collect();
    cx.extra("per_entry_point", Value::Object(table));
    cx.extra("requests_in_product", json!(specs.len()));
    cx.extra("distinct_query_strings", json!(distinct_qs.len()));
    cx.extra("get_cases_product", json!(product_get));
    cx.extra("get_cases_with_body", json!(get_jobs.len() - product_get));
    cx.extra("post_controls", json!({"cases": tally.post_cases.load(Ordering::Relaxed), "mutation_executed_as_expected": tally.post_executed.load(Ordering::Relaxed)}));
    cx.extra("integrations_built", json!(["axum 0.8", "actix-web 4", "poem 3", "warp 0.4", "rocket 0.5"]));
    cx.exhaustive(true);
}

pub fn replay(case: &Value) -> String {
    fn leak(s: &str) -> &'static str {
        Box::leak(s.to_string().into_boxed_str())
    }
    silence_framework_logging();
    let integration = case["integration"].as_str().unwrap_or("axum");
    let mut en = case["entry"].as_str().unwrap_or("single-extractor");
    if let Some(i) = en.find('+') {
        en = &en[..i];
    }
    let entry = Entry::parse(en);
    let executor = case["executor"].as_str().unwrap_or("static");
    let r = HttpReq {
        method: if case["method"] == "POST" { "POST" } else { "GET" },
        query: case["query_string"].as_str().map(|s| s.to_string()),
        accept_mm: case["accept_multipart_mixed"].as_bool().unwrap_or(false),
        content_type: case["content_type"].as_str().map(leak),
        body: case["body"].as_str().map(|s| s.to_string()),
    };
    match run_case(integration, entry, executor, &r) {
        Ok(o) => format!("{} {} via {integration} {} ({executor}): {}\n  carries_error={} answers_q={}", r.method, shown(integration, &r), entry_key(entry, &r), obs_json(&o), carries_error(&o.obs), answers_q(&o.obs)),
        Err(p) => format!("panic: {p}"),
    }
}

fn main() {
    agv_engine::driver::main("C35", "exploration", run, Some(replay))
}
