//! C30 — extensions are transparent and run their hooks in lifecycle order.
//!
//! Schemas: S1 and its dynamic twin, each built with stacks of 0–3 recording
//! pass-through extensions. Space: every valid document ≤ N nodes over S1's
//! subset × ≤ 1 world deviation × ≤ 1 fault, plus requests failing at parse, at
//! validation and at operation selection, plus mutations. Oracle: (a) the
//! response equals the stack-0 response; (b) per hook kind the calls nest in
//! registration order; request → prepare_request → parse_query → validation →
//! execute occur at most once each, in that order, once for every stage the
//! request reaches; `resolve` runs once per response position (field or list item).

use agv_common::casecheck::{run_static2, strip_repeated_key_duplicates, CaseOutcome, Target};
use agv_common::dynamic::{build_with, Encoding};
use agv_common::gen::GenCfg;
use agv_common::glue::{obs_of, table_json, MenuCfg, Obs};
use agv_common::s1::{self, Wd};
use agv_engine::explore::{explore, Chooser, Class, ExploreCfg};
use agv_engine::record::{Cx, Violation};
use agv_refgql::ast::OpKind;
use agv_refgql::schema::Schema;
use async_graphql::extensions::*;
use async_graphql::parser::types::ExecutableDocument;
use async_graphql::{Request, Response, ServerError, ServerResult, ValidationResult, Value, Variables};
use serde_json::{json, Value as J};
use std::cell::RefCell;
use std::collections::BTreeMap;
use std::sync::atomic::{AtomicU64, Ordering};
use std::sync::Arc;

thread_local! {
    /// hook log of the request currently executing on this thread (executions are synchronous: sched::drive)
    static HOOKS: RefCell<Vec<String>> = const { RefCell::new(Vec::new()) };
}
fn hook(s: String) {
    HOOKS.with(|h| h.borrow_mut().push(s));
}

struct Rec(usize);
struct RecExt(usize);
impl ExtensionFactory for Rec {
    fn create(&self) -> Arc<dyn Extension> {
        Arc::new(RecExt(self.0))
    }
}

#[async_trait::async_trait]
impl Extension for RecExt {
    async fn request(&self, ctx: &ExtensionContext<'_>, next: NextRequest<'_>) -> Response {
        hook(format!(">request:{}", self.0));
        let r = next.run(ctx).await;
        hook(format!("<request:{}", self.0));
        r
    }
    async fn prepare_request(&self, ctx: &ExtensionContext<'_>, request: Request, next: NextPrepareRequest<'_>) -> ServerResult<Request> {
        hook(format!(">prepare_request:{}", self.0));
        let r = next.run(ctx, request).await;
        hook(format!("<prepare_request:{}", self.0));
        r
    }
    async fn parse_query(&self, ctx: &ExtensionContext<'_>, query: &str, variables: &Variables, next: NextParseQuery<'_>) -> ServerResult<ExecutableDocument> {
        hook(format!(">parse_query:{}", self.0));
        let r = next.run(ctx, query, variables).await;
        hook(format!("<parse_query:{}", self.0));
        r
    }
    async fn validation(&self, ctx: &ExtensionContext<'_>, next: NextValidation<'_>) -> Result<ValidationResult, Vec<ServerError>> {
        hook(format!(">validation:{}", self.0));
        let r = next.run(ctx).await;
        hook(format!("<validation:{}", self.0));
        r
    }
    async fn execute(&self, ctx: &ExtensionContext<'_>, operation_name: Option<&str>, next: NextExecute<'_>) -> Response {
        hook(format!(">execute:{}", self.0));
        let r = next.run(ctx, operation_name).await;
        hook(format!("<execute:{}", self.0));
        r
    }
    async fn resolve(&self, ctx: &ExtensionContext<'_>, info: ResolveInfo<'_>, next: NextResolve<'_>) -> ServerResult<Option<Value>> {
        let p = info.path_node.to_string();
        hook(format!(">resolve:{}:{p}", self.0));
        let r = next.run(ctx, info).await;
        hook(format!("<resolve:{}:{p}", self.0));
        r
    }
}

#[derive(Clone, PartialEq, Debug)]
struct Full {
    obs: Obs,
    extensions: String,
    cache: String,
    headers: String,
}
fn full(r: &Response) -> Full {
    let mut obs = obs_of(r);
    obs.errors.sort_by(|a, b| (&a.path, &a.locs, &a.message).cmp(&(&b.path, &b.locs, &b.message)));
    Full { obs, extensions: format!("{:?}", r.extensions), cache: format!("{:?}", r.cache_control), headers: format!("{:?}", r.http_headers) }
}

struct Schemas {
    stat: Vec<s1::S1>,
    dynm: Vec<async_graphql::dynamic::Schema>,
}

fn run_on(s: &Schemas, dynamic: bool, k: usize, text: &str, op: Option<&str>, vars: &serde_json::Map<String, J>, table: &BTreeMap<String, agv_refgql::exec::Ans>) -> Result<(Response, Vec<String>), String> {
    HOOKS.with(|h| h.borrow_mut().clear());
    let wd = Arc::new(Wd::new(table.clone()));
    let r = if dynamic { agv_common::dynamic::run_dynamic(&s.dynm[k], text, op, vars, wd) } else { agv_common::run_s1(&s.stat[k], text, op, vars, wd) }?;
    Ok((r, HOOKS.with(|h| std::mem::take(&mut *h.borrow_mut()))))
}

/// Judge the hook log of a run with `k` extensions. `positions` = expected resolve positions (None = not judged).
fn judge_hooks(log: &[String], k: usize, positions: Option<&[String]>, allow_repeats_for: &dyn Fn(&str) -> usize) -> Result<(), (String, String)> {
    const STAGES: [&str; 5] = ["request", "prepare_request", "parse_query", "validation", "execute"];
    // 1. per stage: entered in order 0..k, exited k-1..0, at most once per extension
    let mut stage_first: Vec<Option<usize>> = vec![None; 5];
    for (si, st) in STAGES.iter().enumerate() {
        let seq: Vec<(bool, usize, usize)> = log
            .iter()
            .enumerate()
            .filter_map(|(i, l)| {
                let (dir, rest) = l.split_at(1);
                let mut it = rest.split(':');
                if it.next() == Some(*st) {
                    Some((dir == ">", it.next().unwrap().parse::<usize>().unwrap(), i))
                } else {
                    None
                }
            })
            .collect();
        if seq.is_empty() {
            continue;
        }
        stage_first[si] = Some(seq[0].2);
        let enters: Vec<usize> = seq.iter().filter(|x| x.0).map(|x| x.1).collect();
        let exits: Vec<usize> = seq.iter().filter(|x| !x.0).map(|x| x.1).collect();
        let want_in: Vec<usize> = (0..k).collect();
        let want_out: Vec<usize> = (0..k).rev().collect();
        if enters != want_in || exits != want_out {
            return Err((format!("hook-nesting/{st}"), format!("{st} hooks entered {enters:?} exited {exits:?}, expected {want_in:?} / {want_out:?}")));
        }
        // proper nesting: all enters before all exits
        let last_enter = seq.iter().filter(|x| x.0).map(|x| x.2).max().unwrap();
        let first_exit = seq.iter().filter(|x| !x.0).map(|x| x.2).min().unwrap();
        if last_enter > first_exit {
            return Err((format!("hook-nesting/{st}"), format!("{st} hooks are not nested: {log:?}")));
        }
    }
    // 2. order of stages; request must be there; no stage skipped before a later one
    if k > 0 {
        if stage_first[0].is_none() {
            return Err(("stage-missing/request".into(), format!("request hook never ran: {log:?}")));
        }
        let mut last = 0usize;
        let mut gap = false;
        for (si, f) in stage_first.iter().enumerate() {
            match f {
                Some(i) => {
                    if gap {
                        return Err((format!("stage-missing/{}", STAGES[si - 1]), format!("stage {} ran although an earlier stage did not: {log:?}", STAGES[si])));
                    }
                    if *i < last {
                        return Err(("stage-order".into(), format!("stage {} entered before an earlier stage: {log:?}", STAGES[si])));
                    }
                    last = *i;
                }
                None => gap = true,
            }
        }
    }
    // 3. resolve: per extension, once per expected position
    if let Some(pos) = positions {
        for id in 0..k {
            let mut got: BTreeMap<String, usize> = BTreeMap::new();
            for l in log {
                if let Some(rest) = l.strip_prefix(&format!(">resolve:{id}:")) {
                    *got.entry(rest.to_string()).or_insert(0) += 1;
                }
            }
            let mut want: BTreeMap<String, usize> = BTreeMap::new();
            for p in pos {
                *want.entry(p.clone()).or_insert(0) += 1;
            }
            if got != want {
                // the known shape: a position resolved once per field node carrying its key
                let only_repeats = want.keys().all(|p| got.contains_key(p)) && got.iter().all(|(p, n)| want.contains_key(p) && *n >= 1 && *n <= allow_repeats_for(p).max(1));
                let class = if only_repeats { "resolve-hook-repeated-for-repeated-key" } else { "resolve-hook-count" };
                let missing: Vec<_> = want.keys().filter(|p| !got.contains_key(*p)).collect();
                let extra: Vec<_> = got.iter().filter(|(p, n)| want.get(*p).copied().unwrap_or(0) != **n).collect();
                return Err((class.into(), format!("extension {id}: resolve ran for {got:?}, expected once for each of {:?}; missing {missing:?}, differing {extra:?}", want.keys().collect::<Vec<_>>())));
            }
        }
    }
    Ok(())
}

fn positions_of(data: &J, prefix: &str, out: &mut Vec<String>, typename_keys: &dyn Fn(&str) -> bool) {
    match data {
        J::Object(m) => {
            for (k, v) in m {
                if typename_keys(k) {
                    continue;
                }
                let p = if prefix.is_empty() { k.clone() } else { format!("{prefix}.{k}") };
                out.push(p.clone());
                positions_of(v, &p, out, typename_keys);
            }
        }
        J::Array(a) => {
            for (i, v) in a.iter().enumerate() {
                let p = format!("{prefix}.{i}");
                out.push(p.clone());
                positions_of(v, &p, out, typename_keys);
            }
        }
        _ => {}
    }
}

const FIELDS: &[(&str, &[&str])] = &[("Query", &["a", "n", "o", "i", "l", "li"]), ("A", &["a", "n", "o"]), ("B", &["a", "pb"]), ("I", &["a", "n"])];
const M_FIELDS: &[(&str, &[&str])] = &[("Mutation", &["inc", "m", "mn"]), ("A", &["a", "n"])];

const BAD_REQUESTS: &[(&str, Option<&str>, &str)] = &[
    ("{ a ", None, "parse-error"),
    ("{ nope }", None, "validation-error"),
    ("query A { a } query B { n }", Some("C"), "unknown-operation"),
    ("query A { a } query B { n }", None, "operation-name-required"),
    ("query A { a } query B { n }", Some("B"), "named-operation"),
    ("", None, "empty-query"),
];

/// Part C — transparency under every completion order. Documents with concurrently resolving siblings and list
/// items; every resolver waits on a gate; for each (document, world with ≤ 2 failing resolvers) the SET of responses
/// reachable over all gate-opening orders must be the same with 1–3 pass-through extensions as with none.
const ORDER_DOCS: &[&str] = &["{ a n n2 }", "{ l { a n } n }", "{ ln { a } a }", "{ lnn { a } lo { a } }", "{ o { l { a } } n }", "{ lu { ... on A { a } ... on B { pb a } } n }", "{ ll li n }"];

fn orders_part(cx: &Cx, refs: &Schema, sch: &Schemas) {
    use agv_common::glue::ChooserWorld;
    use agv_engine::sched::{self, End, Handle, Policy, RunCfg};
    use std::collections::{BTreeSet, HashMap};
    use std::sync::Mutex;
    let docs: &[&str] = if cx.quick() { &ORDER_DOCS[..5] } else { ORDER_DOCS };
    let stacks_dyn = if cx.quick() { 2 } else { 4 };
    // (flavour, doc, world) -> stack -> set of responses
    let seen: Mutex<HashMap<(bool, usize, String), BTreeMap<usize, BTreeSet<String>>>> = Mutex::new(HashMap::new());
    let worlds: Mutex<HashMap<(bool, usize, String), J>> = Mutex::new(HashMap::new());
    let schedules = AtomicU64::new(0);
    let st = explore(
        &ExploreCfg { bounds: [0, 2, 0, 0], ..Default::default() },
        &|ch: &mut Chooser| {
            let dynamic = ch.any("flavour", 2) == 1;
            let k = ch.any("stack", if dynamic { stacks_dyn } else { 4 });
            let di = ch.any("doc", docs.len());
            let text = docs[di];
            let doc = agv_refgql::parse::parse_exec(text).expect("fixed document parses");
            let mut table: BTreeMap<String, agv_refgql::exec::Ans> = BTreeMap::new();
            for f in ["l", "ln", "lnn", "lo", "lu", "li", "ll"] {
                if text.contains(&format!(" {f} ")) {
                    table.insert(f.to_string(), agv_refgql::exec::Ans::List(2));
                }
            }
            let filter = |_: &[agv_refgql::exec::Seg], _: &agv_refgql::ast::Type, _: bool, a: &agv_refgql::exec::Ans| matches!(a, agv_refgql::exec::Ans::Err);
            let mut w = ChooserWorld { s: refs, ch, cfg: MenuCfg { errors: true, non_finite: false, wrong_kind: false, rich: false }, class: Class::Dev(1), fault_class: Some(Class::Dev(1)), table, asked: 0, filter: Some(&filter) };
            let _ = agv_refgql::exec::execute(refs, &doc, None, &Default::default(), &mut w);
            let table = w.table;
            HOOKS.with(|h| h.borrow_mut().clear());
            let h = Handle::new();
            let mut wdv = Wd::new(table.clone());
            wdv.gates = Some(h.clone());
            let req = Request::new(text).data(Arc::new(wdv));
            let cfg = RunCfg { policy: Policy::Eager, gate_class: Class::Exhaustive, preempt_class: Class::Dev(3), max_steps: 5000 };
            let r = if dynamic { sched::run(&h, ch, &cfg, sch.dynm[k].execute(req), &mut |_| {}) } else { sched::run(&h, ch, &cfg, sch.stat[k].execute(req), &mut |_| {}) };
            HOOKS.with(|h| h.borrow_mut().clear());
            (dynamic, k, di, table, r.end, r.schedule, r.output.as_ref().map(|o| format!("{:?}", full(o))))
        },
        &|_, (dynamic, k, di, table, end, schedule, out)| {
            cx.eval();
            schedules.fetch_add(1, Ordering::Relaxed);
            let world = table_json(&table);
            let case = json!({"part": "orders", "flavour": if dynamic { "dynamic" } else { "static" }, "stack": k, "query": docs[di], "world": world, "schedule": schedule});
            let Some(out) = out.filter(|_| end == End::Done) else {
                return cx.violation(Violation::new("no-termination", format!("execution ended {end:?} after schedule {schedule:?}"), case).key("flavour", if dynamic { "dynamic" } else { "static" }).key("kind", "orders"));
            };
            if schedule.len() >= 2 {
                cx.nontrivial(agv_engine::h64(&(dynamic, k, di, world.to_string(), &schedule)));
            }
            let key = (dynamic, di, world.to_string());
            worlds.lock().unwrap().entry(key.clone()).or_insert(world);
            seen.lock().unwrap().entry(key).or_default().entry(k).or_default().insert(out);
        },
    );
    if let Some(d) = st.diverged {
        cx.machinery_error(d);
    }
    let seen = seen.into_inner().unwrap();
    let worlds = worlds.into_inner().unwrap();
    let mut multi = 0u64;
    for ((dynamic, di, wkey), per_stack) in &seen {
        let Some(base) = per_stack.get(&0) else { continue };
        if base.len() > 1 {
            multi += 1; // order dependence without extensions is C05's subject, not judged here
        }
        for (k, set) in per_stack.iter().filter(|(k, _)| **k > 0) {
            if set != base {
                let flavour = if *dynamic { "dynamic" } else { "static" };
                let only_ext: Vec<&String> = set.difference(base).collect();
                let only_base: Vec<&String> = base.difference(set).collect();
                cx.violation(
                    Violation::new(
                        "not-transparent/responses-over-completion-orders",
                        format!("over all completion orders, {k} pass-through extension(s) give {} distinct response(s), none gives {}\n only with extensions: {only_ext:?}\n only without: {only_base:?}", set.len(), base.len()),
                        json!({"part": "orders", "flavour": flavour, "stack": k, "query": docs[*di], "world": worlds[&(*dynamic, *di, wkey.clone())]}),
                    )
                    .key("flavour", flavour)
                    .key("kind", "orders"),
                );
            }
        }
    }
    cx.extra("orders_part_groups", json!(seen.len()));
    cx.extra("orders_part_schedules", json!(schedules.load(Ordering::Relaxed)));
    cx.extra("orders_part_groups_order_dependent_without_extensions", json!(multi));
    if st.capped {
        cx.exhaustive(false);
    }
}

fn run(cx: &Cx) {
    run_inner(cx, None)
}

fn run_inner(cx: &Cx, only: Option<&J>) {
    let refs = Schema::from_sdl(s1::SDL).unwrap();
    let mut sch = Schemas { stat: vec![], dynm: vec![] };
    for k in 0..=3usize {
        let mut b = s1::builder();
        for id in 0..k {
            b = b.extension(Rec(id));
        }
        sch.stat.push(b.finish());
        let d = build_with(&refs, Encoding::default(), |mut b| {
            for id in 0..k {
                b = b.extension(Rec(id));
            }
            b
        });
        match d {
            Ok(d) => sch.dynm.push(d),
            Err(e) => return cx.machinery_error(format!("dynamic twin of S1 does not build: {e}")),
        }
    }
    cx.exhaustive(true);
    let agree = AtomicU64::new(0);
    let judged_resolve = AtomicU64::new(0);
    let nodes = if cx.quick() { 3 } else { 4 };
    let compare = |flavour: &str, dynamic: bool, text: &str, op: Option<&str>, vars: &serde_json::Map<String, J>, table: &BTreeMap<String, agv_refgql::exec::Ans>, expected_data: Option<&J>, doc: Option<&agv_refgql::ast::ExecDoc>, tag: &str| {
        let case = json!({"flavour": flavour, "query": text, "operation": op, "variables": J::Object(vars.clone()), "world": table_json(table), "kind": tag});
        let base = match agv_engine::catch_quiet(|| run_on(&sch, dynamic, 0, text, op, vars, table)) {
            Ok(Ok((r, _))) => r,
            Ok(Err(e)) => return cx.machinery_error(e),
            Err(p) => return cx.violation(Violation::new("panic", p, case).key("flavour", flavour).key("stack", "0")),
        };
        let base_full = full(&base);
        for k in 1..=3usize {
            cx.eval();
            let (r, log) = match agv_engine::catch_quiet(|| run_on(&sch, dynamic, k, text, op, vars, table)) {
                Ok(Ok(x)) => x,
                Ok(Err(e)) => return cx.machinery_error(e),
                Err(p) => return cx.violation(Violation::new("panic", p, case.clone()).key("flavour", flavour).key("stack", k.to_string())),
            };
            let f = full(&r);
            let mut ok = true;
            if f != base_full {
                // the same repeated-key duplicates may legitimately differ in number? no: transparency means identical
                ok = false;
                let what = if f.obs.data != base_full.obs.data {
                    "data"
                } else if f.obs.errors != base_full.obs.errors {
                    "errors"
                } else if f.extensions != base_full.extensions {
                    "extensions"
                } else if f.cache != base_full.cache {
                    "cache-control"
                } else {
                    "http-headers"
                };
                cx.violation(
                    Violation::new(format!("not-transparent/{what}"), format!("with {k} pass-through extension(s): {:?}\n without: {:?}", f, base_full), case.clone())
                        .key("flavour", flavour)
                        .key("kind", tag),
                );
            }
            // expected resolve positions from the (error-free) data
            let positions: Option<Vec<String>> = match (expected_data, r.errors.is_empty()) {
                (Some(d), true) => {
                    let mut v = Vec::new();
                    positions_of(d, "", &mut v, &|key| key == "__typename");
                    Some(v)
                }
                _ => None,
            };
            if positions.is_some() {
                judged_resolve.fetch_add(1, Ordering::Relaxed);
            }
            let reps = |p: &str| -> usize {
                let key = p.rsplit('.').find(|s| s.parse::<usize>().is_err()).unwrap_or("");
                doc.map(|d| {
                    let fake = Obs { data: String::new(), errors: vec![] };
                    let _ = fake;
                    agv_common::casecheck::key_positions(d, key).len() * 4
                })
                .unwrap_or(1)
            };
            if let Err((class, detail)) = judge_hooks(&log, k, positions.as_deref(), &reps) {
                ok = false;
                cx.violation(Violation::new(class, format!("{detail}\n log {log:?}"), case.clone()).key("flavour", flavour).key("kind", tag));
            }
            if ok {
                agree.fetch_add(1, Ordering::Relaxed);
            }
        }
    };
    if let Some(case) = only {
        if case["part"] == "orders" {
            println!(" part C case: re-running the completion-order part (all orders of all its documents)");
            orders_part(cx, &refs, &sch);
            return;
        }
        let dynamic = case["flavour"] == "dynamic";
        let text = case["query"].as_str().unwrap_or("");
        let vars = case["variables"].as_object().cloned().unwrap_or_default();
        let table = agv_common::glue::table_from_json(&case["world"]);
        let doc = agv_refgql::parse::parse_exec(text).ok();
        let expected = doc.as_ref().and_then(|d| {
            let w = agv_refgql::exec::TableWorld { table: table.clone() };
            agv_refgql::exec::execute(&refs, d, case["operation"].as_str(), &vars, &mut agv_refgql::exec::TableWorldRef { s: &refs, w: &w }).data
        });
        compare(if dynamic { "dynamic" } else { "static" }, dynamic, text, case["operation"].as_str(), &vars, &table, if case["kind"] == "generated" { expected.as_ref() } else { None }, doc.as_ref(), case["kind"].as_str().unwrap_or("generated"));
        return;
    }
    for (flavour, dynamic) in [("static", false), ("dynamic", true)] {
        // generated valid documents
        for (op, fields) in [(OpKind::Query, FIELDS), (OpKind::Mutation, M_FIELDS)] {
            let gcfg = GenCfg { schema: &refs, fields, conds: &["A", "I"], max_nodes: nodes, max_depth: 3, named_fragments: 1, deco: Some(Class::Dev(0)), typename: true, op, root_fragments: true };
            let menu = MenuCfg { errors: true, non_finite: false, wrong_kind: false, rich: false };
            let target = if dynamic { Target::Dynamic(&sch.dynm[0]) } else { Target::Static(&sch.stat[0]) };
            let st = explore(
                &ExploreCfg { bounds: [1, 1, 1, 0], ..Default::default() },
                &|ch: &mut Chooser| run_static2(&refs, &target, &gcfg, ch, menu, Class::Dev(1), Some(Class::Dev(2)), None),
                &|_, o| {
                    if let CaseOutcome::Ran(c) = o {
                        let h = agv_engine::h64(&(flavour, c.case_hash()));
                        cx.nontrivial(h);
                        let _ = strip_repeated_key_duplicates;
                        compare(flavour, dynamic, &c.text, None, &c.vars, &c.table, c.reference.data.as_ref(), Some(&c.doc), "generated");
                        cx.sample_with(h, || json!({"flavour": flavour, "query": c.text, "world": table_json(&c.table)}));
                    }
                },
            );
            if let Some(d) = st.diverged {
                cx.machinery_error(d);
            }
        }
        for (text, op, tag) in BAD_REQUESTS {
            cx.nontrivial(agv_engine::h64(&(flavour, text, op)));
            compare(flavour, dynamic, text, *op, &Default::default(), &Default::default(), None, None, tag);
        }
    }
    orders_part(cx, &refs, &sch);
    if agree.load(Ordering::Relaxed) == 0 {
        cx.machinery_error("no case in which the extension stack was transparent and ordered");
    }
    cx.rule(&format!("case = (flavour, request, world); each run with stacks of 1, 2 and 3 recording pass-through extensions and compared with the stack-0 run. Requests: every valid query and mutation document ≤ {nodes} nodes over a subset of S1 (≤ 1 decoration) × ≤ 1 value deviation × ≤ 1 failing resolver, plus {} requests failing at parse / validation / operation selection. Part C (completion orders): fixed documents with concurrent siblings and 2-item lists × every world with ≤ 2 failing resolvers × EVERY order of opening the resolver gates, for stacks 0–3: the set of responses over all orders with a stack of 1–3 must equal the set with none. Non-trivial = distinct (flavour, request, world) resp. (flavour, stack, document, world, schedule).", BAD_REQUESTS.len()));
    cx.extra("runs_transparent_and_ordered", json!(agree.load(Ordering::Relaxed)));
    cx.extra("runs_with_resolve_positions_judged", json!(judged_resolve.load(Ordering::Relaxed)));
    cx.assume("'each run exactly once' is read as: at most once, in order, and exactly once for every stage the request reaches (a failing stage ends the sequence)");
    cx.assume("resolve positions are judged on error-free responses only (one call per key of every object and per item of every list in the data, __typename excluded)");
}

fn replay(case: &J) -> String {
    let cx = Cx::scratch("C30", "exploration");
    run_inner(&cx, Some(case));
    cx.nontrivial_count(2);
    cx.finish_scratch()
}

fn main() {
    agv_engine::driver::main("C30", "exploration", run, Some(replay))
}
