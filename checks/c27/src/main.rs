//! C27 — each subscription response holds exactly its own event's data and errors.
//!
//! `execute_stream` on S1 (and its dynamic twin for single-root documents) under the
//! controlled scheduler: every event source and every child resolver awaits a
//! gate; ALL interleavings of {event i of root field f arrives, child gate opens}
//! are explored, with ≤ 2 failing child resolvers. Oracle per response: exactly
//! one root key; its data and error paths are those the reference yields for that
//! root field; every response accounted for; a streamed query/mutation yields
//! exactly one response.

use agv_common::glue::{obs_of, table_json, ChooserWorld, MenuCfg, Obs};
use agv_common::s1::{self, Wd};
use agv_engine::explore::{explore, Chooser, Class, ExploreCfg};
use agv_engine::record::{Cx, Violation};
use agv_engine::sched::{self, End, Handle, Policy, RunCfg};
use agv_refgql::exec::{errors_consistent, execute, path_str, Ans, ExecError, Seg};
use agv_refgql::schema::Schema;
use async_graphql::Request;
use futures_util::StreamExt;
use serde_json::{json, Value as J};
use std::collections::BTreeMap;
use std::sync::Arc;

/// (document, events per field, flavours)
const DOCS: &[(&str, usize)] = &[
    ("subscription { ev { n a } }", 2),
    ("subscription { evn }", 2),
    ("subscription { ev { n a } evn }", 1),
    ("subscription { ev { n n2 } x: ev { a n } }", 1),
    ("subscription { ev { o { n a } n } evn }", 1),
    ("subscription { evn evnn }", 2),
    ("subscription { evonn { n a } }", 2),
    ("subscription { evonn { n2 onn { a n } } }", 2),
    ("{ n a o { n } }", 1),
    ("mutation { mn inc }", 1),
];

struct Run {
    /// faults apply to event 0 only (single-root documents): later events must be clean
    only_first: bool,
    doc: usize,
    table: BTreeMap<String, Ans>,
    responses: Vec<Obs>,
    end: End,
    schedule: Vec<String>,
    ref_data: J,
    ref_errors: Vec<ExecError>,
}

fn run_one(refs: &Schema, schema: &s1::S1, ch: &mut Chooser, ndocs: usize) -> Run {
    let di = ch.any("doc", ndocs);
    let (text, events) = DOCS[di];
    let doc = agv_refgql::parse::parse_exec(text).unwrap();
    // faults among the child resolvers only (root-level faults are C03's subject)
    let filter = |p: &[Seg], _: &agv_refgql::ast::Type, _: bool, a: &Ans| matches!(a, Ans::Err) && (p.len() > 1 || !text.starts_with("subscription"));
    let (reference, table) = {
        let mut w = ChooserWorld { s: refs, ch, cfg: MenuCfg { errors: true, non_finite: false, wrong_kind: false, rich: false }, class: Class::Dev(1), fault_class: Some(Class::Dev(1)), table: Default::default(), asked: 0, filter: Some(&filter) };
        let r = execute(refs, &doc, None, &Default::default(), &mut w);
        (r, w.table)
    };
    let single_root = doc.ops().next().unwrap().sel.len() == 1 && text.starts_with("subscription");
    let only_first = single_root && events >= 2 && !table.is_empty() && ch.any("faults-only-in-event-0", 2) == 1;
    let table: BTreeMap<String, Ans> = if only_first { table.into_iter().map(|(k, v)| (format!("{k}@0"), v)).collect() } else { table };
    let h = Handle::new();
    let mut wdv = Wd::new(table.clone());
    wdv.gates = Some(h.clone());
    wdv.events = events;
    let wd = Arc::new(wdv);
    let req = Request::new(text).data(wd.clone());
    let cfg = RunCfg { policy: Policy::Eager, gate_class: Class::Exhaustive, preempt_class: Class::Dev(3), max_steps: 5000 };
    let r = sched::run(&h, ch, &cfg, schema.execute_stream(req).collect::<Vec<_>>(), &mut |_| {});
    Run { only_first, doc: di, table, responses: r.output.map(|v| v.iter().map(obs_of).collect()).unwrap_or_default(), end: r.end, schedule: r.schedule, ref_data: reference.data.unwrap_or(J::Null), ref_errors: reference.errors }
}

fn run(cx: &Cx) {
    let refs = Schema::from_sdl(s1::SDL).unwrap();
    let schema = s1::schema();
    let ndocs = DOCS.len();
    {
        let a = run_one(&refs, &schema, &mut Chooser::from_choices(&[2, 0, 1, 1, 0, 1]), ndocs);
        let b = run_one(&refs, &schema, &mut Chooser::from_choices(&[2, 0, 1, 1, 0, 1]), ndocs);
        if a.responses != b.responses || a.schedule != b.schedule {
            return cx.machinery_error("replaying one schedule twice gave different observations");
        }
    }
    let st = explore(
        &ExploreCfg { bounds: [0, 2, 0, 0], ..Default::default() },
        &|ch: &mut Chooser| run_one(&refs, &schema, ch, ndocs),
        &|_, r: Run| {
            cx.eval();
            cx.add_traces(1);
            cx.add_transitions(r.schedule.len() as u64);
            let (text, events) = DOCS[r.doc];
            let root_nodes = agv_refgql::parse::parse_exec(text).unwrap().ops().next().unwrap().sel.len();
            let is_sub = text.starts_with("subscription");
            let case = json!({"query": text, "world": table_json(&r.table), "schedule": r.schedule, "events_per_field": events, "faults_only_in_event_0": r.only_first});
            if r.end != End::Done {
                return cx.violation(Violation::new("no-termination", format!("stream ended {:?} after {:?}", r.end, r.schedule), case).key("doc", text).key("root_nodes", root_nodes.to_string()));
            }
            let doc = agv_refgql::parse::parse_exec(text).unwrap();
            let root_keys: Vec<String> = doc.ops().next().unwrap().sel.iter().filter_map(|s| if let agv_refgql::ast::Selection::Field(f) = s { Some(f.key().to_string()) } else { None }).collect();
            let describe = |i: usize, o: &Obs| format!("response #{i}: data {} errors {:?}\n schedule {:?}\n all responses {:?}", o.data, o.errors.iter().map(|e| (path_str(&e.path), e.message.clone())).collect::<Vec<_>>(), r.schedule, r.responses.iter().map(|o| o.data.clone()).collect::<Vec<_>>());
            if !is_sub {
                if r.responses.len() != 1 {
                    cx.violation(Violation::new("streamed-query-response-count", format!("a streamed query/mutation produced {} responses", r.responses.len()), case).key("doc", text).key("root_nodes", root_nodes.to_string()));
                }
                cx.nontrivial(agv_engine::h64(&(r.doc, &r.schedule, format!("{:?}", r.table))));
                return;
            }
            let clean = if r.only_first {
                let w = agv_refgql::exec::TableWorld::default();
                Some(execute(&refs, &doc, None, &Default::default(), &mut agv_refgql::exec::TableWorldRef { s: &refs, w: &w }))
            } else {
                None
            };
            let mut seen: BTreeMap<String, usize> = BTreeMap::new();
            for (i, o) in r.responses.iter().enumerate() {
                // single-root documents deliver their events in order: response i is event i
                let (ref_errors, ref_data): (&Vec<ExecError>, J) = match (&clean, i) {
                    (Some(c), i) if i > 0 => (&c.errors, c.data.clone().unwrap_or(J::Null)),
                    _ => (&r.ref_errors, r.ref_data.clone()),
                };
                let data: J = serde_json::from_str(&o.data).unwrap_or(J::Null);
                // which root field does this response belong to?
                let key = match &data {
                    J::Object(m) if m.len() == 1 => m.keys().next().unwrap().clone(),
                    J::Null => match o.errors.first().and_then(|e| e.path.first()) {
                        Some(Seg::Key(k)) => k.clone(),
                        _ => {
                            cx.violation(Violation::new("response-not-attributable", describe(i, o), case.clone()).key("doc", text).key("root_nodes", root_nodes.to_string()));
                            continue;
                        }
                    },
                    _ => {
                        cx.violation(Violation::new("response-holds-several-root-fields", describe(i, o), case.clone()).key("doc", text).key("root_nodes", root_nodes.to_string()));
                        continue;
                    }
                };
                *seen.entry(key.clone()).or_insert(0) += 1;
                // errors of another root field?
                if let Some(e) = o.errors.iter().find(|e| !matches!(e.path.first(), Some(Seg::Key(k)) if *k == key)) {
                    cx.violation(
                        Violation::new("errors-leak-between-root-fields", format!("response for root field {key} carries an error at {:?}\n {}", path_str(&e.path), describe(i, o)), case.clone())
                            .key("doc", text).key("root_nodes", root_nodes.to_string()),
                    );
                    continue;
                }
                // own errors: exactly the reference's errors under this root key
                let own: Vec<ExecError> = ref_errors.iter().filter(|e| matches!(e.path.first(), Some(Seg::Key(k)) if *k == key)).cloned().collect();
                let got: Vec<_> = o.errors.iter().map(|e| e.path.clone()).collect();
                let (got_dedup, _) = {
                    // repeated response keys inside the event's selection: same known shape as elsewhere
                    agv_common::casecheck::strip_repeated_key_duplicates(&doc, o)
                };
                if let Err(e) = errors_consistent(&own, &got) {
                    let class = if errors_consistent(&own, &got_dedup).is_ok() { "error-duplicated-for-repeated-key" } else if e.starts_with("expected an error") { "event-error-missing" } else { "event-error-unexpected" };
                    cx.violation(Violation::new(class, format!("{e} (root field {key}; expected errors at {:?})\n {}", own.iter().map(|e| path_str(&e.path)).collect::<Vec<_>>(), describe(i, o)), case.clone()).key("doc", text).key("root_nodes", root_nodes.to_string()));
                    continue;
                }
                // own data
                let nulled_all = own.iter().any(|e| e.nulled.as_deref().map(|n| n.is_empty()).unwrap_or(false));
                let exp = if nulled_all { J::Null } else { json!({ key.clone(): ref_data.get(&key).cloned().unwrap_or(J::Null) }) };
                if data != exp {
                    cx.violation(Violation::new("event-data-differs", format!("root field {key}: expected {exp}\n {}", describe(i, o)), case.clone()).key("doc", text).key("root_nodes", root_nodes.to_string()));
                }
            }
            for k in &root_keys {
                let n = seen.get(k).copied().unwrap_or(0);
                let nodes = root_keys.iter().filter(|x| *x == k).count();
                if n != events * nodes {
                    cx.violation(Violation::new("event-count", format!("root field {k}: {n} responses for {events} event(s) × {nodes} node(s)\n responses {:?}\n schedule {:?}", r.responses.iter().map(|o| o.data.clone()).collect::<Vec<_>>(), r.schedule), case.clone()).key("doc", text).key("root_nodes", root_nodes.to_string()));
                }
            }
            let h = agv_engine::h64(&(r.doc, &r.schedule, format!("{:?}", r.table)));
            if r.schedule.len() >= 2 {
                cx.nontrivial(h);
            }
            cx.sample_with(h, || json!({"query": text, "world": table_json(&r.table), "schedule": r.schedule, "responses": r.responses.iter().map(|o| o.to_json()).collect::<Vec<_>>()}));
        },
    );
    if let Some(d) = st.diverged {
        cx.machinery_error(d);
    }
    cx.add_states(DOCS.len() as u64);
    cx.rule(&format!("case = (document, world, interleaving). {} documents (one root field × 2 events; two root fields incl. an aliased repeat; nested payloads; a query and a mutation through execute_stream) × every world with ≤ 2 failing child resolvers (for single-root documents also with the faults confined to the first event, so that a later event must be clean) × EVERY order of opening the gates of event sources and child resolvers. Non-trivial = executions with ≥ 2 gate openings. traces = executions of the real execute_stream.", DOCS.len()));
    cx.exhaustive(!st.capped);
    cx.extra("schedules", json!(st.executions));
    cx.assume("documents with several subscription root fields are spec-invalid but accepted and pinned by the library's own tests; the property quantifies over them explicitly");
    cx.assume("static flavour (derive S1); root-level faults are C03's subject");
}

fn replay(case: &J) -> String {
    let refs = Schema::from_sdl(s1::SDL).unwrap();
    let schema = s1::schema();
    let want: Vec<String> = case["schedule"].as_array().map(|a| a.iter().filter_map(|x| x.as_str().map(String::from)).collect()).unwrap_or_default();
    let text = case["query"].as_str().unwrap_or("");
    let Some(di) = DOCS.iter().position(|(d, _)| *d == text) else { return "document is not in the check's list any more".into() };
    let world = format!("{:?}", agv_common::glue::table_from_json(&case["world"]));
    let found = std::sync::Mutex::new(None);
    explore(
        &ExploreCfg { bounds: [0, 2, 0, 0], ..Default::default() },
        &|ch: &mut Chooser| {
            // pin the document choice, leave the rest to the explorer
            let r = run_one(&refs, &schema, ch, DOCS.len());
            r
        },
        &|_, r: Run| {
            if r.doc == di && r.schedule == want && format!("{:?}", r.table) == world {
                *found.lock().unwrap() = Some(format!("schedule {:?}\n responses {:?}", r.schedule, r.responses.iter().map(|o| o.to_json().to_string()).collect::<Vec<_>>()));
            }
        },
    );
    found.into_inner().unwrap().unwrap_or_else(|| "the recorded (world, schedule) is no longer reachable".into())
}

fn main() {
    agv_engine::driver::main("C27", "model_checking", run, Some(replay))
}
