//! C27 — each subscription response holds exactly its own event's data and errors.
//!
//! `execute_stream` on S1 (and its dynamic twin for single-root documents) under the
//! controlled scheduler: every event source and every child resolver awaits a
//! gate; ALL interleavings of {event i of root field f arrives, child gate opens}
//! are explored, with ≤ 2 failing child resolvers. Oracle per response: exactly
//! one root key; its data and error paths are those the reference yields for that
//! root field; every response accounted for; a streamed query/mutation yields
//! exactly one response.

use agv_common::glue::{obs_of, table_json, ChooserWorld, MenuCfg, Obs};
use agv_common::s1::{self, Wd};
use agv_engine::explore::{explore, Chooser, Class, ExploreCfg};
use agv_engine::record::{Cx, Violation};
use agv_engine::sched::{self, End, Handle, Policy, RunCfg};
use agv_refgql::exec::{errors_consistent, execute, path_str, Ans, ExecError, Seg};
use agv_refgql::schema::Schema;
use async_graphql::Request;
use futures_util::StreamExt;
use serde_json::{json, Value as J};
use std::collections::BTreeMap;
use std::sync::Arc;

/// (document, events per field, flavours)
const DOCS: &[(&str, usize)] = &[
    ("subscription { ev { n a } }", 2),
    ("subscription { evn }", 2),
    ("subscription { ev { n a } evn }", 1),
    ("subscription { ev { n n2 } x: ev { a n } }", 1),
    ("subscription { ev { o { n a } n } evn }", 1),
    ("subscription { evn evnn }", 2),
    ("subscription { evonn { n a } }", 2),
    ("subscription { evonn { n2 onn { a n } } }", 2),
    ("{ n a o { n } }", 1),
    ("mutation { mn inc }", 1),
    // thorough tier only (QUICK_DOCS = the first 10)
    ("subscription { ev { n a } }", 3),
    ("subscription { evonn { n a } }", 3),
    ("subscription { ev { n a } evn }", 2),
    ("subscription { evn evnn evonn { n } }", 1),
    ("subscription { ev { n n2 } x: ev { a n } }", 2),
    ("subscription { ev { o { n a } n } evn }", 2),
    ("subscription { evonn { n2 onn { a n } } evnn }", 2),
];
const QUICK_DOCS: usize = 10;

struct Run {
    dynamic: bool,
    /// faults apply to event 0 only (single-root documents): later events must be clean
    only_first: bool,
    doc: usize,
    table: BTreeMap<String, Ans>,
    responses: Vec<Obs>,
    end: End,
    schedule: Vec<String>,
    ref_data: J,
    ref_errors: Vec<ExecError>,
}

fn run_one(refs: &Schema, schema: &s1::S1, dynschema: &async_graphql::dynamic::Schema, ch: &mut Chooser, ndocs: usize) -> Run {
    let dynamic = ch.any("flavour", 2) == 1;
    let di = ch.any("doc", ndocs);
    let (text, events) = DOCS[di];
    let doc = agv_refgql::parse::parse_exec(text).unwrap();
    // faults among the child resolvers only (root-level faults are C03's subject)
    let filter = |p: &[Seg], _: &agv_refgql::ast::Type, _: bool, a: &Ans| matches!(a, Ans::Err) && (p.len() > 1 || !text.starts_with("subscription"));
    let (reference, table) = {
        let mut w = ChooserWorld { s: refs, ch, cfg: MenuCfg { errors: true, non_finite: false, wrong_kind: false, rich: false }, class: Class::Dev(1), fault_class: Some(Class::Dev(1)), table: Default::default(), asked: 0, filter: Some(&filter) };
        let r = execute(refs, &doc, None, &Default::default(), &mut w);
        (r, w.table)
    };
    let single_root = doc.ops().next().unwrap().sel.len() == 1 && text.starts_with("subscription");
    let only_first = single_root && events >= 2 && !table.is_empty() && ch.any("faults-only-in-event-0", 2) == 1;
    let table: BTreeMap<String, Ans> = if only_first { table.into_iter().map(|(k, v)| (format!("{k}@0"), v)).collect() } else { table };
    let h = Handle::new();
    let mut wdv = Wd::new(table.clone());
    wdv.gates = Some(h.clone());
    wdv.events = events;
    let wd = Arc::new(wdv);
    let req = Request::new(text).data(wd.clone());
    let cfg = RunCfg { policy: Policy::Eager, gate_class: Class::Exhaustive, preempt_class: Class::Dev(3), max_steps: 5000 };
    let r = if dynamic { sched::run(&h, ch, &cfg, dynschema.execute_stream(req).collect::<Vec<_>>(), &mut |_| {}) } else { sched::run(&h, ch, &cfg, schema.execute_stream(req).collect::<Vec<_>>(), &mut |_| {}) };
    Run { dynamic, only_first, doc: di, table, responses: r.output.map(|v| v.iter().map(obs_of).collect()).unwrap_or_default(), end: r.end, schedule: r.schedule, ref_data: reference.data.unwrap_or(J::Null), ref_errors: reference.errors }
}

fn run(cx: &Cx) {
    let refs = Schema::from_sdl(s1::SDL).unwrap();
    let schema = s1::schema();
    let ndocs = if cx.quick() { QUICK_DOCS } else { DOCS.len() };
    let dynschema = match agv_common::dynamic::build(&refs, Default::default()) {
        Ok(d) => d,
        Err(e) => return cx.machinery_error(format!("dynamic twin of S1 does not build: {e}")),
    };
    for fl in [0u32, 1] {
        let a = run_one(&refs, &schema, &dynschema, &mut Chooser::from_choices(&[fl, 2, 0, 1, 1, 0, 1]), ndocs);
        let b = run_one(&refs, &schema, &dynschema, &mut Chooser::from_choices(&[fl, 2, 0, 1, 1, 0, 1]), ndocs);
        if a.responses != b.responses || a.schedule != b.schedule {
            return cx.machinery_error("replaying one schedule twice gave different observations");
        }
    }
    let faults = if cx.quick() { 2 } else { 3 };
    let ended = std::sync::atomic::AtomicU64::new(0);
    let by_flavour = [std::sync::atomic::AtomicU64::new(0), std::sync::atomic::AtomicU64::new(0)];
    let st = explore(
        &ExploreCfg { bounds: [0, faults, 0, 0], ..Default::default() },
        &|ch: &mut Chooser| run_one(&refs, &schema, &dynschema, ch, ndocs),
        &|_, r: Run| {
            cx.eval();
            by_flavour[r.dynamic as usize].fetch_add(1, std::sync::atomic::Ordering::Relaxed);
            cx.add_traces(1);
            cx.add_transitions(r.schedule.len() as u64);
            let (text, events) = DOCS[r.doc];
            let root_nodes = agv_refgql::parse::parse_exec(text).unwrap().ops().next().unwrap().sel.len();
            let is_sub = text.starts_with("subscription");
            let flavour = if r.dynamic { "dynamic" } else { "static" };
            let case = json!({"flavour": flavour, "query": text, "world": table_json(&r.table), "schedule": r.schedule, "events_per_field": events, "faults_only_in_event_0": r.only_first});
            if r.end != End::Done {
                return cx.violation(Violation::new("no-termination", format!("stream ended {:?} after {:?}", r.end, r.schedule), case).key("doc", text).key("root_nodes", root_nodes.to_string()).key("flavour", flavour));
            }
            let doc = agv_refgql::parse::parse_exec(text).unwrap();
            let root_keys: Vec<String> = doc.ops().next().unwrap().sel.iter().filter_map(|s| if let agv_refgql::ast::Selection::Field(f) = s { Some(f.key().to_string()) } else { None }).collect();
            let describe = |i: usize, o: &Obs| format!("response #{i}: data {} errors {:?}\n schedule {:?}\n all responses {:?}", o.data, o.errors.iter().map(|e| (path_str(&e.path), e.message.clone())).collect::<Vec<_>>(), r.schedule, r.responses.iter().map(|o| o.data.clone()).collect::<Vec<_>>());
            if !is_sub {
                if r.responses.len() != 1 {
                    cx.violation(Violation::new("streamed-query-response-count", format!("a streamed query/mutation produced {} responses", r.responses.len()), case).key("doc", text).key("root_nodes", root_nodes.to_string()).key("flavour", flavour));
                }
                cx.nontrivial(agv_engine::h64(&(r.dynamic, r.doc, &r.schedule, format!("{:?}", r.table))));
                return;
            }
            // reference per root field: the document reduced to the selections with that response key (every root
            // field of a subscription is its own stream; another root field's data-nulling error does not concern it);
            // `clean` = the world of the later events when the faults are confined to event 0
            let reference_for = |key: &str, clean: bool| {
                let mut d = doc.clone();
                for def in d.defs.iter_mut() {
                    if let agv_refgql::ast::ExecDef::Op(o) = def {
                        o.sel.retain(|s| matches!(s, agv_refgql::ast::Selection::Field(f) if f.key() == key));
                    }
                }
                let w = agv_refgql::exec::TableWorld { table: if clean { Default::default() } else { r.table.iter().map(|(k, v)| (k.trim_end_matches("@0").to_string(), v.clone())).collect() } };
                execute(&refs, &d, None, &Default::default(), &mut agv_refgql::exec::TableWorldRef { s: &refs, w: &w })
            };
            let _ = (&r.ref_errors, &r.ref_data);
            let mut seen: BTreeMap<String, usize> = BTreeMap::new();
            let mut last_null: BTreeMap<String, bool> = BTreeMap::new();
            for (i, o) in r.responses.iter().enumerate() {
                let data: J = serde_json::from_str(&o.data).unwrap_or(J::Null);
                // which root field does this response belong to?
                let key = match &data {
                    J::Object(m) if m.len() == 1 => m.keys().next().unwrap().clone(),
                    J::Null => match o.errors.first().and_then(|e| e.path.first()) {
                        Some(Seg::Key(k)) => k.clone(),
                        _ => {
                            cx.violation(Violation::new("response-not-attributable", describe(i, o), case.clone()).key("doc", text).key("root_nodes", root_nodes.to_string()).key("flavour", flavour));
                            continue;
                        }
                    },
                    _ => {
                        cx.violation(Violation::new("response-holds-several-root-fields", describe(i, o), case.clone()).key("doc", text).key("root_nodes", root_nodes.to_string()).key("flavour", flavour));
                        continue;
                    }
                };
                // single-root documents deliver their events in order: response i is event i
                let rf = reference_for(&key, r.only_first && i > 0);
                let (ref_errors, ref_data): (&Vec<ExecError>, J) = (&rf.errors, rf.data.clone().unwrap_or(J::Null));
                *seen.entry(key.clone()).or_insert(0) += 1;
                last_null.insert(key.clone(), data.is_null());
                // errors of another root field?
                if let Some(e) = o.errors.iter().find(|e| !matches!(e.path.first(), Some(Seg::Key(k)) if *k == key)) {
                    cx.violation(
                        Violation::new("errors-leak-between-root-fields", format!("response for root field {key} carries an error at {:?}\n {}", path_str(&e.path), describe(i, o)), case.clone())
                            .key("doc", text).key("root_nodes", root_nodes.to_string()).key("flavour", flavour),
                    );
                    continue;
                }
                // own errors: exactly the reference's errors under this root key
                let own: Vec<ExecError> = ref_errors.iter().filter(|e| matches!(e.path.first(), Some(Seg::Key(k)) if *k == key)).cloned().collect();
                let got: Vec<_> = o.errors.iter().map(|e| e.path.clone()).collect();
                let (got_dedup, _) = {
                    // repeated response keys inside the event's selection: same known shape as elsewhere
                    agv_common::casecheck::strip_repeated_key_duplicates(&doc, o)
                };
                if let Err(e) = errors_consistent(&own, &got) {
                    let class = if errors_consistent(&own, &got_dedup).is_ok() { "error-duplicated-for-repeated-key" } else if e.starts_with("expected an error") { "event-error-missing" } else { "event-error-unexpected" };
                    cx.violation(Violation::new(class, format!("{e} (root field {key}; expected errors at {:?})\n {}", own.iter().map(|e| path_str(&e.path)).collect::<Vec<_>>(), describe(i, o)), case.clone()).key("doc", text).key("root_nodes", root_nodes.to_string()).key("flavour", flavour));
                    continue;
                }
                // own data
                let nulled_all = own.iter().any(|e| e.nulled.as_deref().map(|n| n.is_empty()).unwrap_or(false));
                let exp = if nulled_all { J::Null } else { json!({ key.clone(): ref_data.get(&key).cloned().unwrap_or(J::Null) }) };
                if data != exp {
                    cx.violation(Violation::new("event-data-differs", format!("root field {key}: expected {exp}\n {}", describe(i, o)), case.clone()).key("doc", text).key("root_nodes", root_nodes.to_string()).key("flavour", flavour));
                }
            }
            for k in &root_keys {
                let n = seen.get(k).copied().unwrap_or(0);
                let nodes = root_keys.iter().filter(|x| *x == k).count();
                // dynamic schemas end a root field's stream after an event whose error nulled the whole data
                // (src/dynamic/subscription.rs: "only an error that nulled the whole data ends the stream"); the
                // statement does not say a stream goes on after such an event, so a shorter stream is accepted there
                let ended_early = r.dynamic && nodes == 1 && n >= 1 && n < events && last_null.get(k).copied().unwrap_or(false);
                if ended_early {
                    ended.fetch_add(1, std::sync::atomic::Ordering::Relaxed);
                } else if n != events * nodes {
                    cx.violation(Violation::new("event-count", format!("root field {k}: {n} responses for {events} event(s) × {nodes} node(s)\n responses {:?}\n schedule {:?}", r.responses.iter().map(|o| o.data.clone()).collect::<Vec<_>>(), r.schedule), case.clone()).key("doc", text).key("root_nodes", root_nodes.to_string()).key("flavour", flavour));
                }
            }
            let h = agv_engine::h64(&(r.dynamic, r.doc, &r.schedule, format!("{:?}", r.table)));
            if r.schedule.len() >= 2 {
                cx.nontrivial(h);
            }
            cx.sample_with(h, || json!({"flavour": flavour, "query": text, "world": table_json(&r.table), "schedule": r.schedule, "responses": r.responses.iter().map(|o| o.to_json()).collect::<Vec<_>>()}));
        },
    );
    if let Some(d) = st.diverged {
        cx.machinery_error(d);
    }
    cx.add_states(2 * ndocs as u64);
    cx.rule(&format!("case = (flavour, document, world, interleaving); flavours: S1 (derive) and its dynamic twin. {} documents (one root field × 2 events (thorough: also 3); two root fields incl. an aliased repeat; nested payloads; a query and a mutation through execute_stream) × every world with ≤ {faults} failing child resolvers (for single-root documents also with the faults confined to the first event, so that a later event must be clean) × EVERY order of opening the gates of event sources and child resolvers. Non-trivial = executions with ≥ 2 gate openings. traces = executions of the real execute_stream.", ndocs));
    cx.exhaustive(!st.capped);
    cx.extra("schedules", json!(st.executions));
    cx.extra("schedules_by_flavour", json!({"static": by_flavour[0].load(std::sync::atomic::Ordering::Relaxed), "dynamic": by_flavour[1].load(std::sync::atomic::Ordering::Relaxed)}));
    cx.extra("dynamic_streams_ended_by_a_data_nulling_event_not_judged", json!(ended.load(std::sync::atomic::Ordering::Relaxed)));
    cx.assume("documents with several subscription root fields are spec-invalid but accepted and pinned by the library's own tests; the property quantifies over them explicitly");
    cx.assume("root-level faults are C03's subject");
}

fn replay(case: &J) -> String {
    let refs = Schema::from_sdl(s1::SDL).unwrap();
    let schema = s1::schema();
    let want: Vec<String> = case["schedule"].as_array().map(|a| a.iter().filter_map(|x| x.as_str().map(String::from)).collect()).unwrap_or_default();
    let text = case["query"].as_str().unwrap_or("");
    let Some(di) = DOCS.iter().position(|(d, _)| *d == text) else { return "document is not in the check's list any more".into() };
    let world = format!("{:?}", agv_common::glue::table_from_json(&case["world"]));
    let dynschema = agv_common::dynamic::build(&refs, Default::default()).expect("dynamic twin");
    let want_dynamic = case["flavour"] == "dynamic";
    let found = std::sync::Mutex::new(None);
    explore(
        &ExploreCfg { bounds: [0, 2, 0, 0], ..Default::default() },
        &|ch: &mut Chooser| {
            // pin the document choice, leave the rest to the explorer
            run_one(&refs, &schema, &dynschema, ch, DOCS.len())
        },
        &|_, r: Run| {
            if r.dynamic == want_dynamic && r.doc == di && r.schedule == want && format!("{:?}", r.table) == world {
                *found.lock().unwrap() = Some(format!("schedule {:?}\n responses {:?}", r.schedule, r.responses.iter().map(|o| o.to_json().to_string()).collect::<Vec<_>>()));
            }
        },
    );
    found.into_inner().unwrap().unwrap_or_else(|| "the recorded (world, schedule) is no longer reachable".into())
}

fn main() {
    agv_engine::driver::main("C27", "model_checking", run, Some(replay))
}
