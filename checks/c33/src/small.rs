//! Space (i): every type system with ≤ N definitions over the tiny alphabet.
//!
//! Names and kinds: `Query A B` objects, `I J` interfaces, `U` union, `E` enum, `In` input object.
//! `Query` is always defined and is the query root (its absence is an operator of space (ii)).
//! Exhaustive structure: which names are defined, which defined interfaces each object /
//! interface declares, which defined objects are members of `U`.
//! Everything else is a *decoration* of the plain type system in which every object / interface /
//! input object has the two fields `f: Int`, `g: Int`:
//!   * a field type from {Int, Int!, [Int], A, A!, I, U, In, In!, [In!]} restricted to defined
//!     names (dangling references are an operator of space (ii));
//!   * one argument on a field, from {x: Int, x: Int!, y: Int, y: Int!, x: In, x: A};
//!   * one field only / no field at all; no enum value; interface implementing itself;
//!     non-object union member (I, E, In); `@oneOf`.
//! Decorations are deviations of one class whose budget depends on the number of definitions
//! (`SmallCfg::budget`). A second pass (`types_exhaustive`) enumerates *all* field-type
//! combinations of the smallest type systems with no other decoration.

use crate::ir::{arg, field, put};
use agv_engine::explore::{Chooser, Class};
use agv_refgql::ast::Type;
use agv_refgql::schema::{Arg, FieldT, Kind, Schema};

pub const NAMES: [&str; 8] = ["Query", "A", "B", "I", "J", "U", "E", "In"];

#[derive(Clone, Copy, Debug)]
pub struct SmallCfg {
    pub max_defs: usize,
    /// all field-type combinations (Exhaustive class) instead of type decorations
    pub types_exhaustive: bool,
    /// decoration budget for type systems with ≤3, 4 and 5 definitions (Dev(0), Dev(1), Dev(2))
    pub budget: [u32; 3],
}

impl SmallCfg {
    pub fn class_for(defs: usize) -> Class {
        Class::Dev(match defs {
            0..=3 => 0,
            4 => 1,
            _ => 2,
        })
    }
}

fn type_menu(has: &dyn Fn(&str) -> bool) -> Vec<Type> {
    let n = Type::named;
    let all = vec![n("Int"), n("Int").nn(), n("Int").list(), n("A"), n("A").nn(), n("I"), n("U"), n("In"), n("In").nn(), n("In").nn().list()];
    all.into_iter().filter(|t| t.base() == "Int" || has(t.base())).collect()
}

fn arg_menu(has: &dyn Fn(&str) -> bool) -> Vec<Option<Arg>> {
    let n = Type::named;
    let mut v = vec![None, Some(arg("x", n("Int"))), Some(arg("x", n("Int").nn())), Some(arg("y", n("Int"))), Some(arg("y", n("Int").nn()))];
    if has("In") {
        v.push(Some(arg("x", n("In"))));
    }
    if has("A") {
        v.push(Some(arg("x", n("A"))));
    }
    v
}

fn n_fields(ch: &mut Chooser, deco: Class, owner: &str) -> usize {
    match ch.pick(deco, &format!("{owner}.nf"), 3) {
        0 => 2,
        1 => 1,
        _ => 0,
    }
}

pub fn generate(ch: &mut Chooser, g: &SmallCfg) -> Schema {
    let mut s = Schema::builtins();
    s.query = "Query".into();
    let mut defs: Vec<&str> = vec!["Query"];
    for n in &NAMES[1..] {
        if defs.len() < g.max_defs && ch.any(&format!("def {n}"), 2) == 1 {
            defs.push(n);
        }
    }
    let defs2 = defs.clone();
    let has = move |n: &str| defs2.contains(&n);
    let menu = type_menu(&has);
    let args = arg_menu(&has);
    let deco = SmallCfg::class_for(defs.len());
    let tclass = if g.types_exhaustive { Class::Exhaustive } else { deco };
    let fnames = ["f", "g"];

    for name in &defs {
        match *name {
            "Query" | "A" | "B" | "I" | "J" => {
                let is_iface = matches!(*name, "I" | "J");
                let mut interfaces = Vec::new();
                for i in ["I", "J"] {
                    if !has(i) {
                        continue;
                    }
                    if i == *name {
                        if ch.flag(deco, &format!("{name} implements itself")) {
                            interfaces.push(i.to_string());
                        }
                    } else if ch.any(&format!("{name} implements {i}"), 2) == 1 {
                        interfaces.push(i.to_string());
                    }
                }
                let nf = n_fields(ch, deco, name);
                let mut fields: Vec<FieldT> = Vec::new();
                for fname in fnames.iter().take(nf) {
                    let ty = menu[ch.pick(tclass, &format!("{name}.{fname}:"), menu.len())].clone();
                    let mut f = field(fname, ty);
                    if let Some(a) = &args[ch.pick(deco, &format!("{name}.{fname}()"), args.len())] {
                        f.args.push(a.clone());
                    }
                    fields.push(f);
                }
                put(&mut s, name, if is_iface { Kind::Interface { interfaces, fields } } else { Kind::Object { interfaces, fields } });
            }
            "U" => {
                let mut members = Vec::new();
                for m in ["A", "B"] {
                    if has(m) && ch.any(&format!("U has {m}"), 2) == 0 {
                        members.push(m.to_string());
                    }
                }
                for m in ["I", "E", "In"] {
                    if has(m) && ch.flag(deco, &format!("U has {m}")) {
                        members.push(m.to_string());
                    }
                }
                put(&mut s, "U", Kind::Union { members });
            }
            "E" => {
                let values = if ch.flag(deco, "E empty") { vec![] } else { vec![("X".to_string(), None, None)] };
                put(&mut s, "E", Kind::Enum { values });
            }
            "In" => {
                let one_of = ch.flag(deco, "In @oneOf");
                let nf = n_fields(ch, deco, "In");
                let mut fields = Vec::new();
                for fname in fnames.iter().take(nf) {
                    let ty = menu[ch.pick(tclass, &format!("In.{fname}:"), menu.len())].clone();
                    fields.push(arg(fname, ty));
                }
                put(&mut s, "In", Kind::Input { fields, one_of });
            }
            _ => unreachable!(),
        }
    }
    s
}
