//! C33 — dynamic schemas build exactly when the type system is valid.
//!
//! Seam: `dynamic::Schema::build(q, m, s).register(..)*.finish()`, then on success the standard
//! introspection query, `sdl()` and one small operation per root.
//! Oracle: `finish()` is Ok ⇔ the reference `validate_schema` (October 2021 §3 type validation) accepts;
//! whatever builds answers introspection, exports SDL and executes without panicking.
//! Spaces: (i) all type systems with ≤ N definitions over a tiny alphabet (`small.rs`);
//! (ii) 4 valid exemplars × every single / pair of §3-rule edit operators (`edits.rs`).

mod dynb;
mod edits;
mod ir;
mod small;

use agv_engine::explore::{explore, Chooser, ExploreCfg};
use agv_engine::record::{Cx, Violation};
use agv_refgql::ast::Type;
use agv_refgql::schema::{Kind, Schema};
use agv_refgql::schema_validate::{is_valid_implementation_field_type, validate_schema, SError};
use serde_json::{json, Value as J};
use std::collections::{BTreeMap, HashSet};
use std::sync::Mutex;

/// Rules whose violation the dynamic API cannot even express (nothing to judge).
const UNREPRESENTABLE_RULES: &[&str] = &["UniqueFieldNames", "UniqueArgNames", "UniqueInterfaces", "UniqueUnionMembers", "UniqueEnumValues", "UniqueInputFieldNames"];

#[derive(Debug, Clone)]
enum Built {
    Ok,
    Rejected(String),
    Panic(String),
    Unrepresentable(String),
}

#[derive(Debug, Clone)]
struct Observation {
    reference: Vec<SError>,
    built: Built,
    exercise: Option<dynb::Exercise>,
}

fn observe(irs: &Schema) -> Observation {
    let reference = validate_schema(irs);
    let r = agv_engine::catch_quiet(|| dynb::builder(irs).map(|b| b.finish()));
    let (built, schema) = match r {
        Err(p) => (Built::Panic(p), None),
        Ok(Err(why)) => (Built::Unrepresentable(why), None),
        Ok(Ok(Err(e))) => (Built::Rejected(e.0), None),
        Ok(Ok(Ok(s))) => (Built::Ok, Some(s)),
    };
    let exercise = schema.map(|s| dynb::exercise(irs, &s));
    Observation { reference, built, exercise }
}

/// `Field "A.f" is not sub-type of "I.f"` → `Field _ is not sub-type of _`
fn normalise(msg: &str) -> String {
    let mut out = String::new();
    let mut in_q = false;
    for c in msg.chars() {
        if c == '"' {
            if !in_q {
                out.push('_');
            }
            in_q = !in_q;
        } else if !in_q {
            out.push(c);
        }
    }
    out
}

fn quoted(msg: &str) -> Vec<&str> {
    msg.split('"').skip(1).step_by(2).collect()
}

fn covariance_kinds(s: &Schema, field: &Type, implemented: &Type, out: &mut Vec<&'static str>) {
    match (field, implemented) {
        (Type::NonNull(a), Type::NonNull(b)) => covariance_kinds(s, a, b, out),
        (Type::NonNull(a), b) => {
            out.push("non-null-for-nullable");
            covariance_kinds(s, a, b, out)
        }
        (Type::List(a), Type::List(b)) => covariance_kinds(s, a, b, out),
        (Type::Named(a), Type::Named(b)) if a != b => out.push(match (s.types.get(a).map(|t| &t.kind), s.types.get(b).map(|t| &t.kind)) {
            (Some(Kind::Object { .. }), Some(Kind::Union { .. })) => "object-for-union",
            (Some(Kind::Object { .. }), Some(Kind::Interface { .. })) => "object-for-interface",
            (Some(Kind::Interface { .. }), Some(Kind::Interface { .. })) => "interface-for-interface",
            _ => "other",
        }),
        _ => {}
    }
}

/// Which legal feature of a *valid* type system the builder stumbled over, derived from the
/// names its message quotes (structural key of `rejects-valid`).
fn rejected_feature(s: &Schema, msg: &str) -> String {
    let q = quoted(msg);
    if msg.contains("is not sub-type of") && q.len() == 2 {
        let look = |x: &str| -> Option<Type> {
            let mut p = x.split('.');
            let (t, f) = (p.next()?, p.next()?);
            if p.next().is_some() {
                return None;
            }
            s.field(t, f).map(|f| f.ty.clone())
        };
        if let (Some(a), Some(b)) = (look(q[0]), look(q[1])) {
            if is_valid_implementation_field_type(s, &a, &b) {
                let mut k = Vec::new();
                covariance_kinds(s, &a, &b, &mut k);
                k.sort();
                k.dedup();
                return format!("covariant:{}", k.join("+"));
            }
        }
    }
    if msg.contains("subscription root") {
        return "subscription-root".into();
    }
    "-".into()
}

/// What kind of definition the first reference error is about, as the dynamic API models it.
fn subject(s: &Schema, e: &SError) -> &'static str {
    let sub_root = s.subscription.as_deref().filter(|n| s.is_object(n) && *n != s.query && Some(*n) != s.mutation.as_deref());
    if !e.at.is_empty() && Some(e.at.as_str()) == sub_root {
        return "subscription-root";
    }
    match s.types.get(&e.at).map(|t| &t.kind) {
        None => "schema",
        Some(Kind::Scalar) => "scalar",
        Some(Kind::Object { .. }) => "object",
        Some(Kind::Interface { .. }) => "interface",
        Some(Kind::Union { .. }) => "union",
        Some(Kind::Enum { .. }) => "enum",
        Some(Kind::Input { .. }) => "input",
    }
}

struct Tally {
    /// class → "rule/subject" → cases, for every disagreement (the evidence lists them all)
    disagreements: BTreeMap<String, BTreeMap<String, u64>>,
    by_rule: BTreeMap<String, [u64; 2]>,
    by_operator: BTreeMap<String, [u64; 4]>,
    built_ok: u64,
    exercised_clean: u64,
    operations_run: u64,
    operations_clean: u64,
    unrepresentable: u64,
    unrepresentable_why: BTreeMap<String, u64>,
    duplicates: u64,
    agreed_valid: u64,
    agreed_invalid: u64,
}

struct Judge<'a> {
    cx: &'a Cx,
    seen: Mutex<HashSet<u64>>,
    tally: Mutex<Tally>,
}

#[derive(Clone)]
struct Origin {
    part: &'static str,
    operator: String,
    sites: Vec<String>,
    choices: Vec<u32>,
}

impl<'a> Judge<'a> {
    fn new(cx: &'a Cx) -> Self {
        Judge {
            cx,
            seen: Mutex::new(HashSet::new()),
            tally: Mutex::new(Tally { disagreements: BTreeMap::new(), by_rule: BTreeMap::new(), by_operator: BTreeMap::new(), built_ok: 0, exercised_clean: 0, operations_run: 0, operations_clean: 0, unrepresentable: 0, unrepresentable_why: BTreeMap::new(), duplicates: 0, agreed_valid: 0, agreed_invalid: 0 }),
        }
    }

    fn case(&self, irs: &Schema, sdl: &str, o: &Origin) -> J {
        json!({"sdl": sdl, "part": o.part, "operator": o.operator, "sites": o.sites, "choices": o.choices, "query_root": irs.query})
    }

    fn judge(&self, irs: &Schema, o: &Origin) {
        let cx = self.cx;
        let sdl = ir::sdl_of(irs);
        let h = agv_engine::hstr(&sdl);
        if !self.seen.lock().unwrap().insert(h) {
            self.tally.lock().unwrap().duplicates += 1;
            return;
        }
        // harness self-check: the case must survive its own storage format
        match ir::from_sdl_tolerant(&sdl) {
            Ok(back) if ir::sdl_of(&back) == sdl && validate_schema(&back).len() == validate_schema(irs).len() => {}
            Ok(back) => return cx.machinery_error(format!("IR does not survive printing: {sdl:?} reparsed prints {:?}", ir::sdl_of(&back))),
            Err(e) => return cx.machinery_error(format!("printed IR does not parse: {e}: {sdl:?}")),
        }
        if std::env::var_os("C33_DRY").is_some() {
            // development aid: size of the space without touching the code under test
            cx.eval();
            cx.nontrivial(h);
            return;
        }
        let obs = observe(irs);
        let rule0 = obs.reference.first().map(|e| e.rule);
        // column of the operator table: 0 agreed valid, 1 agreed invalid, 2 accepts invalid, 3 rejects valid
        let col = match (&obs.built, rule0) {
            (Built::Unrepresentable(why), _) => {
                let mut t = self.tally.lock().unwrap();
                t.unrepresentable += 1;
                // keep the reason, drop the names
                let kind = match why.split_once(": ") {
                    Some((_, tail)) if why.contains("twice") || why.starts_with("duplicate") => tail.to_string(),
                    _ => why.clone(),
                };
                *t.unrepresentable_why.entry(kind).or_insert(0) += 1;
                return;
            }
            (Built::Panic(p), _) => {
                cx.eval();
                cx.violation(
                    Violation::new("panic", format!("registering / finish() panicked: {p}\n{sdl}"), self.case(irs, &sdl, o)).key("stage", "build").key("rule", rule0.unwrap_or("-")).key("operator", o.operator.clone()),
                );
                return;
            }
            (Built::Ok, None) => 0,
            (Built::Rejected(_), Some(_)) => 1,
            (Built::Ok, Some(_)) => 2,
            (Built::Rejected(_), None) => 3,
        };
        {
            let mut t = self.tally.lock().unwrap();
            t.by_operator.entry(o.operator.clone()).or_insert([0; 4])[col] += 1;
            match col {
                0 => t.agreed_valid += 1,
                1 => {
                    t.agreed_invalid += 1;
                    t.by_rule.entry(rule0.unwrap().to_string()).or_insert([0; 2])[0] += 1;
                }
                2 => t.by_rule.entry(rule0.unwrap().to_string()).or_insert([0; 2])[1] += 1,
                _ => {}
            }
        }
        match (&obs.built, rule0) {
            (Built::Ok, Some(r)) => {
                *self.tally.lock().unwrap().disagreements.entry(format!("accepts-invalid/{r}")).or_default().entry(format!("{r}/{}", subject(irs, &obs.reference[0]))).or_insert(0) += 1;
                let all: Vec<String> = obs.reference.iter().map(|e| format!("{}: {}", e.rule, e.msg)).collect();
                cx.violation(
                    Violation::new(format!("accepts-invalid/{r}"), format!("finish() built a type system the specification rejects ({})\n{sdl}", all.join("; ")), self.case(irs, &sdl, o))
                        .key("rule", r)
                        .key("subject", subject(irs, &obs.reference[0]))
                        .key("operator", o.operator.clone()),
                );
            }
            (Built::Rejected(msg), None) => {
                let feature = rejected_feature(irs, msg);
                *self.tally.lock().unwrap().disagreements.entry(format!("rejects-valid/{}", normalise(msg))).or_default().entry(feature.clone()).or_insert(0) += 1;
                cx.violation(
                    Violation::new(format!("rejects-valid/{}", normalise(msg)), format!("finish() rejected a valid type system: {msg}\n{sdl}"), self.case(irs, &sdl, o)).key("rule", feature).key("operator", o.operator.clone()),
                );
            }
            _ => cx.nontrivial(h),
        }
        cx.eval();
        if let Some(ex) = &obs.exercise {
            let valid = obs.reference.is_empty();
            let mut t = self.tally.lock().unwrap();
            t.built_ok += 1;
            t.operations_run += ex.operations_run as u64;
            t.operations_clean += ex.operations_clean as u64;
            if ex.problems.is_empty() {
                t.exercised_clean += 1;
            }
            drop(t);
            for p in &ex.problems {
                // panics and parked futures are judged on everything that builds; errors and
                // unparsable SDL only where the reference says the type system is valid (on an
                // invalid one they are consequences of the acceptance already reported)
                let judged = matches!(p.kind, "panic" | "parks") || valid;
                if !judged {
                    continue;
                }
                let class = match p.kind {
                    "panic" => "panic".to_string(),
                    "parks" => "parks".to_string(),
                    "unparsable" => "sdl-unparsable".to_string(),
                    _ => format!("{}-fails", p.stage),
                };
                cx.violation(
                    Violation::new(class, format!("{} of a built schema ({}): {}\n{sdl}", p.stage, if valid { "valid" } else { "invalid, accepted" }, p.detail), self.case(irs, &sdl, o))
                        .key("stage", p.stage)
                        .key("rule", rule0.unwrap_or("-"))
                        .key("operator", o.operator.clone()),
                );
            }
            if valid {
                // the generated operations must be valid per the reference, or the harness is wrong
                for q in &ex.queries {
                    match agv_refgql::parse::parse_exec(q) {
                        Err(e) => cx.machinery_error(format!("generated operation does not parse ({}): {q}", e.msg)),
                        Ok(doc) => {
                            let errs = agv_refgql::validate::validate(irs, &doc);
                            if !errs.is_empty() {
                                cx.machinery_error(format!("generated operation is invalid per the reference ({}: {}): {q}\n{sdl}", errs[0].rule, errs[0].msg));
                            }
                        }
                    }
                }
            }
            cx.sample_with(h, || json!({"sdl": sdl, "reference": obs.reference.iter().map(|e| e.rule).collect::<Vec<_>>(), "finish": "Ok", "operations": ex.queries, "exported_sdl_bytes": ex.sdl.as_ref().map(|s| s.len())}));
        }
    }
}

fn exemplars() -> Result<Vec<(&'static str, Schema)>, String> {
    let mut v = Vec::new();
    for (name, sdl) in edits::EXEMPLARS {
        let s = ir::from_sdl_tolerant(sdl)?;
        let errs = validate_schema(&s);
        if !errs.is_empty() {
            return Err(format!("exemplar {name} is not valid per the reference: {}: {}", errs[0].rule, errs[0].msg));
        }
        v.push((name, s));
    }
    Ok(v)
}

fn run(cx: &Cx) {
    let quick = cx.quick();
    let judge = Judge::new(cx);

    // ---------------- (i) small scope
    let exh_defs = if quick { 2 } else { 3 };
    let scfg = if quick { small::SmallCfg { max_defs: 4, types_exhaustive: false, budget: [2, 2, 0] } } else { small::SmallCfg { max_defs: 5, types_exhaustive: false, budget: [3, 2, 1] } };
    let acfg = small::SmallCfg { max_defs: exh_defs, types_exhaustive: true, budget: [0, 0, 0] };
    let mut small_stats = Vec::new();
    for (pass, cfg) in [("all-field-types", acfg), ("decorations", scfg)] {
        let st = explore(
            &ExploreCfg::bounds([cfg.budget[0], cfg.budget[1], cfg.budget[2], 0]),
            &|ch: &mut Chooser| {
                let s = small::generate(ch, &cfg);
                judge.judge(&s, &Origin { part: "small-scope", operator: "enum".into(), sites: vec![], choices: ch.choices() });
            },
            &|_, _| {},
        );
        if let Some(d) = &st.diverged {
            cx.machinery_error(d.clone());
        }
        small_stats.push((pass, st.executions, st.capped));
    }

    // ---------------- (ii) exemplars × edit operators
    let ex = match exemplars() {
        Ok(v) => v,
        Err(e) => return cx.machinery_error(e),
    };
    let max_edits: u32 = if quick { 1 } else { 2 };
    let ops_seen: Mutex<BTreeMap<&'static str, u64>> = Mutex::new(BTreeMap::new());
    let st2 = explore(
        // sequential: two operators can produce the same type system, and the one met first is the one it is attributed to
        &ExploreCfg { parallel: false, ..ExploreCfg::bounds([max_edits, 0, 0, 0]) },
        &|ch: &mut Chooser| {
            let xi = ch.any("exemplar", ex.len());
            let mut s = ex[xi].1.clone();
            let mut ops: Vec<&'static str> = Vec::new();
            let mut sites = Vec::new();
            for k in 0..max_edits {
                let es = edits::edits(&s);
                let c = ch.dev(0, &format!("edit#{k}"), es.len() + 1);
                if c == 0 {
                    break;
                }
                let e = &es[c - 1];
                (e.apply)(&mut s);
                ops.push(e.op);
                sites.push(format!("{}@{}", e.op, e.site));
            }
            if ops.len() == 1 {
                *ops_seen.lock().unwrap().entry(ops[0]).or_insert(0) += 1;
            }
            let operator = if ops.is_empty() { "none".to_string() } else { ops.join("+") };
            judge.judge(&s, &Origin { part: ex[xi].0, operator, sites, choices: ch.choices() });
        },
        &|_, _| {},
    );
    if let Some(d) = &st2.diverged {
        cx.machinery_error(d.clone());
    }

    let t = judge.tally.into_inner().unwrap();
    if t.agreed_valid == 0 || t.agreed_invalid == 0 {
        cx.machinery_error(format!("reference and builder never agreed on both verdicts (agreed valid {}, agreed invalid {}): vacuous or systematically wrong", t.agreed_valid, t.agreed_invalid));
    }
    if t.operations_clean == 0 {
        cx.machinery_error("no built schema ever answered an operation without errors");
    }
    cx.rule(&format!(
        "case = one type system (distinct by canonical SDL), registered through the dynamic API and finished. (i) small scope: Query (always the query root) plus ≤ {} further definitions from {{A,B: object; I,J: interface; U: union; E: enum; In: input}}; exhaustive structure (which names, implements among defined interfaces, union members among defined objects); decorations of the plain system (fields f: Int, g: Int everywhere): field type from {{Int, Int!, [Int], A, A!, I, U, In, In!, [In!]}} over defined names, one argument from {{x:Int, x:Int!, y:Int, y:Int!, x:In, x:A}}, one/no field, no enum value, interface implementing itself, non-object union member, @oneOf — ≤ {} decorations with ≤ 3 definitions, ≤ {} with 4, ≤ {} with 5; plus all field-type combinations (no other decoration) with ≤ {} definitions. (ii) 4 valid exemplars × every sequence of ≤ {} edit(s) from {} operators at every applicable site. Non-trivial = type systems on which finish() and the reference validator agree (both verdicts must occur).",
        scfg.max_defs - 1,
        scfg.budget[0],
        scfg.budget[1],
        if scfg.max_defs >= 5 { scfg.budget[2] } else { 0 },
        exh_defs,
        max_edits,
        ops_seen.lock().unwrap().len()
    ));
    cx.exhaustive(!small_stats.iter().any(|x| x.2) && !st2.capped);
    cx.extra("small_scope", json!({"choice_sequences": {"all_field_types_pass": small_stats[0].1, "decorations_pass": small_stats[1].1}, "max_definitions": scfg.max_defs, "types_exhaustive_up_to_definitions": exh_defs, "decoration_budget": {"up_to_3_definitions": scfg.budget[0], "4_definitions": scfg.budget[1], "5_definitions": scfg.budget[2]}}));
    cx.extra("exemplar_edits", json!({"choice_sequences": st2.executions, "max_edits": max_edits, "single_edits_per_operator": *ops_seen.lock().unwrap()}));
    cx.extra("duplicate_type_systems_skipped", json!(t.duplicates));
    cx.extra("unrepresentable_skipped", json!({"cases": t.unrepresentable, "why": t.unrepresentable_why}));
    cx.extra("agreed_valid", json!(t.agreed_valid));
    cx.extra("agreed_invalid", json!(t.agreed_invalid));
    cx.extra("built", json!({"schemas": t.built_ok, "exercised_without_problem": t.exercised_clean, "operations_run": t.operations_run, "operations_answered_without_errors": t.operations_clean}));
    cx.extra("by_rule", J::Object(t.by_rule.iter().map(|(k, v)| (k.clone(), json!({"agreed_invalid": v[0], "accepted_by_finish": v[1]}))).collect()));
    cx.extra(
        "by_operator",
        J::Object(t.by_operator.iter().filter(|(k, _)| !k.contains('+')).map(|(k, v)| (k.clone(), json!({"agreed_valid": v[0], "agreed_invalid": v[1], "accepts_invalid": v[2], "rejects_valid": v[3]}))).collect()),
    );
    cx.extra("disagreements", json!(t.disagreements));
    cx.extra("rules_not_judged_unrepresentable", json!(UNREPRESENTABLE_RULES));
    cx.assume("uniqueness rules (type, field, argument, enum value, union member, implements) are not judged: register()/argument()/item()/possible_type() replace silently and field()/implement() assert before any schema exists, so the dynamic API cannot hold a duplicate");
    cx.assume("the subscription root object is registered as dynamic::Subscription (the API's own model); type systems that use that object as a field type or let it implement interfaces are skipped as unrepresentable");
    cx.assume("the reference validator (agv-refgql::schema_validate, October 2021 §3 rule lists + the two OneOf rules) is the oracle; it is bound to the spec by unit tests per clause and to the code by the agreement counts on both verdicts");
    cx.assume("directive definitions, custom scalars, default-value coercibility and names of enum values are outside the enumerated space");
}

fn replay(case: &J) -> String {
    let Some(sdl) = case["sdl"].as_str() else { return "case has no sdl".into() };
    let s = match ir::from_sdl_tolerant(sdl) {
        Ok(s) => s,
        Err(e) => return e,
    };
    let obs = observe(&s);
    let mut out = format!("\n{sdl} reference: ");
    if obs.reference.is_empty() {
        out += "valid";
    } else {
        out += &obs.reference.iter().map(|e| format!("{}: {}", e.rule, e.msg)).collect::<Vec<_>>().join("; ");
    }
    out += &format!("\n finish(): {:?}", obs.built);
    if let Some(ex) = &obs.exercise {
        out += &format!("\n operations: {:?} ({} of {} answered without errors)", ex.queries, ex.operations_clean, ex.operations_run);
        for p in &ex.problems {
            out += &format!("\n {} {}: {}", p.stage, p.kind, p.detail);
        }
    }
    out
}

fn main() {
    agv_engine::driver::main("C33", "exploration", run, Some(replay))
}
