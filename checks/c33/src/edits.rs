//! Space (ii): valid exemplar type systems and the §3-rule edit operators applied to them.

use crate::ir::{arg, default_value_for, names_of, user_types, with_base};
use agv_refgql::ast::Type;
use agv_refgql::schema::{Arg, FieldT, Kind, Schema};

pub const EXEMPLARS: [(&str, &str); 4] = [
    (
        "X1-interfaces",
        "schema { query: Query }
         type Query { i: I j: J a: A! li: [I] }
         interface I { f: Int g(x: Int, r: Int!): I l: [I] n: Int! }
         interface J implements I { f: Int g(x: Int, r: Int!): I l: [I] n: Int! h: U }
         type A implements I & J { f: Int g(x: Int, r: Int!): I l: [I] n: Int! h: U }
         type B implements I { f: Int g(x: Int, r: Int!): I l: [I] n: Int! b: E }
         union U = A | B
         enum E { X Y }",
    ),
    (
        "X2-inputs",
        "schema { query: Query mutation: Mutation }
         type Query { q(in: In, one: One, e: E = X): Int p(list: [In!]!, n: Int! = 1): A }
         type Mutation { m(in: In!): Int }
         type A { f: Int e: E }
         input In { a: Int! n: In l: [In!] m: In2! d: Int = 1 }
         input In2 { x: Int back: In e: E }
         input One @oneOf { a: Int b: String c: In }
         enum E { X Y }",
    ),
    (
        "X3-roots",
        "schema { query: Q mutation: M subscription: S }
         type Q { u: U a: A e: E }
         type M { set(v: Int): Int }
         type S { tick(n: Int): Int a: A }
         type A { f: Int }
         type B { g: [B!] }
         union U = A | B
         enum E { X }
         interface I { f: Int g(x: Int, in: In): Int }
         input In { a: Int }",
    ),
    (
        "X4-wrappers",
        "schema { query: Query }
         type Query { f: [[Int!]]! s: String a(x: [[In]!]): A }
         type A implements I { f: [[I]] k: I }
         interface I { f: [[I]] k: I }
         input In { x: [[In!]!]! }",
    ),
];

pub struct Edit {
    pub op: &'static str,
    pub site: String,
    pub apply: Box<dyn Fn(&mut Schema) + Send + Sync>,
}

fn fields_mut<'a>(s: &'a mut Schema, t: &str) -> Option<&'a mut Vec<FieldT>> {
    match &mut s.types.get_mut(t)?.kind {
        Kind::Object { fields, .. } | Kind::Interface { fields, .. } => Some(fields),
        _ => None,
    }
}
fn field_mut<'a>(s: &'a mut Schema, t: &str, f: &str) -> Option<&'a mut FieldT> {
    fields_mut(s, t)?.iter_mut().find(|x| x.name == f)
}
fn arg_mut<'a>(s: &'a mut Schema, t: &str, f: &str, a: &str) -> Option<&'a mut Arg> {
    field_mut(s, t, f)?.args.iter_mut().find(|x| x.name == a)
}
fn ifaces_mut<'a>(s: &'a mut Schema, t: &str) -> Option<&'a mut Vec<String>> {
    match &mut s.types.get_mut(t)?.kind {
        Kind::Object { interfaces, .. } | Kind::Interface { interfaces, .. } => Some(interfaces),
        _ => None,
    }
}
fn input_fields_mut<'a>(s: &'a mut Schema, t: &str) -> Option<&'a mut Vec<Arg>> {
    match &mut s.types.get_mut(t)?.kind {
        Kind::Input { fields, .. } => Some(fields),
        _ => None,
    }
}
fn members_mut<'a>(s: &'a mut Schema, t: &str) -> Option<&'a mut Vec<String>> {
    match &mut s.types.get_mut(t)?.kind {
        Kind::Union { members } => Some(members),
        _ => None,
    }
}

fn toggle_list(t: &Type) -> Type {
    // `T` → `[T]`, `[T]` → `T` (outermost list), keeping the outer nullability
    match t {
        Type::NonNull(i) => toggle_list(i).nn(),
        Type::List(i) => i.nullable().clone(),
        named => named.clone().list(),
    }
}
fn item_non_null(t: &Type) -> Option<Type> {
    match t {
        Type::NonNull(i) => item_non_null(i).map(|x| x.nn()),
        Type::List(i) if !i.is_non_null() => Some(Type::List(Box::new((**i).clone().nn()))),
        _ => None,
    }
}

fn rename_type(s: &mut Schema, old: &str, new: &str) {
    let ren = |t: &mut Type| {
        if t.base() == old {
            *t = with_base(t, new);
        }
    };
    let rs = |v: &mut Vec<String>| {
        for x in v.iter_mut() {
            if x == old {
                *x = new.to_string();
            }
        }
    };
    if let Some(mut t) = s.types.remove(old) {
        t.name = new.to_string();
        s.types.insert(new.to_string(), t);
    }
    for t in s.types.values_mut() {
        match &mut t.kind {
            Kind::Object { interfaces, fields } | Kind::Interface { interfaces, fields } => {
                rs(interfaces);
                for f in fields {
                    ren(&mut f.ty);
                    for a in &mut f.args {
                        ren(&mut a.ty);
                    }
                }
            }
            Kind::Union { members } => rs(members),
            Kind::Input { fields, .. } => {
                for f in fields {
                    ren(&mut f.ty);
                }
            }
            _ => {}
        }
    }
    if s.query == old {
        s.query = new.to_string();
    }
    for r in [&mut s.mutation, &mut s.subscription] {
        if r.as_deref() == Some(old) {
            *r = Some(new.to_string());
        }
    }
}

/// Every single edit applicable to `s`, in a deterministic order, without repetitions.
pub fn edits(s: &Schema) -> Vec<Edit> {
    let mut v: Vec<Edit> = Vec::new();
    let mut seen = std::collections::BTreeSet::new();
    let mut push = |op: &'static str, site: String, f: Box<dyn Fn(&mut Schema) + Send + Sync>| {
        if seen.insert((op, site.clone())) {
            v.push(Edit { op, site, apply: f });
        }
    };
    macro_rules! ed {
        ($op:expr, $site:expr, $f:expr) => {
            push($op, $site, Box::new($f))
        };
    }
    let objs = names_of(s, |k| matches!(k, Kind::Object { .. }));
    let ifaces = names_of(s, |k| matches!(k, Kind::Interface { .. }));
    let unions = names_of(s, |k| matches!(k, Kind::Union { .. }));
    let enums = names_of(s, |k| matches!(k, Kind::Enum { .. }));
    let inputs = names_of(s, |k| matches!(k, Kind::Input { .. }));
    let roots: Vec<&str> = std::iter::once(s.query.as_str()).chain(s.mutation.as_deref()).chain(s.subscription.as_deref()).collect();
    let plain_objs: Vec<String> = objs.iter().filter(|o| !roots.contains(&o.as_str())).cloned().collect();
    let non_objects: Vec<(&'static str, String)> =
        [("interface", ifaces.first()), ("union", unions.first()), ("enum", enums.first()), ("input", inputs.first())].into_iter().filter_map(|(k, n)| n.map(|n| (k, n.clone()))).collect();
    let outputs_for_input: Vec<String> = [plain_objs.first(), ifaces.first(), unions.first()].into_iter().flatten().cloned().collect();

    // ---- §3.3.1 root operation types
    {
        let q = s.query.clone();
        ed!("root-query-missing", q.clone(), move |s: &mut Schema| {
            s.types.remove(&q);
        });
    }
    for (k, n) in &non_objects {
        let n1 = n.clone();
        ed!("root-query-nonobject", format!("{k} {n}"), move |s: &mut Schema| s.query = n1.clone());
        let n1 = n.clone();
        ed!("root-mutation-nonobject", format!("{k} {n}"), move |s: &mut Schema| s.mutation = Some(n1.clone()));
        let n1 = n.clone();
        ed!("root-subscription-nonobject", format!("{k} {n}"), move |s: &mut Schema| s.subscription = Some(n1.clone()));
    }
    ed!("root-mutation-unknown", "Zzz".into(), |s: &mut Schema| s.mutation = Some("Zzz".into()));
    ed!("root-subscription-unknown", "Zzz".into(), |s: &mut Schema| s.subscription = Some("Zzz".into()));
    ed!("root-mutation-is-query", s.query.clone(), |s: &mut Schema| s.mutation = Some(s.query.clone()));
    ed!("root-subscription-is-query", s.query.clone(), |s: &mut Schema| s.subscription = Some(s.query.clone()));

    // ---- per object / interface: fields, arguments, emptiness, implements
    for t in user_types(s) {
        let (is_obj, interfaces, fields) = match &t.kind {
            Kind::Object { interfaces, fields } => (true, interfaces, fields),
            Kind::Interface { interfaces, fields } => (false, interfaces, fields),
            _ => continue,
        };
        let tn = t.name.clone();
        for f in fields {
            let (t1, f1) = (tn.clone(), f.name.clone());
            ed!("unknown-type", format!("{tn}.{}", f.name), move |s: &mut Schema| {
                if let Some(x) = field_mut(s, &t1, &f1) {
                    x.ty = with_base(&x.ty, "Zzz");
                }
            });
            if let Some(inp) = inputs.first() {
                let (t1, f1, i1) = (tn.clone(), f.name.clone(), inp.clone());
                ed!("input-as-output", format!("{tn}.{}", f.name), move |s: &mut Schema| {
                    if let Some(x) = field_mut(s, &t1, &f1) {
                        x.ty = with_base(&x.ty, &i1);
                    }
                });
            }
            let (t1, f1) = (tn.clone(), f.name.clone());
            ed!("reserved-name", format!("field {tn}.{}", f.name), move |s: &mut Schema| {
                if let Some(x) = field_mut(s, &t1, &f1) {
                    x.name = format!("__{}", x.name);
                }
            });
            for a in &f.args {
                let (t1, f1, a1) = (tn.clone(), f.name.clone(), a.name.clone());
                ed!("unknown-type", format!("{tn}.{}({}:)", f.name, a.name), move |s: &mut Schema| {
                    if let Some(x) = arg_mut(s, &t1, &f1, &a1) {
                        x.ty = with_base(&x.ty, "Zzz");
                    }
                });
                for o in &outputs_for_input {
                    let (t1, f1, a1, o1) = (tn.clone(), f.name.clone(), a.name.clone(), o.clone());
                    ed!("output-as-input", format!("{tn}.{}({}:) <- {o}", f.name, a.name), move |s: &mut Schema| {
                        if let Some(x) = arg_mut(s, &t1, &f1, &a1) {
                            x.ty = with_base(&x.ty, &o1);
                            x.default = None;
                        }
                    });
                }
                let (t1, f1, a1) = (tn.clone(), f.name.clone(), a.name.clone());
                ed!("reserved-name", format!("argument {tn}.{}({}:)", f.name, a.name), move |s: &mut Schema| {
                    if let Some(x) = arg_mut(s, &t1, &f1, &a1) {
                        x.name = format!("__{}", x.name);
                    }
                });
            }
        }
        let t1 = tn.clone();
        ed!(if is_obj { "empty-object" } else { "empty-interface" }, tn.clone(), move |s: &mut Schema| {
            if let Some(x) = fields_mut(s, &t1) {
                x.clear();
            }
        });
        let t1 = tn.clone();
        ed!("implements-unknown", tn.clone(), move |s: &mut Schema| {
            if let Some(x) = ifaces_mut(s, &t1) {
                x.push("Zzz".into());
            }
        });
        for other in [plain_objs.iter().find(|o| **o != tn), unions.first()].into_iter().flatten() {
            let (t1, o1) = (tn.clone(), other.clone());
            ed!("implements-non-interface", format!("{tn} implements {other}"), move |s: &mut Schema| {
                if let Some(x) = ifaces_mut(s, &t1) {
                    x.push(o1.clone());
                }
            });
        }
        if !is_obj {
            let t1 = tn.clone();
            ed!("interface-implements-itself", tn.clone(), move |s: &mut Schema| {
                if let Some(x) = ifaces_mut(s, &t1) {
                    x.push(t1.clone());
                }
            });
            for y in interfaces.iter().filter(|y| ifaces.contains(y) && **y != tn) {
                let (t1, y1) = (tn.clone(), y.clone());
                ed!("interface-cycle", format!("{y} implements {tn}"), move |s: &mut Schema| {
                    if let Some(x) = ifaces_mut(s, &y1) {
                        if !x.contains(&t1) {
                            x.push(t1.clone());
                        }
                    }
                });
            }
        }

        // ---- IsValidImplementation: edits of the implementing side, per (interface, field)
        for xn in interfaces {
            let Some(Kind::Interface { interfaces: inherited, fields: xfields }) = s.types.get(xn).map(|x| &x.kind) else { continue };
            for y in inherited.iter().filter(|y| interfaces.contains(y)) {
                let (t1, y1) = (tn.clone(), y.clone());
                ed!("implements-transitive-missing", format!("{tn} drops {y} (inherited through {xn})"), move |s: &mut Schema| {
                    if let Some(x) = ifaces_mut(s, &t1) {
                        x.retain(|i| *i != y1);
                    }
                });
            }
            for xf in xfields {
                let Some(tf) = fields.iter().find(|f| f.name == xf.name) else { continue };
                let site = format!("{tn}.{}", tf.name);
                let set_ty = |op: &'static str, site: String, ty: Type, push: &mut dyn FnMut(&'static str, String, Box<dyn Fn(&mut Schema) + Send + Sync>)| {
                    let (t1, f1) = (tn.clone(), tf.name.clone());
                    push(
                        op,
                        site,
                        Box::new(move |s: &mut Schema| {
                            if let Some(x) = field_mut(s, &t1, &f1) {
                                x.ty = ty.clone();
                            }
                        }),
                    );
                };
                let (t1, f1) = (tn.clone(), tf.name.clone());
                ed!("impl-field-missing", site.clone(), move |s: &mut Schema| {
                    if let Some(x) = fields_mut(s, &t1) {
                        x.retain(|f| f.name != f1);
                    }
                });
                if tf.ty.is_non_null() {
                    set_ty("impl-field-nullable", site.clone(), tf.ty.nullable().clone(), &mut push);
                } else {
                    set_ty("impl-field-non-null", site.clone(), tf.ty.clone().nn(), &mut push);
                }
                if let Some(t2) = item_non_null(&tf.ty) {
                    set_ty("impl-field-item-non-null", site.clone(), t2, &mut push);
                }
                set_ty("impl-field-list-toggle", site.clone(), toggle_list(&tf.ty), &mut push);
                let base = tf.ty.base();
                if s.is_abstract(base) {
                    if let Some(p) = s.possible_types(base).into_iter().find(|p| s.is_object(p)) {
                        set_ty("impl-field-concrete-object", format!("{site} <- {p}"), with_base(&tf.ty, &p), &mut push);
                    }
                    if let Some(j) = ifaces.iter().find(|j| *j != base && s.all_interfaces(j).iter().any(|i| i == base)) {
                        set_ty("impl-field-narrower-interface", format!("{site} <- {j}"), with_base(&tf.ty, j), &mut push);
                    }
                    let unrelated = plain_objs.iter().find(|o| !s.possible_types(base).contains(o)).cloned().unwrap_or_else(|| "Int".into());
                    set_ty("impl-field-unrelated", format!("{site} <- {unrelated}"), with_base(&tf.ty, &unrelated), &mut push);
                } else {
                    let other = if base == "String" { "Int" } else { "String" };
                    set_ty("impl-field-unrelated", format!("{site} <- {other}"), with_base(&tf.ty, other), &mut push);
                }
                for xa in &xf.args {
                    let Some(ta) = tf.args.iter().find(|a| a.name == xa.name) else { continue };
                    let asite = format!("{site}({}:)", ta.name);
                    let (t1, f1, a1) = (tn.clone(), tf.name.clone(), ta.name.clone());
                    ed!("impl-arg-missing", format!("{asite} {}", if xa.ty.is_non_null() { "required" } else { "optional" }), move |s: &mut Schema| {
                        if let Some(x) = field_mut(s, &t1, &f1) {
                            x.args.retain(|a| a.name != a1);
                        }
                    });
                    let (t1, f1, a1) = (tn.clone(), tf.name.clone(), ta.name.clone());
                    let nt = if ta.ty.is_non_null() { ta.ty.nullable().clone() } else { ta.ty.clone().nn() };
                    ed!("impl-arg-retyped", format!("{asite} <- {nt}"), move |s: &mut Schema| {
                        if let Some(x) = arg_mut(s, &t1, &f1, &a1) {
                            x.ty = nt.clone();
                        }
                    });
                    let (t1, f1, a1) = (tn.clone(), tf.name.clone(), ta.name.clone());
                    let nt = with_base(&ta.ty, if ta.ty.base() == "String" { "Int" } else { "String" });
                    ed!("impl-arg-retyped", format!("{asite} <- {nt}"), move |s: &mut Schema| {
                        if let Some(x) = arg_mut(s, &t1, &f1, &a1) {
                            x.ty = nt.clone();
                        }
                    });
                }
                for (op, ty) in [("impl-arg-extra-optional", Type::named("Int")), ("impl-arg-extra-required", Type::named("Int").nn())] {
                    let (t1, f1) = (tn.clone(), tf.name.clone());
                    ed!(op, site.clone(), move |s: &mut Schema| {
                        if let Some(x) = field_mut(s, &t1, &f1) {
                            x.args.push(arg("extra", ty.clone()));
                        }
                    });
                }
            }
        }
    }

    // ---- the implemented side: interface fields that have at least one implementation
    for xn in &ifaces {
        let implemented = user_types(s).any(|t| matches!(&t.kind, Kind::Object { interfaces, .. } | Kind::Interface { interfaces, .. } if interfaces.contains(xn)));
        if !implemented {
            continue;
        }
        for xf in s.fields_of(xn).unwrap_or(&[]) {
            let (t1, f1) = (xn.clone(), xf.name.clone());
            let nt = if xf.ty.is_non_null() { xf.ty.nullable().clone() } else { xf.ty.clone().nn() };
            ed!(if xf.ty.is_non_null() { "interface-field-nullable" } else { "interface-field-non-null" }, format!("{xn}.{}", xf.name), move |s: &mut Schema| {
                if let Some(x) = field_mut(s, &t1, &f1) {
                    x.ty = nt.clone();
                }
            });
            for (op, ty) in [("interface-arg-added-optional", Type::named("Int")), ("interface-arg-added-required", Type::named("Int").nn())] {
                let (t1, f1) = (xn.clone(), xf.name.clone());
                ed!(op, format!("{xn}.{}", xf.name), move |s: &mut Schema| {
                    if let Some(x) = field_mut(s, &t1, &f1) {
                        x.args.push(arg("extra", ty.clone()));
                    }
                });
            }
        }
    }

    // ---- §3.8 unions
    for u in &unions {
        let u1 = u.clone();
        ed!("union-empty", u.clone(), move |s: &mut Schema| {
            if let Some(m) = members_mut(s, &u1) {
                m.clear();
            }
        });
        let mut bad: Vec<(String, String)> = non_objects.iter().filter(|(k, n)| !(*k == "union" && n == u)).map(|(k, n)| (k.to_string(), n.clone())).collect();
        bad.push(("scalar".into(), "Int".into()));
        bad.push(("union".into(), u.clone()));
        bad.push(("unknown".into(), "Zzz".into()));
        for (k, n) in bad {
            let (u1, n1) = (u.clone(), n.clone());
            ed!(if k == "unknown" { "unknown-type" } else { "union-member-nonobject" }, format!("{u} | {n} ({k})"), move |s: &mut Schema| {
                if let Some(m) = members_mut(s, &u1) {
                    if !m.contains(&n1) {
                        m.push(n1.clone());
                    }
                }
            });
        }
    }

    // ---- §3.9 enums
    for e in &enums {
        let e1 = e.clone();
        ed!("empty-enum", e.clone(), move |s: &mut Schema| {
            if let Some(t) = s.types.get_mut(&e1) {
                t.kind = Kind::Enum { values: vec![] };
            }
        });
    }

    // ---- §3.10 input objects
    for i in &inputs {
        let Some(Kind::Input { fields, one_of }) = s.types.get(i).map(|t| &t.kind) else { continue };
        let i1 = i.clone();
        ed!("empty-input", i.clone(), move |s: &mut Schema| {
            if let Some(f) = input_fields_mut(s, &i1) {
                f.clear();
            }
        });
        if !*one_of {
            let i1 = i.clone();
            ed!("one-of-on", i.clone(), move |s: &mut Schema| {
                if let Some(Kind::Input { one_of, .. }) = s.types.get_mut(&i1).map(|t| &mut t.kind) {
                    *one_of = true;
                }
            });
        }
        for f in fields {
            let site = format!("{i}.{}", f.name);
            let modify = |op: &'static str, site: String, g: Box<dyn Fn(&mut Arg) + Send + Sync>, push: &mut dyn FnMut(&'static str, String, Box<dyn Fn(&mut Schema) + Send + Sync>)| {
                let (i1, f1) = (i.clone(), f.name.clone());
                push(
                    op,
                    site,
                    Box::new(move |s: &mut Schema| {
                        if let Some(x) = input_fields_mut(s, &i1).and_then(|v| v.iter_mut().find(|x| x.name == f1)) {
                            g(x);
                        }
                    }),
                );
            };
            modify("unknown-type", site.clone(), Box::new(|x| x.ty = with_base(&x.ty, "Zzz")), &mut push);
            for o in &outputs_for_input {
                let o1 = o.clone();
                modify(
                    "output-as-input",
                    format!("{site} <- {o}"),
                    Box::new(move |x| {
                        x.ty = with_base(&x.ty, &o1);
                        x.default = None;
                    }),
                    &mut push,
                );
            }
            modify("reserved-name", format!("input field {site}"), Box::new(|x| x.name = format!("__{}", x.name)), &mut push);
            if !f.ty.is_non_null() {
                modify(
                    if *one_of { "one-of-non-null" } else { "input-field-non-null" },
                    site.clone(),
                    Box::new(|x| {
                        x.ty = x.ty.clone().nn();
                    }),
                    &mut push,
                );
            }
            if *one_of && f.default.is_none() {
                modify("one-of-default", site.clone(), Box::new(|x| x.default = Some(default_value_for(&x.ty))), &mut push);
            }
        }
    }

    // ---- §3.3 reserved type names
    if let Some(o) = plain_objs.first() {
        let o1 = o.clone();
        ed!("reserved-name", format!("type {o}"), move |s: &mut Schema| rename_type(s, &o1, &format!("__{o1}")));
    }
    v
}
