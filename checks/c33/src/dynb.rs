//! D(ir): turn a reference IR into `async_graphql::dynamic` registration calls, and exercise a
//! schema that built (introspection, SDL export, small operations).

use crate::ir::{plan, small_operation, user_types, Plan};
use agv_refgql::ast::{Type, Value as RV};
use agv_refgql::schema::{Arg, FieldT, Kind, Schema};
use async_graphql::dynamic as d;
use async_graphql::{Name, Value};
use futures_util::StreamExt;

pub fn tref(t: &Type) -> d::TypeRef {
    match t {
        Type::Named(n) => d::TypeRef::named(n.clone()),
        Type::List(i) => d::TypeRef::List(Box::new(tref(i))),
        Type::NonNull(i) => d::TypeRef::NonNull(Box::new(tref(i))),
    }
}

fn conv(v: &RV) -> Value {
    match v {
        RV::Var(_) | RV::Null => Value::Null,
        RV::Int(s) => s.parse::<i64>().map(Value::from).unwrap_or(Value::Null),
        RV::Float(s) => s.parse::<f64>().map(Value::from).unwrap_or(Value::Null),
        RV::Str(s) => Value::String(s.clone()),
        RV::Bool(b) => Value::Boolean(*b),
        RV::Enum(n) => Value::Enum(Name::new(n)),
        RV::List(l) => Value::List(l.iter().map(|x| conv(&x.v)).collect()),
        RV::Object(o) => Value::Object(o.iter().map(|(k, x)| (Name::new(&k.s), conv(&x.v))).collect()),
    }
}

fn field_value<'a>(p: &Plan) -> Option<d::FieldValue<'a>> {
    Some(match p {
        Plan::Null => return None,
        Plan::Int => d::FieldValue::value(1),
        Plan::Float => d::FieldValue::value(1.5),
        Plan::Bool => d::FieldValue::value(true),
        Plan::Str => d::FieldValue::value("s"),
        Plan::Enum(n) => d::FieldValue::value(Value::Enum(Name::new(n))),
        Plan::Obj => d::FieldValue::owned_any(0u8),
        Plan::Abs(n) => d::FieldValue::owned_any(0u8).with_type(n.clone()),
        Plan::List(i) => d::FieldValue::list(field_value(i)),
    })
}

fn input_value(a: &Arg) -> d::InputValue {
    let iv = d::InputValue::new(a.name.clone(), tref(&a.ty));
    match &a.default {
        Some(v) => iv.default_value(conv(v)),
        None => iv,
    }
}

fn dup<'a>(mut names: impl Iterator<Item = &'a str>) -> Option<&'a str> {
    let mut seen = std::collections::BTreeSet::new();
    names.find(|n| !seen.insert(*n))
}

fn fields_unrepresentable(owner: &str, fields: &[FieldT]) -> Result<(), String> {
    if let Some(n) = dup(fields.iter().map(|f| f.name.as_str())) {
        return Err(format!("duplicate field {owner}.{n}: `field()` asserts uniqueness before any schema exists"));
    }
    for f in fields {
        if let Some(n) = dup(f.args.iter().map(|a| a.name.as_str())) {
            return Err(format!("duplicate argument {owner}.{}({n}:): `argument()` silently replaces the earlier one", f.name));
        }
    }
    Ok(())
}

/// The registration calls for `s`. `Err(reason)` when the dynamic API cannot express the type system.
pub fn builder(s: &Schema) -> Result<d::SchemaBuilder, String> {
    // the dynamic API models the subscription root by its own `Subscription` type
    let sub_obj: Option<&str> = s.subscription.as_deref().filter(|n| s.is_object(n) && *n != s.query && Some(*n) != s.mutation.as_deref());
    if let Some(sub) = sub_obj {
        let referenced = user_types(s).any(|t| match &t.kind {
            Kind::Object { fields, .. } | Kind::Interface { fields, .. } => fields.iter().any(|f| f.ty.base() == sub),
            Kind::Union { members } => members.iter().any(|m| m == sub),
            _ => false,
        });
        if referenced {
            return Err("the subscription root object is also used as a field type / union member (dynamic::Subscription is not an output type)".into());
        }
        if let Some(Kind::Object { interfaces, .. }) = s.types.get(sub).map(|t| &t.kind) {
            if !interfaces.is_empty() {
                return Err("the subscription root object implements interfaces (dynamic::Subscription cannot)".into());
            }
        }
    }
    let mut b = d::Schema::build(&s.query, s.mutation.as_deref(), s.subscription.as_deref());
    for t in user_types(s) {
        match &t.kind {
            Kind::Scalar => b = b.register(d::Scalar::new(t.name.clone())),
            Kind::Object { interfaces, fields } if Some(t.name.as_str()) == sub_obj => {
                let _ = interfaces;
                fields_unrepresentable(&t.name, fields)?;
                let mut o = d::Subscription::new(t.name.clone());
                for f in fields {
                    let p = plan(s, &f.ty);
                    let mut df = d::SubscriptionField::new(f.name.clone(), tref(&f.ty), move |_| {
                        let p = p.clone();
                        d::SubscriptionFieldFuture::new(async move { Ok(futures_util::stream::iter(field_value(&p).map(Ok::<_, async_graphql::Error>))) })
                    });
                    for a in &f.args {
                        df = df.argument(input_value(a));
                    }
                    o = o.field(df);
                }
                b = b.register(o);
            }
            Kind::Object { interfaces, fields } => {
                fields_unrepresentable(&t.name, fields)?;
                if let Some(n) = dup(interfaces.iter().map(|i| i.as_str())) {
                    return Err(format!("{} implements {n} twice: `implement()` asserts uniqueness", t.name));
                }
                let mut o = d::Object::new(t.name.clone());
                for i in interfaces {
                    o = o.implement(i.clone());
                }
                for f in fields {
                    let p = plan(s, &f.ty);
                    let mut df = d::Field::new(f.name.clone(), tref(&f.ty), move |_| d::FieldFuture::Value(field_value(&p)));
                    for a in &f.args {
                        df = df.argument(input_value(a));
                    }
                    o = o.field(df);
                }
                b = b.register(o);
            }
            Kind::Interface { interfaces, fields } => {
                fields_unrepresentable(&t.name, fields)?;
                if let Some(n) = dup(interfaces.iter().map(|i| i.as_str())) {
                    return Err(format!("{} implements {n} twice: `implement()` asserts uniqueness", t.name));
                }
                let mut o = d::Interface::new(t.name.clone());
                for i in interfaces {
                    o = o.implement(i.clone());
                }
                for f in fields {
                    let mut df = d::InterfaceField::new(f.name.clone(), tref(&f.ty));
                    for a in &f.args {
                        df = df.argument(input_value(a));
                    }
                    o = o.field(df);
                }
                b = b.register(o);
            }
            Kind::Union { members } => {
                if let Some(n) = dup(members.iter().map(|i| i.as_str())) {
                    return Err(format!("union {} lists {n} twice: `possible_type()` keeps a set", t.name));
                }
                let mut u = d::Union::new(t.name.clone());
                for m in members {
                    u = u.possible_type(m.clone());
                }
                b = b.register(u);
            }
            Kind::Enum { values } => {
                if let Some(n) = dup(values.iter().map(|v| v.0.as_str())) {
                    return Err(format!("enum {} lists {n} twice: `item()` keeps a map", t.name));
                }
                let mut e = d::Enum::new(t.name.clone());
                for v in values {
                    e = e.item(v.0.clone());
                }
                b = b.register(e);
            }
            Kind::Input { fields, one_of } => {
                if let Some(n) = dup(fields.iter().map(|f| f.name.as_str())) {
                    return Err(format!("duplicate input field {}.{n}: `field()` asserts uniqueness", t.name));
                }
                let mut o = d::InputObject::new(t.name.clone());
                if *one_of {
                    o = o.oneof();
                }
                for f in fields {
                    o = o.field(input_value(f));
                }
                b = b.register(o);
            }
        }
    }
    Ok(b)
}

pub const INTROSPECTION_QUERY: &str = r#"
query IntrospectionQuery {
  __schema {
    queryType { name }
    mutationType { name }
    subscriptionType { name }
    types { ...FullType }
    directives { name description locations args { ...InputValue } }
  }
}
fragment FullType on __Type {
  kind name description
  fields(includeDeprecated: true) { name description args { ...InputValue } type { ...TypeRef } isDeprecated deprecationReason }
  inputFields { ...InputValue }
  interfaces { ...TypeRef }
  enumValues(includeDeprecated: true) { name description isDeprecated deprecationReason }
  possibleTypes { ...TypeRef }
}
fragment InputValue on __InputValue { name description type { ...TypeRef } defaultValue }
fragment TypeRef on __Type {
  kind name
  ofType { kind name ofType { kind name ofType { kind name ofType { kind name ofType { kind name ofType { kind name ofType { kind name } } } } } } }
}
"#;

/// One problem found while exercising a built schema.
#[derive(Debug, Clone)]
pub struct Problem {
    pub stage: &'static str,
    /// `panic`, `parks`, `errors`, `unparsable`
    pub kind: &'static str,
    pub detail: String,
}

#[derive(Debug, Default, Clone)]
pub struct Exercise {
    pub problems: Vec<Problem>,
    pub operations_run: u32,
    pub operations_clean: u32,
    pub sdl: Option<String>,
    pub queries: Vec<String>,
}

fn run_op(schema: &d::Schema, stage: &'static str, q: &str, ex: &mut Exercise) {
    ex.operations_run += 1;
    match agv_engine::catch_quiet(|| agv_engine::sched::drive(schema.execute(async_graphql::Request::new(q)))) {
        Err(p) => ex.problems.push(Problem { stage, kind: "panic", detail: format!("{q} → panic: {p}") }),
        Ok(None) => ex.problems.push(Problem { stage, kind: "parks", detail: format!("{q} → the execute future parked with nothing to wait for") }),
        Ok(Some(resp)) => {
            if resp.errors.is_empty() && resp.data != Value::Null {
                ex.operations_clean += 1;
            } else {
                let msgs: Vec<String> = resp.errors.iter().take(3).map(|e| e.message.clone()).collect();
                ex.problems.push(Problem { stage, kind: "errors", detail: format!("{q} → data {} errors {:?}", resp.data, msgs) });
            }
        }
    }
}

/// Introspect, export and query a schema that built. Never panics.
pub fn exercise(ir: &Schema, schema: &d::Schema) -> Exercise {
    let mut ex = Exercise::default();
    run_op(schema, "introspection", INTROSPECTION_QUERY, &mut ex);
    match agv_engine::catch_quiet(|| schema.sdl()) {
        Err(p) => ex.problems.push(Problem { stage: "sdl", kind: "panic", detail: format!("sdl() panicked: {p}") }),
        Ok(text) => {
            if let Err(e) = agv_refgql::parse::parse_ts(&text) {
                ex.problems.push(Problem { stage: "sdl", kind: "unparsable", detail: format!("exported SDL does not parse at {}:{}: {} — {:?}", e.pos.line, e.pos.col, e.msg, text) });
            }
            ex.sdl = Some(text);
        }
    }
    if let Some(q) = small_operation(ir, "query", &ir.query) {
        run_op(schema, "query", &q, &mut ex);
        ex.queries.push(q);
    }
    if let Some(m) = ir.mutation.as_deref().filter(|m| *m != ir.query) {
        if let Some(q) = small_operation(ir, "mutation", m) {
            run_op(schema, "mutation", &q, &mut ex);
            ex.queries.push(q);
        }
    }
    if let Some(sub) = ir.subscription.as_deref() {
        if let Some(q) = small_operation(ir, "subscription", sub) {
            ex.operations_run += 1;
            let r = agv_engine::catch_quiet(|| {
                let mut st = schema.execute_stream(async_graphql::Request::new(q.as_str()));
                agv_engine::sched::drive(st.next())
            });
            match r {
                Err(p) => ex.problems.push(Problem { stage: "subscription", kind: "panic", detail: format!("{q} → panic: {p}") }),
                Ok(None) => ex.problems.push(Problem { stage: "subscription", kind: "parks", detail: format!("{q} → the stream parked with nothing to wait for") }),
                Ok(Some(None)) => ex.problems.push(Problem { stage: "subscription", kind: "errors", detail: format!("{q} → the stream ended without an event") }),
                Ok(Some(Some(resp))) => {
                    if resp.errors.is_empty() && resp.data != Value::Null {
                        ex.operations_clean += 1;
                    } else {
                        let msgs: Vec<String> = resp.errors.iter().take(3).map(|e| e.message.clone()).collect();
                        ex.problems.push(Problem { stage: "subscription", kind: "errors", detail: format!("{q} → data {} errors {:?}", resp.data, msgs) });
                    }
                }
            }
            ex.queries.push(q);
        }
    }
    ex
}
