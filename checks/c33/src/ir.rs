//! Helpers on the reference IR: SDL printer (every case is stored and replayed as SDL),
//! kind queries, literal and query generation.

use agv_refgql::ast::{Type, Value as RV};
use agv_refgql::schema::{Arg, FieldT, Kind, Schema, TypeT, BUILTIN_SCALARS};

pub fn is_builtin(t: &TypeT) -> bool {
    BUILTIN_SCALARS.contains(&t.name.as_str()) && t.kind == Kind::Scalar
}

pub fn user_types(s: &Schema) -> impl Iterator<Item = &TypeT> {
    s.types.values().filter(|t| !is_builtin(t))
}

pub fn names_of(s: &Schema, pred: impl Fn(&Kind) -> bool) -> Vec<String> {
    user_types(s).filter(|t| pred(&t.kind)).map(|t| t.name.clone()).collect()
}

/// Same wrappers, other named type.
pub fn with_base(t: &Type, base: &str) -> Type {
    match t {
        Type::Named(_) => Type::named(base),
        Type::List(i) => Type::List(Box::new(with_base(i, base))),
        Type::NonNull(i) => Type::NonNull(Box::new(with_base(i, base))),
    }
}

fn args_sdl(args: &[Arg]) -> String {
    if args.is_empty() {
        return String::new();
    }
    let parts: Vec<String> = args
        .iter()
        .map(|a| match &a.default {
            Some(d) => format!("{}: {} = {}", a.name, a.ty, agv_refgql::print::value(d)),
            None => format!("{}: {}", a.name, a.ty),
        })
        .collect();
    format!("({})", parts.join(", "))
}

fn fields_sdl(fields: &[FieldT]) -> String {
    if fields.is_empty() {
        return String::new();
    }
    let parts: Vec<String> = fields.iter().map(|f| format!("{}{}: {}", f.name, args_sdl(&f.args), f.ty)).collect();
    format!(" {{ {} }}", parts.join(" "))
}

fn implements_sdl(i: &[String]) -> String {
    if i.is_empty() {
        String::new()
    } else {
        format!(" implements {}", i.join(" & "))
    }
}

/// Canonical one-line-per-definition SDL of an IR; parses back (tolerantly) to the same IR.
pub fn sdl_of(s: &Schema) -> String {
    let mut out = format!("schema {{ query: {}", s.query);
    if let Some(m) = &s.mutation {
        out += &format!(" mutation: {m}");
    }
    if let Some(m) = &s.subscription {
        out += &format!(" subscription: {m}");
    }
    out += " }\n";
    for t in user_types(s) {
        match &t.kind {
            Kind::Scalar => out += &format!("scalar {}\n", t.name),
            Kind::Object { interfaces, fields } => out += &format!("type {}{}{}\n", t.name, implements_sdl(interfaces), fields_sdl(fields)),
            Kind::Interface { interfaces, fields } => out += &format!("interface {}{}{}\n", t.name, implements_sdl(interfaces), fields_sdl(fields)),
            Kind::Union { members } => {
                out += &format!("union {}", t.name);
                if !members.is_empty() {
                    out += &format!(" = {}", members.join(" | "));
                }
                out += "\n";
            }
            Kind::Enum { values } => {
                out += &format!("enum {}", t.name);
                if !values.is_empty() {
                    out += &format!(" {{ {} }}", values.iter().map(|v| v.0.clone()).collect::<Vec<_>>().join(" "));
                }
                out += "\n";
            }
            Kind::Input { fields, one_of } => {
                out += &format!("input {}{}", t.name, if *one_of { " @oneOf" } else { "" });
                if !fields.is_empty() {
                    let parts: Vec<String> = fields
                        .iter()
                        .map(|a| match &a.default {
                            Some(d) => format!("{}: {} = {}", a.name, a.ty, agv_refgql::print::value(d)),
                            None => format!("{}: {}", a.name, a.ty),
                        })
                        .collect();
                    out += &format!(" {{ {} }}", parts.join(" "));
                }
                out += "\n";
            }
        }
    }
    out
}

pub fn from_sdl_tolerant(sdl: &str) -> Result<Schema, String> {
    let doc = agv_refgql::parse::parse_ts(sdl).map_err(|e| format!("SDL parse error at {}:{}: {}", e.pos.line, e.pos.col, e.msg))?;
    Ok(Schema::from_doc_tolerant(&doc))
}

pub fn field(name: &str, ty: Type) -> FieldT {
    FieldT { name: name.to_string(), args: vec![], ty, desc: None, deprecated: None }
}
pub fn arg(name: &str, ty: Type) -> Arg {
    Arg { name: name.to_string(), ty, default: None, desc: None, deprecated: None }
}
pub fn put(s: &mut Schema, name: &str, kind: Kind) {
    s.types.insert(name.to_string(), TypeT { name: name.to_string(), desc: None, kind });
}

// ----------------------------------------------------------------- small queries

/// A literal of the given input type (required fields only), or None if none can be written.
pub fn literal(s: &Schema, t: &Type, depth: usize) -> Option<String> {
    match t {
        Type::NonNull(i) => literal(s, i, depth),
        Type::List(_) => Some("[]".into()),
        Type::Named(n) => match s.types.get(n).map(|t| &t.kind)? {
            Kind::Scalar => Some(
                match n.as_str() {
                    "Int" => "1",
                    "Float" => "1.5",
                    "Boolean" => "true",
                    _ => "\"s\"",
                }
                .into(),
            ),
            Kind::Enum { values } => values.first().map(|v| v.0.clone()),
            Kind::Input { fields, one_of } => {
                if depth == 0 {
                    return None;
                }
                if *one_of {
                    let f = fields.first()?;
                    return Some(format!("{{{}: {}}}", f.name, literal(s, &f.ty, depth - 1)?));
                }
                let mut parts = Vec::new();
                for f in fields.iter().filter(|f| f.ty.is_non_null() && f.default.is_none()) {
                    parts.push(format!("{}: {}", f.name, literal(s, &f.ty, depth - 1)?));
                }
                Some(format!("{{{}}}", parts.join(", ")))
            }
            _ => None,
        },
    }
}

/// What a constant resolver of this type returns.
#[derive(Clone, Debug, PartialEq)]
pub enum Plan {
    Null,
    Int,
    Float,
    Bool,
    Str,
    Enum(String),
    Obj,
    Abs(String),
    List(Box<Plan>),
}

pub fn plan(s: &Schema, t: &Type) -> Plan {
    match t {
        Type::NonNull(i) => plan(s, i),
        Type::List(i) => Plan::List(Box::new(plan(s, i))),
        Type::Named(n) => match s.types.get(n).map(|t| &t.kind) {
            Some(Kind::Scalar) => match n.as_str() {
                "Int" => Plan::Int,
                "Float" => Plan::Float,
                "Boolean" => Plan::Bool,
                _ => Plan::Str,
            },
            Some(Kind::Enum { values }) => values.first().map(|v| Plan::Enum(v.0.clone())).unwrap_or(Plan::Null),
            Some(Kind::Object { .. }) => Plan::Obj,
            Some(Kind::Interface { .. } | Kind::Union { .. }) => s.possible_types(n).into_iter().find(|p| s.is_object(p)).map(Plan::Abs).unwrap_or(Plan::Null),
            _ => Plan::Null,
        },
    }
}

/// false when the constant resolver would have to answer null at a non-null position.
fn null_safe(t: &Type, p: &Plan) -> bool {
    match (t, p) {
        (Type::NonNull(_), Plan::Null) => false,
        (Type::NonNull(i), p) => null_safe(i, p),
        (Type::List(i), Plan::List(p)) => **p == Plan::Null || null_safe(i, p),
        _ => true,
    }
}

fn field_text(s: &Schema, owner: &str, f: &FieldT, depth: usize, alias: bool) -> Option<String> {
    if f.name.starts_with("__") || !null_safe(&f.ty, &plan(s, &f.ty)) {
        return None;
    }
    let mut args = Vec::new();
    for a in f.args.iter().filter(|a| a.ty.is_non_null() && a.default.is_none()) {
        args.push(format!("{}: {}", a.name, literal(s, &a.ty, 3)?));
    }
    let head = format!(
        "{}{}{}",
        if alias { format!("{}_{}: ", owner, f.name) } else { String::new() },
        f.name,
        if args.is_empty() { String::new() } else { format!("({})", args.join(", ")) }
    );
    let base = f.ty.base();
    match s.types.get(base).map(|t| &t.kind)? {
        Kind::Scalar | Kind::Enum { .. } => Some(head),
        Kind::Input { .. } => None,
        _ if depth == 0 => None,
        Kind::Object { fields, .. } => Some(format!("{head} {{ __typename {} }}", fields_text(s, base, fields, depth - 1, false))),
        Kind::Interface { fields, .. } => {
            let mut sel = format!("__typename {}", fields_text(s, base, fields, depth - 1, false));
            if let Some(p) = s.possible_types(base).into_iter().find(|p| s.is_object(p)) {
                if let Some(pf) = s.fields_of(&p) {
                    sel += &format!(" ... on {p} {{ __typename {} }}", fields_text(s, &p, pf, depth - 1, true));
                }
            }
            Some(format!("{head} {{ {sel} }}"))
        }
        Kind::Union { members } => {
            let mut sel = "__typename".to_string();
            for m in members.iter().filter(|m| s.is_object(m)) {
                if let Some(mf) = s.fields_of(m) {
                    sel += &format!(" ... on {m} {{ __typename {} }}", fields_text(s, m, mf, depth - 1, true));
                }
            }
            Some(format!("{head} {{ {sel} }}"))
        }
    }
}

fn fields_text(s: &Schema, owner: &str, fields: &[FieldT], depth: usize, alias: bool) -> String {
    fields.iter().filter_map(|f| field_text(s, owner, f, depth, alias)).collect::<Vec<_>>().join(" ")
}

/// One small operation over every field of the given root (two levels below it), resolvable by the
/// constant resolvers without any error.
pub fn small_operation(s: &Schema, word: &str, root: &str) -> Option<String> {
    let fields = match &s.types.get(root)?.kind {
        Kind::Object { fields, .. } => fields,
        _ => return None,
    };
    let body = fields_text(s, root, fields, 2, false);
    if word == "subscription" {
        // a subscription selects exactly one root field
        let one = fields.iter().filter(|f| plan(s, &f.ty) != Plan::Null).find_map(|f| field_text(s, root, f, 2, false))?;
        return Some(format!("subscription {{ {one} }}"));
    }
    Some(if word == "query" { format!("{{ __typename {body} }}") } else { format!("{word} {{ __typename {body} }}") })
}

pub fn default_value_for(t: &Type) -> RV {
    match t.base() {
        "Int" if !matches!(t.nullable(), Type::List(_)) => RV::Int("1".into()),
        _ => RV::Null,
    }
}
