//! C22 — look-ahead and selection views list every sub-field that will be resolved.
//!
//! Every resolver of S1 records what `ctx.field().selection_set()` and
//! `ctx.look_ahead()` show it; after execution the resolver log tells which
//! direct sub-fields were actually resolved beneath it. Differential oracle on
//! the same execution: resolved ⊆ listed (name, and arguments with variables
//! resolved); listed ⊆ what the reference's CollectFields yields for SOME possible
//! runtime type (so nothing pruned by @skip/@include is listed).

use agv_common::gen::{gen_doc, GenCfg};
use agv_common::s1::{self, Wd};
use agv_engine::explore::{explore, Chooser, Class, ExploreCfg};
use agv_engine::record::{Cx, Violation};
use agv_refgql::ast::{ExecDoc, Field, OpKind, Selection};
use agv_refgql::coerce::{coerce_variables, VarValues};
use agv_refgql::exec::{collect_fields, Ans};
use agv_refgql::schema::Schema;
use serde_json::{json, Map, Value as J};
use std::collections::{BTreeMap, BTreeSet};
use std::sync::atomic::{AtomicU64, Ordering};
use std::sync::Arc;

const FIELDS: &[(&str, &[&str])] = &[("Query", &["a", "o", "i", "u", "l", "lu"]), ("A", &["a", "n", "o", "pa"]), ("B", &["a", "pb"]), ("C", &["a", "pc"]), ("I", &["a", "n"]), ("U", &[])];
const CONDS: &[&str] = &["A", "B", "I", "U"];

/// fixed documents exercising arguments (literals, variables, defaults) below an object field
const ARG_DOCS: &[(&str, &str)] = &[
    ("{ o { arg(x: 3) } }", "{}"),
    ("{ o { arg } }", "{}"),
    ("query($v: Int) { o { arg(x: $v) } }", "{\"v\": 9}"),
    ("query($v: Int = 4) { o { arg(x: $v) } }", "{}"),
    ("query($v: Int = 4) { o { k: arg(x: $v) ... on A { arg(x: 7) @skip(if: true) } } }", "{}"),
    ("query($s: Boolean!) { o { a @skip(if: $s) n @include(if: $s) ...F } } fragment F on A { pa @include(if: $s) }", "{\"s\": true}"),
    ("query($s: Boolean = true) { o { a @skip(if: $s) n } }", "{}"),
];

/// the field nodes (merged) that produce the value at response path `path`, with their parent types
fn nodes_at<'d>(s: &Schema, doc: &'d ExecDoc, vars: &VarValues, path: &str) -> Vec<(&'d Field, String)> {
    let op = doc.ops().next().unwrap();
    let root = s.root(op.kind).unwrap().to_string();
    let mut cur: Vec<(Vec<&'d [Selection]>, Vec<String>)> = vec![(vec![op.sel.as_slice()], vec![root])];
    let mut result: Vec<(&Field, String)> = Vec::new();
    let segs: Vec<&str> = path.split('.').filter(|x| x.parse::<usize>().is_err()).collect();
    for (depth, key) in segs.iter().enumerate() {
        let mut found: Vec<(&Field, String)> = Vec::new();
        for (sels, types) in &cur {
            for t in types {
                for sel in sels {
                    let mut out = Vec::new();
                    collect_fields(s, doc, vars, t, sel, &mut Vec::new(), &mut out);
                    for (k, f) in out {
                        if k == *key && !found.iter().any(|(g, pt)| std::ptr::eq(*g, f) && pt == t) {
                            found.push((f, t.clone()));
                        }
                    }
                }
            }
        }
        if depth + 1 == segs.len() {
            result = found;
            break;
        }
        let mut next = Vec::new();
        for (f, pt) in &found {
            if let Some(fd) = s.field(pt, &f.name.s) {
                next.push((vec![f.sel.as_slice()], s.possible_types(fd.ty.base())));
            }
        }
        cur = next;
    }
    result
}

/// every field name reachable in `sel` when fragments are entered whatever their type condition,
/// leaving out what @skip/@include prune (a listed field that is not resolved must be explained by a
/// type condition, never by a directive)
fn reachable<'d>(doc: &'d ExecDoc, vars: &VarValues, sel: &'d [Selection], depth: usize, out: &mut Vec<&'d Field>) {
    if depth > 8 {
        return;
    }
    let mut tmp = Vec::new();
    for x in sel {
        let one = std::slice::from_ref(x);
        match x {
            Selection::Field(_) => collect_fields(&Schema::default(), doc, vars, "", one, &mut Vec::new(), &mut tmp),
            Selection::Inline(i) => {
                // directive test only: run collect on a copy without the condition
                let probe = Selection::Inline(agv_refgql::ast::Inline { cond: None, directives: i.directives.clone(), sel: vec![], pos: i.pos });
                let mut t2: Vec<(String, &Field)> = Vec::new();
                let pruned = {
                    // an untyped inline fragment with no selections collects nothing either way; test the directives directly
                    let mut keep = Vec::new();
                    let f = Field { alias: None, name: agv_refgql::ast::PName::new("x"), args: vec![], directives: i.directives.clone(), sel: vec![], pos: i.pos };
                    let fs = [Selection::Field(f)];
                    collect_fields(&Schema::default(), doc, vars, "", &fs, &mut Vec::new(), &mut keep);
                    let _ = (&probe, &mut t2);
                    keep.is_empty()
                };
                if !pruned {
                    reachable(doc, vars, &i.sel, depth + 1, out);
                }
            }
            Selection::Spread(sp) => {
                let f = Field { alias: None, name: agv_refgql::ast::PName::new("x"), args: vec![], directives: sp.directives.clone(), sel: vec![], pos: sp.pos };
                let fs = [Selection::Field(f)];
                let mut keep = Vec::new();
                collect_fields(&Schema::default(), doc, vars, "", &fs, &mut Vec::new(), &mut keep);
                if !keep.is_empty() {
                    if let Some(fr) = doc.frag(&sp.name.s) {
                        reachable(doc, vars, &fr.sel, depth + 1, out);
                    }
                }
            }
        }
    }
    for (_, f) in tmp {
        out.push(f);
    }
}

struct Cnt {
    views: AtomicU64,
    with_children: AtomicU64,
    agree: AtomicU64,
}

fn check_case(cx: &Cx, refs: &Schema, schema: &s1::S1, text: &str, vars: &Map<String, J>, table: BTreeMap<String, Ans>, cnt: &Cnt) {
    let doc = agv_refgql::parse::parse_exec(text).unwrap();
    let op = doc.ops().next().unwrap();
    let Ok(cv) = coerce_variables(refs, &op.vars, vars) else { return };
    let mut wdv = Wd::new(table.clone());
    wdv.record_views = true;
    let wd = Arc::new(wdv);
    cx.eval();
    let case = json!({"query": text, "variables": J::Object(vars.clone()), "world": agv_common::glue::table_json(&table)});
    let resp = match agv_engine::catch_quiet(|| agv_common::run_s1(schema, text, None, vars, wd.clone())) {
        Ok(Ok(r)) => r,
        Ok(Err(e)) => return cx.machinery_error(e),
        Err(p) => return cx.violation(Violation::new("panic", p, case)),
    };
    let _ = resp;
    let names = wd.names.lock().unwrap().clone();
    let views = wd.views.lock().unwrap().clone();
    for v in &views {
        cnt.views.fetch_add(1, Ordering::Relaxed);
        // direct children resolved: paths P.key or P.i.key (index segments skipped)
        let strip = |p: &str| -> String { p.split('.').filter(|x| x.parse::<usize>().is_err()).collect::<Vec<_>>().join(".") };
        let me = strip(&v.path);
        let depth = me.split('.').count();
        let resolved: BTreeSet<String> = names.iter().filter(|(p, _)| { let q = strip(p); q.starts_with(&format!("{me}.")) && q.split('.').count() == depth + 1 && p.starts_with(&v.path) }).map(|(_, n)| n.clone()).collect();
        if resolved.is_empty() && v.selection.is_empty() {
            continue;
        }
        cnt.with_children.fetch_add(1, Ordering::Relaxed);
        let listed: BTreeSet<String> = v.selection.iter().map(|(n, _, _)| n.clone()).collect();
        let la: BTreeSet<String> = v.look_ahead.iter().cloned().collect();
        let mut ok = true;
        let nodes = nodes_at(refs, &doc, &cv, &v.path);
        let missing: Vec<&String> = resolved.iter().filter(|r| !listed.contains(*r) || !la.contains(*r)).collect();
        if !missing.is_empty() && nodes.len() > 1 {
            // the position is produced by several field nodes sharing one response key; the library runs the
            // resolver once per node and shows each run only its own node (root cause: the C04 finding)
            cx.violation(Violation::new("view-covers-one-node-of-a-repeated-key", format!("response key at {} is selected by {} field nodes; the resolver run for one node sees selection_set() = {:?} while {:?} is resolved beneath the position", v.path, nodes.len(), listed, missing), case.clone()).key("view", "both"));
            continue;
        }
        for r in &resolved {
            if !listed.contains(r) {
                ok = false;
                cx.violation(Violation::new("resolved-field-not-in-selection-set", format!("resolver at {} saw selection_set() = {:?} but sub-field {r} was resolved beneath it", v.path, listed), case.clone()).key("view", "selection_set"));
            }
            if !la.contains(r) {
                ok = false;
                cx.violation(Violation::new("resolved-field-not-in-look-ahead", format!("resolver at {}: look_ahead().field({r:?}).exists() is false but {r} was resolved beneath it (look-ahead says {:?})", v.path, la), case.clone()).key("view", "look_ahead"));
            }
        }
        // allowed = everything reachable below the field node(s) whatever the type conditions, minus what directives prune
        let mut allowed: BTreeSet<String> = BTreeSet::new();
        let mut allowed_args: BTreeMap<String, BTreeSet<String>> = BTreeMap::new();
        for (f, pt) in &nodes {
            let Some(fd) = refs.field(pt, &f.name.s) else { continue };
            let mut fs = Vec::new();
            reachable(&doc, &cv, &f.sel, 0, &mut fs);
            for c in fs {
                allowed.insert(c.name.s.clone());
                // the child's definition: look it up on every composite type (names are unique enough in S1)
                let cfd = std::iter::once(fd.ty.base().to_string()).chain(refs.possible_types(fd.ty.base())).chain(["A", "B", "C", "I", "J"].iter().map(|x| x.to_string())).find_map(|t| refs.field(&t, &c.name.s).cloned());
                if let Some(cfd) = cfd {
                    let mut pairs = Vec::new();
                    for (k, val) in &c.args {
                        let ty = cfd.args.iter().find(|a| a.name == k.s).map(|a| a.ty.clone());
                        let j = match ty.and_then(|t| agv_refgql::coerce::coerce_literal(refs, &t, &val.v, &cv).ok().flatten()) {
                            Some(x) => x.to_json(),
                            None => J::Null,
                        };
                        pairs.push((k.s.clone(), j));
                    }
                    allowed_args.entry(c.name.s.clone()).or_default().insert(serde_json::to_string(&pairs).unwrap());
                }
            }
        }
        for (n, _, args) in &v.selection {
            if n == "__typename" {
                continue;
            }
            if !allowed.contains(n) {
                ok = false;
                cx.violation(Violation::new("listed-field-never-resolvable", format!("resolver at {}: selection_set() lists {n}, which CollectFields yields for no possible runtime type (pruned by @skip/@include?) — allowed {:?}", v.path, allowed), case.clone()).key("view", "selection_set"));
            } else if let Some(aa) = allowed_args.get(n) {
                if !aa.contains(args) {
                    ok = false;
                    cx.violation(Violation::new("listed-arguments-differ", format!("resolver at {}: selection_set() gives {n} the arguments {args}, the document resolves them to one of {:?}", v.path, aa), case.clone()).key("view", "selection_set"));
                }
            }
        }
        for n in &la {
            if !allowed.contains(n) {
                ok = false;
                cx.violation(Violation::new("listed-field-never-resolvable", format!("resolver at {}: look_ahead().field({n:?}).exists() but CollectFields yields it for no possible runtime type — allowed {:?}", v.path, allowed), case.clone()).key("view", "look_ahead"));
            }
        }
        if ok {
            cnt.agree.fetch_add(1, Ordering::Relaxed);
        }
    }
    let h = agv_engine::h64(&(text, serde_json::to_string(vars).unwrap(), format!("{table:?}")));
    if !views.is_empty() {
        cx.nontrivial(h);
    }
    cx.sample_with(h, || json!({"query": text, "variables": J::Object(vars.clone()), "views": views.iter().map(|v| json!({"path": v.path, "selection_set": v.selection, "look_ahead": v.look_ahead})).collect::<Vec<_>>()}));
}

fn run(cx: &Cx) {
    let refs = Schema::from_sdl(s1::SDL).unwrap();
    let schema = s1::schema();
    if let Err(e) = agv_common::glue::sdl_equiv(s1::SDL, &schema.sdl()) {
        return cx.machinery_error(format!("S1's reference SDL and Schema::sdl() disagree: {e}"));
    }
    let cnt = Cnt { views: AtomicU64::new(0), with_children: AtomicU64::new(0), agree: AtomicU64::new(0) };
    let (nodes, deco) = if cx.quick() { (4, 1) } else { (4, 2) };
    let gcfg = GenCfg { schema: &refs, fields: FIELDS, conds: CONDS, max_nodes: nodes, max_depth: 3, named_fragments: 2, deco: Some(Class::Dev(0)), typename: true, op: OpKind::Query, root_fragments: true };
    let st = explore(
        &ExploreCfg { bounds: [deco, 1, 0, 0], ..Default::default() },
        &|ch: &mut Chooser| {
            let gd = gen_doc(&gcfg, ch)?;
            let text = agv_refgql::print::exec_doc(&gd.doc);
            let doc = agv_refgql::parse::parse_exec(&text).ok()?;
            if !agv_refgql::validate::validate(&refs, &doc).is_empty() {
                return None;
            }
            // runtime type behind abstract fields: one deviation
            let mut table = BTreeMap::new();
            let k = ch.dev(1, "abstract", 5);
            match k {
                1 => {
                    table.insert("i".to_string(), Ans::Obj("B".into()));
                }
                2 => {
                    table.insert("u".to_string(), Ans::Obj("B".into()));
                }
                3 => {
                    table.insert("u".to_string(), Ans::Obj("C".into()));
                }
                4 => {
                    table.insert("lu".to_string(), Ans::List(2));
                    table.insert("lu.1".to_string(), Ans::Obj("C".into()));
                }
                _ => {}
            }
            Some((text, gd.variables, table))
        },
        &|_, o| {
            if let Some((text, vars, table)) = o {
                check_case(cx, &refs, &schema, &text, &vars, table, &cnt);
            }
        },
    );
    if let Some(d) = st.diverged {
        cx.machinery_error(d);
    }
    for (q, v) in ARG_DOCS {
        let vars: Map<String, J> = serde_json::from_str(v).unwrap();
        check_case(cx, &refs, &schema, q, &vars, BTreeMap::new(), &cnt);
    }
    if cnt.agree.load(Ordering::Relaxed) == 0 {
        cx.machinery_error("no view agreed with what was resolved (vacuous or systematically wrong)");
    }
    cx.rule(&format!("case = (valid document, variables, runtime types). Every document ≤ {nodes} nodes over a subset of S1 (fragments inline/named/nested, ≤ {deco} alias/@skip/@include decorations incl. variables and variable defaults) × one choice of runtime type behind an abstract field, plus {} fixed documents with arguments (literal, variable, variable default, argument default). Every resolver's recorded views are compared with the sub-fields resolved beneath it in the same execution and with the reference's CollectFields over all possible runtime types. Non-trivial = cases in which some resolver recorded a view.", ARG_DOCS.len()));
    cx.exhaustive(!st.capped);
    cx.extra("views_recorded", json!(cnt.views.load(Ordering::Relaxed)));
    cx.extra("views_with_subfields", json!(cnt.with_children.load(Ordering::Relaxed)));
    cx.extra("views_agreeing", json!(cnt.agree.load(Ordering::Relaxed)));
    cx.assume("SelectionField::arguments() is compared with the arguments as written with variables resolved; whether it should also apply argument defaults is not judged");
}

fn replay(case: &J) -> String {
    let refs = Schema::from_sdl(s1::SDL).unwrap();
    let schema = s1::schema();
    let cx = Cx::scratch("C22", "exploration");
    let cnt = Cnt { views: AtomicU64::new(0), with_children: AtomicU64::new(0), agree: AtomicU64::new(0) };
    let vars = case["variables"].as_object().cloned().unwrap_or_default();
    let table = agv_common::glue::table_from_json(&case["world"]);
    check_case(&cx, &refs, &schema, case["query"].as_str().unwrap_or(""), &vars, table, &cnt);
    cx.nontrivial_count(2);
    cx.finish_scratch()
}

fn main() {
    agv_engine::driver::main("C22", "exploration", run, Some(replay))
}
