//! C26 — multipart/mixed subscription bodies are well framed.
//!
//! Seam: `async_graphql::http::create_multipart_mixed_stream(input, timer, interval)`.
//!
//! Part A (engines `explore` + `sched`): the input stream awaits a gate before each
//! response ("resp#i") and before end of input ("end"); the `Timer` awaits a gate per
//! armed delay ("tick#j", budget-capped). `sched` (Policy::Eager) opens one gate at a
//! time and polls to quiescence, `explore` enumerates every order, the number of
//! responses and their contents. At most one source is ready per step, so the
//! pseudo-random branch order of `futures::select!` cannot influence the output and
//! every execution is reproducible (each one is run twice and compared).
//!
//! Part B (complete sweep, hand-driven): every script of *burst* steps in which a
//! step releases several responses and/or the armed timer at once before the output
//! is polled again (slow consumer). Here `select!` does pick pseudo-randomly, which
//! the harness cannot own; the oracle for these steps accepts every order.
//!
//! Oracle: a strict RFC 2046 reader written here, cross-checked with `multer`.

use agv_engine::explore::{explore, Chooser, ExploreCfg};
use agv_engine::record::{Cx, Violation};
use agv_engine::sched::{self, End, FlagWaker, Handle, RunCfg};
use async_graphql::http::create_multipart_mixed_stream;
use async_graphql::runtime::Timer;
use async_graphql::{PathSegment, Pos, Response, ServerError, Value as GqlValue};
use bytes::Bytes;
use futures_util::future::BoxFuture;
use futures_util::{FutureExt, Stream, StreamExt};
use serde_json::{json, Value};
use std::collections::HashSet;
use std::future::Future;
use std::pin::Pin;
use std::sync::atomic::{AtomicBool, AtomicU64, AtomicUsize, Ordering};
use std::sync::{Arc, Mutex};
use std::task::{Context, Poll, Waker};
use std::time::Duration;

const BOUNDARY: &str = "graphql";
const INTERVAL: Duration = Duration::from_secs(30);

// ---------------------------------------------------------------------------------------------
// response contents
// ---------------------------------------------------------------------------------------------

/// A string that would end the part and forge a part plus the closing delimiter if it
/// ever reached the wire unescaped.
const EVIL: &str = "x\r\n--graphql\r\nContent-Type: application/json\r\n\r\n{}\r\n--graphql--\r\n--graphql";

const KIND_NAMES: [&str; 6] = ["data", "errors", "unicode", "boundary-string", "boundary-in-error-and-extensions", "nested-binary-empty"];

fn gql(v: Value) -> GqlValue {
    GqlValue::from_json(v).expect("harness value converts")
}

/// The i-th response of kind `k`. Contents carry `i` so that equal kinds at different
/// positions are still distinguishable (a duplicate or a swap is visible).
fn make_resp(k: usize, i: usize) -> Response {
    match k {
        0 => Response::new(gql(json!({"tick": {"n": i, "ok": true, "list": [1, 2, 3], "nothing": null}}))),
        1 => {
            let mut r = Response::from_errors(vec![
                ServerError::new(format!("boom {i}"), Some(Pos { line: 1, column: 2 }))
                    .with_path(vec![PathSegment::Field("tick".into()), PathSegment::Index(i)]),
                ServerError::new("second", None),
            ]);
            r.data = GqlValue::Null;
            r
        }
        2 => Response::new(gql(json!({"s": format!("h\u{e9}llo \u{2028}\u{2029} \u{1F600} \u{0} \u{7f} \u{85} \"quoted\" \\ back / {i}"), "\u{e9}\u{1F600}": i}))),
        3 => Response::new(gql(json!({"s": format!("{EVIL}{i}"), EVIL: i, "lf": "\n--graphql\n", "cr": "\r--graphql--\r", "crlf": "\r\n", "list": [EVIL, "\r\n--graphql--\r\n"]}))),
        4 => {
            let mut r = Response::from_errors(vec![ServerError::new(format!("{EVIL}{i}"), None).with_path(vec![PathSegment::Field(EVIL.into())])]);
            r.data = gql(json!({"partial": null}));
            r.extensions.insert(EVIL.to_string(), gql(json!({"trace": EVIL, "n": i})));
            r
        }
        _ => Response::new(gql(json!({"empty": {}, "el": [], "deep": [[[{"a": [{"b": i}]}]]], "big": 18446744073709551615u64, "neg": -9223372036854775808i64, "es": ""}))),
    }
}

// ---------------------------------------------------------------------------------------------
// reference multipart reader (RFC 2046 §5.1.1, strict: no preamble, no transport padding)
// ---------------------------------------------------------------------------------------------

#[derive(Debug, Clone, PartialEq)]
struct Part {
    headers: Vec<(String, String)>,
    body: Vec<u8>,
}

#[derive(Debug)]
struct ReadErr {
    stage: &'static str,
    msg: String,
}

fn find(hay: &[u8], needle: &[u8], from: usize) -> Option<usize> {
    if needle.is_empty() || hay.len() < needle.len() {
        return None;
    }
    (from..=hay.len() - needle.len()).find(|&i| &hay[i..i + needle.len()] == needle)
}

/// multipart-body := dash-boundary CRLF body-part *(delimiter CRLF body-part) close-delimiter CRLF
/// body-part := *(header CRLF) CRLF octets        delimiter := CRLF "--graphql"
/// The only deviation admitted: the body that consists of the close delimiter alone
/// (`--graphql--CRLF`), the conventional encoding of zero parts (see `assume`).
fn read_multipart(b: &[u8]) -> Result<Vec<Part>, ReadErr> {
    let dash = format!("--{BOUNDARY}").into_bytes();
    let delim = format!("\r\n--{BOUNDARY}").into_bytes();
    let err = |stage: &'static str, msg: String| Err(ReadErr { stage, msg });
    if !b.starts_with(&dash) {
        return err("first-boundary", format!("body does not start with --{BOUNDARY} (starts {:?})", String::from_utf8_lossy(&b[..b.len().min(24)])));
    }
    let mut pos = dash.len();
    if b[pos..].starts_with(b"--") {
        // zero parts
        let rest = &b[pos + 2..];
        return if rest == b"\r\n" || rest.is_empty() {
            Ok(Vec::new())
        } else {
            err("bytes-after-close", format!("{} byte(s) after the closing delimiter: {:?}", rest.len(), String::from_utf8_lossy(&rest[..rest.len().min(48)])))
        };
    }
    let mut parts = Vec::new();
    loop {
        // after a (dash-)boundary that is not the close delimiter: CRLF
        if !b[pos..].starts_with(b"\r\n") {
            return err("boundary-line", format!("boundary at byte {pos} is not followed by CRLF or \"--\" (next {:?})", String::from_utf8_lossy(&b[pos..b.len().min(pos + 16)])));
        }
        pos += 2;
        // header lines up to the empty line
        let mut headers = Vec::new();
        loop {
            let Some(eol) = find(b, b"\r\n", pos) else {
                return err("headers", format!("unterminated header line at byte {pos}"));
            };
            let line = &b[pos..eol];
            pos = eol + 2;
            if line.is_empty() {
                break;
            }
            if line.iter().any(|c| *c == b'\r' || *c == b'\n') {
                return err("headers", "bare CR or LF inside a header line".into());
            }
            let Ok(s) = std::str::from_utf8(line) else {
                return err("headers", "header line is not UTF-8".into());
            };
            if s.starts_with("--") {
                return err("headers", format!("boundary-like line {s:?} where a header or the empty line is required"));
            }
            let Some((name, value)) = s.split_once(':') else {
                return err("headers", format!("header line without colon: {s:?}"));
            };
            if name.is_empty() || name.chars().any(|c| c.is_ascii_whitespace() || c.is_ascii_control()) {
                return err("headers", format!("bad header name {name:?}"));
            }
            headers.push((name.to_ascii_lowercase(), value.trim().to_string()));
        }
        // body up to the first delimiter
        let Some(d) = find(b, &delim, pos) else {
            return err("no-delimiter", format!("part {} is not terminated by CRLF--{BOUNDARY} (close delimiter missing)", parts.len()));
        };
        parts.push(Part { headers, body: b[pos..d].to_vec() });
        pos = d + delim.len();
        if b[pos..].starts_with(b"--") {
            let rest = &b[pos + 2..];
            return if rest == b"\r\n" || rest.is_empty() {
                Ok(parts)
            } else {
                err("bytes-after-close", format!("{} byte(s) after the closing delimiter: {:?}", rest.len(), String::from_utf8_lossy(&rest[..rest.len().min(48)])))
            };
        }
    }
}

/// Lines (CRLF separated) that are exactly the close delimiter.
fn close_delimiter_lines(b: &[u8]) -> (usize, bool) {
    let close = format!("--{BOUNDARY}--").into_bytes();
    let mut lines: Vec<&[u8]> = Vec::new();
    let mut pos = 0;
    while let Some(e) = find(b, b"\r\n", pos) {
        lines.push(&b[pos..e]);
        pos = e + 2;
    }
    let tail = &b[pos..];
    if !tail.is_empty() {
        lines.push(tail);
    }
    let n = lines.iter().filter(|l| **l == &close[..]).count();
    let last = lines.last().map(|l| *l == &close[..]).unwrap_or(false);
    (n, last)
}

/// The same bytes, chunked as emitted, through `multer` (the reader the crate itself uses
/// for uploads). Returns (content-type essence, body) per part.
fn read_with_multer(chunks: &[Vec<u8>]) -> Result<Vec<(Option<String>, Vec<u8>)>, String> {
    let items: Vec<Result<Bytes, std::io::Error>> = chunks.iter().map(|c| Ok(Bytes::from(c.clone()))).collect();
    let fut = async move {
        let mut mp = multer::Multipart::new(futures_util::stream::iter(items), BOUNDARY);
        let mut out = Vec::new();
        loop {
            match mp.next_field().await {
                Ok(Some(f)) => {
                    let ct = f.content_type().map(|m| m.essence_str().to_string());
                    match f.bytes().await {
                        Ok(b) => out.push((ct, b.to_vec())),
                        Err(e) => return Err(format!("field body: {e}")),
                    }
                }
                Ok(None) => return Ok(out),
                Err(e) => return Err(format!("next_field: {e}")),
            }
        }
    };
    match sched::drive(fut) {
        Some(r) => r,
        None => Err("multer parked on a fully available body".into()),
    }
}

// ---------------------------------------------------------------------------------------------
// oracle
// ---------------------------------------------------------------------------------------------

struct Finding {
    class: &'static str,
    stage: String,
    detail: String,
}

fn fnd(class: &'static str, stage: impl Into<String>, detail: impl Into<String>) -> Finding {
    Finding { class, stage: stage.into(), detail: detail.into() }
}

#[derive(Clone, Copy, PartialEq, Debug)]
enum Ev {
    Resp(usize),
    Tick,
}

/// What the heartbeats must look like.
enum Beats<'a> {
    /// one source ready per step: the part sequence is exactly this event sequence
    Exact(&'a [Ev]),
    /// burst steps: heartbeat count within bounds, position free
    Count(usize, usize),
}

fn is_subseq(small: &[Value], big: &[Value]) -> bool {
    let mut it = big.iter();
    small.iter().all(|s| it.any(|b| b == s))
}

struct Judged {
    findings: Vec<Finding>,
    parts: usize,
    heartbeats: usize,
    raw_line_break_in_body: bool,
}

fn judge(expected: &[Value], chunks: &[Vec<u8>], beats: Beats) -> Judged {
    let bytes: Vec<u8> = chunks.concat();
    let mut f = Vec::new();
    let mut j = Judged { findings: Vec::new(), parts: 0, heartbeats: 0, raw_line_break_in_body: false };

    // closing delimiter: exactly once, last
    let (n_close, close_last) = close_delimiter_lines(&bytes);
    if n_close == 0 {
        f.push(fnd("close-delimiter-missing", "close", "no line equal to --graphql-- in the body"));
    } else if n_close > 1 {
        f.push(fnd("close-delimiter-repeated", "close", format!("{n_close} lines equal to --graphql-- in the body")));
    } else if !close_last {
        f.push(fnd("close-delimiter-not-last", "close", "the --graphql-- line is not the last line of the body"));
    }

    let parts = match read_multipart(&bytes) {
        Ok(p) => p,
        Err(e) => {
            // a repeated / misplaced close delimiter already explains these reader stages
            let explained = (e.stage == "bytes-after-close" && f.iter().any(|x| x.class != "close-delimiter-missing")) || (e.stage == "no-delimiter" && n_close == 0);
            if !explained {
                f.push(fnd("malformed-multipart", e.stage, e.msg));
            }
            j.findings = f;
            return j;
        }
    };
    j.parts = parts.len();

    // multer cross-check (only meaningful once the reference accepted the framing)
    match read_with_multer(chunks) {
        Err(e) => f.push(fnd("multer-rejects", "multer", format!("reference reader accepts {} part(s) but multer fails: {e}", parts.len()))),
        Ok(mp) => {
            if mp.len() != parts.len() || mp.iter().zip(&parts).any(|(a, b)| a.1 != b.body) {
                f.push(fnd("multer-disagrees", "multer", format!("reference reader sees {} part(s), multer {} (or bodies differ)", parts.len(), mp.len())));
            } else if mp.iter().any(|(ct, _)| ct.as_deref() != Some("application/json")) {
                f.push(fnd("part-content-type", "multer", "multer does not report content-type application/json for some part"));
            }
        }
    }

    // every part: application/json header and a JSON body
    let mut vals: Vec<Value> = Vec::new();
    for (i, p) in parts.iter().enumerate() {
        let cts: Vec<&String> = p.headers.iter().filter(|(n, _)| n == "content-type").map(|(_, v)| v).collect();
        let ok = cts.len() == 1 && cts[0].split(';').next().map(|e| e.trim().eq_ignore_ascii_case("application/json")).unwrap_or(false);
        if !ok {
            f.push(fnd("part-content-type", "headers", format!("part {i} has headers {:?}, expected exactly one Content-Type: application/json", p.headers)));
        }
        if p.body.iter().any(|c| *c == b'\r' || *c == b'\n') {
            j.raw_line_break_in_body = true;
        }
        match serde_json::from_slice::<Value>(&p.body) {
            Ok(v) => vals.push(v),
            Err(e) => {
                f.push(fnd("part-not-json", "body", format!("part {i} body is not one JSON value ({e}): {:?}", String::from_utf8_lossy(&p.body[..p.body.len().min(80)]))));
                j.findings = f;
                return j;
            }
        }
    }

    let empty = json!({});
    let got_resps: Vec<Value> = vals.iter().filter(|v| **v != empty).cloned().collect();
    j.heartbeats = vals.len() - got_resps.len();
    if got_resps != expected {
        let mut a: Vec<String> = got_resps.iter().map(|v| v.to_string()).collect();
        let mut b: Vec<String> = expected.iter().map(|v| v.to_string()).collect();
        a.sort();
        b.sort();
        let how = if a == b {
            "reordered"
        } else if is_subseq(&got_resps, expected) {
            "missing"
        } else if is_subseq(expected, &got_resps) {
            if got_resps.iter().all(|g| expected.contains(g)) {
                "duplicated"
            } else {
                "extra-part"
            }
        } else {
            "altered"
        };
        f.push(fnd("responses-mismatch", how, format!("non-heartbeat parts are {} of the {} responses ({how}); got {}", got_resps.len(), expected.len(), Value::Array(got_resps.clone()))));
    } else {
        match beats {
            Beats::Exact(evs) => {
                let want: Vec<bool> = evs.iter().map(|e| *e == Ev::Tick).collect();
                let got: Vec<bool> = vals.iter().map(|v| *v == empty).collect();
                if want != got {
                    let show = |v: &[bool]| v.iter().map(|b| if *b { 'H' } else { 'R' }).collect::<String>();
                    f.push(fnd("heartbeat-mismatch", if want.len() != got.len() { "count" } else { "position" }, format!("events {} but parts {}", show(&want), show(&got))));
                }
            }
            Beats::Count(lo, hi) => {
                if j.heartbeats < lo || j.heartbeats > hi {
                    f.push(fnd("heartbeat-mismatch", "count", format!("{} heartbeat part(s), expected between {lo} and {hi}", j.heartbeats)));
                }
            }
        }
    }
    j.findings = f;
    j
}

// ---------------------------------------------------------------------------------------------
// Part A: gated sources under sched
// ---------------------------------------------------------------------------------------------

struct GatedInput {
    h: Handle,
    kinds: Vec<usize>,
    next: usize,
    gate: Option<sched::Gate>,
    done: bool,
    polls_after_end: Arc<AtomicUsize>,
}

impl Stream for GatedInput {
    type Item = Response;
    fn poll_next(mut self: Pin<&mut Self>, cx: &mut Context<'_>) -> Poll<Option<Response>> {
        let this = &mut *self;
        if this.done {
            this.polls_after_end.fetch_add(1, Ordering::Relaxed);
            return Poll::Ready(None);
        }
        if this.gate.is_none() {
            let name = if this.next < this.kinds.len() { format!("resp#{}", this.next) } else { "end".to_string() };
            this.gate = Some(this.h.gate(name));
        }
        match Pin::new(this.gate.as_mut().unwrap()).poll(cx) {
            Poll::Pending => Poll::Pending,
            Poll::Ready(()) => {
                this.gate = None;
                if this.next < this.kinds.len() {
                    let r = make_resp(this.kinds[this.next], this.next);
                    this.next += 1;
                    Poll::Ready(Some(r))
                } else {
                    this.done = true;
                    Poll::Ready(None)
                }
            }
        }
    }
}

struct GatedTimer {
    h: Handle,
    calls: AtomicUsize,
    budget: usize,
    wrong_interval: Arc<AtomicBool>,
}

impl Timer for GatedTimer {
    fn delay(&self, d: Duration) -> BoxFuture<'static, ()> {
        if d != INTERVAL {
            self.wrong_interval.store(true, Ordering::Relaxed);
        }
        let j = self.calls.fetch_add(1, Ordering::Relaxed);
        if j >= self.budget {
            return std::future::pending().boxed();
        }
        let mut g = self.h.gate(format!("tick#{j}"));
        // Register the gate now, in program order. Left to its first real poll it would be
        // registered in the (pseudo-random) order in which select! polls its branches and the
        // scheduler's gate menu would stop being a function of the choice sequence.
        let w = futures_util::task::noop_waker();
        let _ = Pin::new(&mut g).poll(&mut Context::from_waker(&w));
        g.boxed()
    }
}

#[derive(Clone, PartialEq, Debug)]
struct ObsA {
    kinds: Vec<usize>,
    schedule: Vec<String>,
    end: String,
    pending: Vec<String>,
    chunks: Vec<Vec<u8>>,
    panic: Option<String>,
    wrong_interval: bool,
    polls_after_end: usize,
}

#[derive(Clone, Copy)]
struct BoundsA {
    max_n: usize,
    ticks: usize,
    kinds: usize,
}

fn run_a(ch: &mut Chooser, b: BoundsA) -> ObsA {
    let n = ch.any("responses", b.max_n + 1);
    let kinds: Vec<usize> = (0..n).map(|i| ch.any(&format!("kind{i}"), b.kinds)).collect();
    let h = Handle::new();
    let out: Arc<Mutex<Vec<Vec<u8>>>> = Arc::new(Mutex::new(Vec::new()));
    let wrong_interval = Arc::new(AtomicBool::new(false));
    let polls_after_end = Arc::new(AtomicUsize::new(0));
    let input = GatedInput { h: h.clone(), kinds: kinds.clone(), next: 0, gate: None, done: false, polls_after_end: polls_after_end.clone() };
    let timer = GatedTimer { h: h.clone(), calls: AtomicUsize::new(0), budget: b.ticks, wrong_interval: wrong_interval.clone() };
    let out2 = out.clone();
    let root = async move {
        let mut s = create_multipart_mixed_stream(input, timer, INTERVAL);
        while let Some(bytes) = s.next().await {
            out2.lock().unwrap().push(bytes.to_vec());
        }
    };
    let r = agv_engine::catch_quiet(|| {
        let r = sched::run(&h, ch, &RunCfg { max_steps: 2_000, ..RunCfg::default() }, root, &mut |_| {});
        (r.end, r.schedule, r.pending_gates)
    });
    let chunks = out.lock().unwrap().clone();
    match r {
        Ok((end, schedule, pending)) => ObsA {
            kinds,
            schedule,
            end: match end {
                End::Done => "done".into(),
                End::Deadlock => "deadlock".into(),
                End::Horizon => "horizon".into(),
            },
            pending,
            chunks,
            panic: None,
            wrong_interval: wrong_interval.load(Ordering::Relaxed),
            polls_after_end: polls_after_end.load(Ordering::Relaxed),
        },
        Err(p) => ObsA { kinds, schedule: Vec::new(), end: "panic".into(), pending: Vec::new(), chunks, panic: Some(p), wrong_interval: false, polls_after_end: 0 },
    }
}

fn events_of(schedule: &[String]) -> (Vec<Ev>, bool) {
    let mut evs = Vec::new();
    let mut ended = false;
    for m in schedule {
        if let Some(r) = m.strip_prefix("open resp#") {
            evs.push(Ev::Resp(r.parse().unwrap_or(usize::MAX)));
        } else if m.starts_with("open tick#") {
            evs.push(Ev::Tick);
        } else if m == "open end" {
            ended = true;
        }
    }
    (evs, ended)
}

fn expected_values(kinds: &[usize]) -> Vec<Value> {
    kinds.iter().enumerate().map(|(i, k)| serde_json::to_value(make_resp(*k, i)).expect("response serializes to a serde_json value")).collect()
}

fn judge_a(o: &ObsA) -> Judged {
    if let Some(p) = &o.panic {
        return Judged { findings: vec![fnd("panic", "run", format!("the stream panicked: {p}"))], parts: 0, heartbeats: 0, raw_line_break_in_body: false };
    }
    let (evs, ended) = events_of(&o.schedule);
    if o.end != "done" || !ended {
        return Judged {
            findings: vec![fnd("stream-does-not-end", o.end.clone(), format!("run ended {} (end of input delivered: {ended}), pending gates {:?}, schedule {:?}", o.end, o.pending, o.schedule))],
            parts: 0,
            heartbeats: 0,
            raw_line_break_in_body: false,
        };
    }
    let mut j = judge(&expected_values(&o.kinds), &o.chunks, Beats::Exact(&evs));
    if o.schedule.last().map(|s| s.as_str()) != Some("open end") {
        j.findings.push(fnd("output-after-end-of-input", "schedule", format!("the stream needed further events after end of input: {:?}", o.schedule)));
    }
    j
}

fn escape(b: &[u8]) -> String {
    String::from_utf8_lossy(b).replace('\r', "\\r").replace('\n', "\\n\n    ")
}

fn binom(n: u64, k: u64) -> u64 {
    (0..k).fold(1u64, |acc, i| acc * (n - i) / (i + 1))
}

fn part_a(cx: &Cx, b: BoundsA) {
    let seen: Mutex<HashSet<u64>> = Mutex::new(HashSet::new());
    let prefixes: Mutex<HashSet<u64>> = Mutex::new(HashSet::new());
    let moves = AtomicU64::new(0);
    let parts_total = AtomicU64::new(0);
    let beats_total = AtomicU64::new(0);
    let raw_breaks = AtomicU64::new(0);
    let zero_parts = AtomicU64::new(0);
    let nondeterministic = AtomicU64::new(0);
    let wrong_interval = AtomicU64::new(0);
    let polls_after_end = AtomicU64::new(0);

    let st = explore(&ExploreCfg::default(), &|ch: &mut Chooser| run_a(ch, b), &|ch: &Chooser, o: ObsA| {
        cx.eval();
        let choices = ch.choices();
        // reproducibility: the same choice sequence must give the same schedule and the same bytes
        let again = run_a(&mut Chooser::from_choices(&choices), b);
        if again != o {
            nondeterministic.fetch_add(1, Ordering::Relaxed);
        }
        let sem = agv_engine::h64(&(&o.kinds, &o.schedule));
        seen.lock().unwrap().insert(sem);
        {
            let mut p = prefixes.lock().unwrap();
            for k in 0..=o.schedule.len() {
                p.insert(agv_engine::h64(&(&o.kinds, &o.schedule[..k])));
            }
        }
        moves.fetch_add(o.schedule.len() as u64, Ordering::Relaxed);
        if o.wrong_interval {
            wrong_interval.fetch_add(1, Ordering::Relaxed);
        }
        polls_after_end.fetch_add(o.polls_after_end as u64, Ordering::Relaxed);
        let j = judge_a(&o);
        parts_total.fetch_add(j.parts as u64, Ordering::Relaxed);
        beats_total.fetch_add(j.heartbeats as u64, Ordering::Relaxed);
        if j.raw_line_break_in_body {
            raw_breaks.fetch_add(1, Ordering::Relaxed);
        }
        if j.parts == 0 && j.findings.is_empty() {
            zero_parts.fetch_add(1, Ordering::Relaxed);
        }
        let (evs, _) = events_of(&o.schedule);
        let has_r = evs.iter().any(|e| matches!(e, Ev::Resp(_)));
        let has_t = evs.iter().any(|e| *e == Ev::Tick);
        if has_r && has_t {
            cx.nontrivial(sem);
        }
        cx.sample_with(sem, || json!({"part": "A", "kinds": o.kinds.iter().map(|k| KIND_NAMES[*k]).collect::<Vec<_>>(), "schedule": o.schedule, "parts": j.parts, "heartbeats": j.heartbeats, "bytes": o.chunks.concat().len()}));
        for x in j.findings {
            cx.violation(
                Violation::new(
                    x.class,
                    format!("{}\n  kinds {:?}\n  schedule {:?}\n  body:\n    {}", x.detail, o.kinds.iter().map(|k| KIND_NAMES[*k]).collect::<Vec<_>>(), o.schedule, escape(&o.chunks.concat())),
                    json!({"part": "A", "choices": choices, "max_n": b.max_n, "ticks": b.ticks, "kinds": b.kinds}),
                )
                .key("part", "A")
                .key("stage", x.stage),
            );
        }
    });
    if let Some(d) = st.diverged {
        cx.machinery_error(format!("part A: {d}"));
    }
    if st.capped {
        cx.machinery_error("part A: execution cap hit (none was configured)");
    }
    // the number of interleavings is known in closed form: contents^n * sum_t C(n+t, t)
    let want: u64 = (0..=b.max_n as u64).map(|n| (b.kinds as u64).pow(n as u32) * (0..=b.ticks as u64).map(|t| binom(n + t, t)).sum::<u64>()).sum();
    let distinct = seen.lock().unwrap().len() as u64;
    if distinct != st.executions || distinct != want {
        cx.machinery_error(format!("part A: {} executions, {} distinct schedules, closed form says {want} — the harness does not own all nondeterminism", st.executions, distinct));
    }
    let nd = nondeterministic.load(Ordering::Relaxed);
    if nd > 0 {
        cx.machinery_error(format!("part A: {nd} execution(s) gave a different schedule or different bytes when run a second time"));
    }
    if wrong_interval.load(Ordering::Relaxed) > 0 {
        cx.machinery_error("part A: Timer::delay was called with a duration other than the heartbeat interval (harness assumption broken)");
    }
    cx.add_traces(st.executions * 2);
    cx.add_transitions(moves.load(Ordering::Relaxed));
    cx.add_states(prefixes.lock().unwrap().len() as u64);
    cx.extra(
        "part_A",
        json!({"responses_max": b.max_n, "timer_firings_max": b.ticks, "content_kinds": &KIND_NAMES[..b.kinds], "executions": st.executions, "distinct_schedules": distinct,
            "closed_form_schedules": want, "choice_points": st.points, "max_depth": st.max_depth, "gate_openings": moves.load(Ordering::Relaxed), "parts_parsed": parts_total.load(Ordering::Relaxed),
            "heartbeat_parts": beats_total.load(Ordering::Relaxed), "executions_with_raw_CR_or_LF_inside_a_part_body": raw_breaks.load(Ordering::Relaxed),
            "executions_whose_body_is_the_close_delimiter_alone": zero_parts.load(Ordering::Relaxed), "each_execution_run_twice_identical": nd == 0, "input_polls_after_end_of_input": polls_after_end.load(Ordering::Relaxed)}),
    );
}

// ---------------------------------------------------------------------------------------------
// Part B: burst steps, hand-driven
// ---------------------------------------------------------------------------------------------

#[derive(Default)]
struct Env {
    resp_released: usize,
    ticks_released: usize,
    wakers: Vec<Waker>,
}

struct BurstInput {
    env: Arc<Mutex<Env>>,
    kinds: Vec<usize>,
    next: usize,
}

impl Stream for BurstInput {
    type Item = Response;
    fn poll_next(mut self: Pin<&mut Self>, cx: &mut Context<'_>) -> Poll<Option<Response>> {
        let this = &mut *self;
        let mut e = this.env.lock().unwrap();
        if this.next < e.resp_released {
            let i = this.next;
            this.next += 1;
            if i < this.kinds.len() {
                Poll::Ready(Some(make_resp(this.kinds[i], i)))
            } else {
                Poll::Ready(None)
            }
        } else if this.next > this.kinds.len() {
            Poll::Ready(None)
        } else {
            e.wakers.push(cx.waker().clone());
            Poll::Pending
        }
    }
}

struct BurstTimer {
    env: Arc<Mutex<Env>>,
    calls: AtomicUsize,
}

struct BurstDelay {
    env: Arc<Mutex<Env>>,
    j: usize,
}

impl Future for BurstDelay {
    type Output = ();
    fn poll(self: Pin<&mut Self>, cx: &mut Context<'_>) -> Poll<()> {
        let mut e = self.env.lock().unwrap();
        if self.j < e.ticks_released {
            Poll::Ready(())
        } else {
            e.wakers.push(cx.waker().clone());
            Poll::Pending
        }
    }
}

impl Timer for BurstTimer {
    fn delay(&self, _d: Duration) -> BoxFuture<'static, ()> {
        let j = self.calls.fetch_add(1, Ordering::Relaxed);
        BurstDelay { env: self.env.clone(), j }.boxed()
    }
}

struct ObsB {
    chunks: Vec<Vec<u8>>,
    finished: bool,
    panic: Option<String>,
}

/// steps: (responses released — the (n+1)-th release is end of input, fire the armed timer)
fn run_b(kinds: &[usize], steps: &[(usize, bool)]) -> ObsB {
    let env = Arc::new(Mutex::new(Env::default()));
    let input = BurstInput { env: env.clone(), kinds: kinds.to_vec(), next: 0 };
    let timer = BurstTimer { env: env.clone(), calls: AtomicUsize::new(0) };
    let mut chunks = Vec::new();
    let mut finished = false;
    let r = agv_engine::catch_quiet(|| {
        let mut s = create_multipart_mixed_stream(input, timer, INTERVAL);
        let fw = FlagWaker::new();
        let waker = fw.waker();
        let mut cx = Context::from_waker(&waker);
        let mut pump = |chunks: &mut Vec<Vec<u8>>, finished: &mut bool| {
            let mut spins = 0;
            while !*finished {
                match s.poll_next_unpin(&mut cx) {
                    Poll::Ready(Some(b)) => chunks.push(b.to_vec()),
                    Poll::Ready(None) => *finished = true,
                    Poll::Pending => {
                        spins += 1;
                        if !fw.take() || spins > 10_000 {
                            break;
                        }
                    }
                }
            }
        };
        pump(&mut chunks, &mut finished);
        for (a, t) in steps {
            let ws = {
                let mut e = env.lock().unwrap();
                e.resp_released += a;
                if *t {
                    e.ticks_released += 1;
                }
                std::mem::take(&mut e.wakers)
            };
            for w in ws {
                w.wake();
            }
            fw.take();
            pump(&mut chunks, &mut finished);
        }
    });
    ObsB { chunks, finished, panic: r.err() }
}

fn scripts(n: usize, ticks: usize) -> Vec<Vec<(usize, bool)>> {
    fn go(left: usize, ticks: usize, cur: &mut Vec<(usize, bool)>, out: &mut Vec<Vec<(usize, bool)>>) {
        if left == 0 {
            out.push(cur.clone());
            return;
        }
        for a in 0..=left {
            for t in [false, true] {
                if (a == 0 && !t) || (t && ticks == 0) {
                    continue;
                }
                cur.push((a, t));
                go(left - a, ticks - t as usize, cur, out);
                cur.pop();
            }
        }
    }
    let mut out = Vec::new();
    go(n + 1, ticks, &mut Vec::new(), &mut out);
    out
}

fn judge_b(kinds: &[usize], steps: &[(usize, bool)], o: &ObsB) -> Judged {
    if let Some(p) = &o.panic {
        return Judged { findings: vec![fnd("panic", "run", format!("the stream panicked: {p}"))], parts: 0, heartbeats: 0, raw_line_break_in_body: false };
    }
    if !o.finished {
        return Judged { findings: vec![fnd("stream-does-not-end", "pending", "end of input was delivered and the output stream is still pending")], parts: 0, heartbeats: 0, raw_line_break_in_body: false };
    }
    // ticks released strictly before the step that delivers end of input must all show;
    // the one released together with end of input may or may not
    let mut released = 0;
    let (mut lo, mut hi) = (0, 0);
    for (a, t) in steps {
        released += a;
        if *t {
            hi += 1;
            if released <= kinds.len() {
                lo += 1;
            }
        }
    }
    judge(&expected_values(kinds), &o.chunks, Beats::Count(lo, hi))
}

fn part_b(cx: &Cx, b: BoundsA) {
    use rayon::prelude::*;
    let mut cases: Vec<(Vec<usize>, Vec<(usize, bool)>)> = Vec::new();
    for n in 0..=b.max_n {
        let sc = scripts(n, b.ticks);
        let total = b.kinds.pow(n as u32);
        for code in 0..total {
            let kinds: Vec<usize> = (0..n).map(|i| (code / b.kinds.pow(i as u32)) % b.kinds).collect();
            for s in &sc {
                // scripts with only single-source steps are Part A's; keep those with at least one burst
                if s.iter().any(|(a, t)| *a + *t as usize >= 2) {
                    cases.push((kinds.clone(), s.clone()));
                }
            }
        }
    }
    // the (contents, script) pairs are enumerated without repetition: distinct by construction
    let nontrivial = AtomicU64::new(0);
    let tick_first = AtomicBool::new(false);
    let resp_first = AtomicBool::new(false);
    cases.par_iter().for_each(|(kinds, steps)| {
        cx.eval();
        let o = run_b(kinds, steps);
        let j = judge_b(kinds, steps, &o);
        let id = agv_engine::h64(&("B", kinds, steps));
        if !kinds.is_empty() && steps.iter().any(|(a, t)| *a >= 1 && *t) {
            nontrivial.fetch_add(1, Ordering::Relaxed);
            // which branch did select! serve first when a response and the timer were ready together?
            if steps.len() >= 1 && steps[0].0 >= 1 && steps[0].1 && j.findings.is_empty() {
                if let Ok(parts) = read_multipart(&o.chunks.concat()) {
                    match parts.first().map(|p| p.body == b"{}") {
                        Some(true) => tick_first.store(true, Ordering::Relaxed),
                        Some(false) => resp_first.store(true, Ordering::Relaxed),
                        None => {}
                    }
                }
            }
        }
        cx.sample_with(id, || json!({"part": "B", "kinds": kinds.iter().map(|k| KIND_NAMES[*k]).collect::<Vec<_>>(), "steps": steps}));
        for x in j.findings {
            cx.violation(
                Violation::new(
                    x.class,
                    format!("{}\n  kinds {:?}\n  burst steps (responses released, timer fired) {:?}\n  body:\n    {}", x.detail, kinds.iter().map(|k| KIND_NAMES[*k]).collect::<Vec<_>>(), steps, escape(&o.chunks.concat())),
                    json!({"part": "B", "kinds": kinds, "steps": steps}),
                )
                .key("part", "B")
                .key("stage", x.stage),
            );
        }
    });
    cx.nontrivial_count(nontrivial.load(Ordering::Relaxed));
    cx.add_traces(cases.len() as u64);
    cx.add_transitions(cases.iter().map(|(_, s)| s.len() as u64).sum());
    cx.extra(
        "part_B",
        json!({"scripts_with_a_burst_step": cases.len(), "responses_max": b.max_n, "timer_firings_max": b.ticks, "content_kinds": b.kinds,
            "select_served_response_first_somewhere": resp_first.load(Ordering::Relaxed), "select_served_timer_first_somewhere": tick_first.load(Ordering::Relaxed)}),
    );
}

// ---------------------------------------------------------------------------------------------
// self-test of the reference reader (a reader that accepts everything would make the check vacuous)
// ---------------------------------------------------------------------------------------------

fn reader_selftest(cx: &Cx) {
    let h = "--graphql\r\nContent-Type: application/json\r\n\r\n";
    let good = format!("{h}{{\"data\":1}}\r\n{h}{{}}\r\n--graphql--\r\n");
    let cases: Vec<(&str, String, Option<&str>)> = vec![
        ("good", good.clone(), None),
        ("empty", "--graphql--\r\n".into(), None),
        ("double-close", format!("{good}--graphql--\r\n"), Some("bytes-after-close")),
        ("no-close", format!("{h}{{}}\r\n"), Some("no-delimiter")),
        ("lf-only", good.replace("\r\n", "\n"), Some("boundary-line")),
        ("missing-blank-line", "--graphql\r\nContent-Type: application/json\r\n{}\r\n--graphql--\r\n".into(), Some("headers")),
        ("trailing-bytes", format!("{good}x"), Some("bytes-after-close")),
        ("preamble", format!("x\r\n{good}"), Some("first-boundary")),
        ("forged-part-in-body", format!("{h}{{\"s\":\"x\r\n--graphql\r\nContent-Type: application/json\r\n\r\n{{}}\"}}\r\n--graphql--\r\n"), None),
    ];
    for (name, body, want) in cases {
        let got = read_multipart(body.as_bytes());
        let ok = match (&got, want) {
            (Ok(_), None) => true,
            (Err(e), Some(w)) => e.stage == w,
            _ => false,
        };
        if !ok {
            cx.machinery_error(format!("reference reader self-test '{name}': expected {want:?}, got {:?}", got.map(|p| p.len())));
        }
        if name == "forged-part-in-body" {
            // the reader must split at the raw delimiter (2 parts, the first not JSON): this is what
            // would expose an unescaped line break in a response
            let j = judge(&[json!({"s": "x"})], &[body.clone().into_bytes()], Beats::Count(0, 9));
            if !j.findings.iter().any(|f| f.class == "part-not-json") {
                cx.machinery_error("reference reader self-test: a raw CRLF--graphql inside a body did not split the part");
            }
        }
        if name == "double-close" {
            let j = judge(&[json!({"data": 1})], &[body.clone().into_bytes()], Beats::Count(0, 9));
            if !j.findings.iter().any(|f| f.class == "close-delimiter-repeated") {
                cx.machinery_error("oracle self-test: a repeated closing delimiter was not classified");
            }
        }
    }
}

pub fn run(cx: &Cx) {
    let b = if cx.quick() { BoundsA { max_n: 3, ticks: 3, kinds: 4 } } else { BoundsA { max_n: 4, ticks: 5, kinds: 6 } };
    cx.rule(
        "case = (number of responses, content kind of each, order in which the environment makes responses / timer firings / end of input ready). \
         Part A: every order with one source ready at a time (sched gates, all interleavings). Part B: every script in which some step makes several \
         responses and/or the armed timer ready at once before the output is polled. Non-trivial = at least one response and at least one timer firing \
         in the same execution (A) or in the same burst step (B); identified by (contents, schedule).",
    );
    cx.assume("the body consisting of the closing delimiter alone (--graphql--CRLF, produced when the input ends before any response or heartbeat) is accepted as the conventional encoding of zero parts, although RFC 2046's grammar asks for at least one body part; multer reads it as zero parts too");
    cx.assume("Part B: when a response and the timer are ready in the same poll, futures::select! serves them in a pseudo-random order the harness cannot choose; the oracle there accepts every order and only bounds the heartbeat count (a timer firing that becomes ready together with end of input may be dropped)");
    cx.assume("the timer never fires again after the stated number of firings (finite space); a part body is compared as a JSON value (serde_json equality with serde_json::to_value(&response)), not byte for byte");
    cx.assume("transport framing below the body (chunked encoding, the response's Content-Type header with boundary=graphql set by the integration crates) is outside this seam");
    reader_selftest(cx);
    // Part B first: it is sequential per case and its select! outcomes are the only ones not owned.
    part_b(cx, b);
    part_a(cx, b);
    cx.exhaustive(true);
}

pub fn replay(case: &Value) -> String {
    let mut s = String::new();
    if case["part"] == "B" {
        let kinds: Vec<usize> = case["kinds"].as_array().map(|a| a.iter().map(|v| v.as_u64().unwrap_or(0) as usize).collect()).unwrap_or_default();
        let steps: Vec<(usize, bool)> =
            case["steps"].as_array().map(|a| a.iter().map(|v| (v[0].as_u64().unwrap_or(0) as usize, v[1].as_bool().unwrap_or(false))).collect()).unwrap_or_default();
        let o = run_b(&kinds, &steps);
        let j = judge_b(&kinds, &steps, &o);
        s += &format!("part B kinds {kinds:?} steps {steps:?}\nbody:\n    {}\n", escape(&o.chunks.concat()));
        for f in &j.findings {
            s += &format!("  {} [{}]: {}\n", f.class, f.stage, f.detail);
        }
        if j.findings.is_empty() {
            s += "  oracle: well framed\n";
        }
    } else {
        let choices: Vec<u32> = case["choices"].as_array().map(|a| a.iter().map(|v| v.as_u64().unwrap_or(0) as u32).collect()).unwrap_or_default();
        let b = BoundsA { max_n: case["max_n"].as_u64().unwrap_or(3) as usize, ticks: case["ticks"].as_u64().unwrap_or(3) as usize, kinds: case["kinds"].as_u64().unwrap_or(4) as usize };
        let o = run_a(&mut Chooser::from_choices(&choices), b);
        let j = judge_a(&o);
        s += &format!("part A kinds {:?}\nschedule {:?} -> {}\nbody:\n    {}\n", o.kinds, o.schedule, o.end, escape(&o.chunks.concat()));
        for f in &j.findings {
            s += &format!("  {} [{}]: {}\n", f.class, f.stage, f.detail);
        }
        if j.findings.is_empty() {
            s += "  oracle: well framed\n";
        }
    }
    s
}

fn main() {
    agv_engine::driver::main("C26", "model_checking", run, Some(replay))
}
