//! C14 — reported source positions are exact line and column numbers.
//!
//! Seams: `Positioned<T>.pos` of every node of the trees returned by
//! `parse_query` / `parse_schema`; the positions of `async_graphql_parser::Error`
//! and of the `ServerError` made from it; `ServerError.locations` of validation
//! errors (unknown field) and execution errors (failing resolver) of a tiny
//! derive schema run with `agv_engine::sched::drive`.
//!
//! Space: the exemplar documents of C13(c) re-rendered with every assignment of
//! separators {LF, CRLF, CR, two spaces/space, tab, comma, BOM, `#c`+LF, `#c`+CR,
//! `#c`+CRLF} to token gaps and of non-ASCII / multi-line variants to string
//! tokens, at most 2 (quick) / 3 (thorough, short exemplars) non-default choices
//! per rendering (`agv_engine::explore`, deviation class 0); for syntax errors
//! every cut of those renderings at a token boundary followed by `%`; for
//! validation / execution errors every field node of three schema documents
//! renamed to an unknown / a failing field.
//! Oracle: the reference lexer's 1-based (line, column) — LF, CRLF and a lone CR
//! each end a line, columns count Unicode scalar values — of the token the node
//! starts at (nodes matched structurally through the reference parser's node
//! events) or of the offending character.

#[path = "../../c13/src/exemplars.rs"]
mod exemplars;

use agv_engine::explore::{explore, Chooser, ExploreCfg};
use agv_engine::record::{Cx, Violation};
use agv_refgql::ast as ra;
use agv_refgql::lex::{self, Tok};
use agv_refgql::parse::{self as rp, Event};
use async_graphql::parser::types as ct;
use async_graphql::parser::{parse_query, parse_schema, Pos, Positioned};
use async_graphql::{EmptyMutation, EmptySubscription, Object, Schema, ServerError};
use serde_json::{json, Value as J};
use std::sync::atomic::{AtomicU64, Ordering};

#[derive(Clone, Copy, PartialEq, Eq, Debug)]
enum Doc {
    Exec,
    Ts,
}
impl Doc {
    fn name(self) -> &'static str {
        match self {
            Doc::Exec => "executable",
            Doc::Ts => "type-system",
        }
    }
}

/// Alternatives for a token gap; index 0 (not listed) is the exemplar's own separator.
const SEPARATORS: [(&str, &str); 10] =
    [("lf", "\n"), ("crlf", "\r\n"), ("cr", "\r"), ("spaces", "  "), ("tab", "\t"), ("comma", ","), ("bom", "\u{feff}"), ("comment-lf", "#c\n"), ("comment-cr", "#c\r"), ("comment-crlf", "#c\r\n")];
/// Alternatives for a quoted string token / a block string token.
const STRING_VARIANTS: [(&str, &str); 2] = [("string-with-e-acute", "\"é\""), ("string-with-emoji", "\"😀\"")];
const BLOCK_VARIANTS: [(&str, &str); 4] =
    [("block-with-non-ascii", "\"\"\"é😀\"\"\""), ("block-with-lf", "\"\"\"a\nb\"\"\""), ("block-with-cr", "\"\"\"a\rb\"\"\""), ("block-with-crlf", "\"\"\"a\r\nb\"\"\"")];

// ------------------------------------------------------------------ position conventions (diagnosis only)

fn spec_pos(cs: &[char], off: usize) -> (usize, usize) {
    let (mut l, mut c) = (1, 1);
    let mut i = 0;
    while i < off && i < cs.len() {
        match cs[i] {
            '\n' => {
                l += 1;
                c = 1;
            }
            '\r' => {
                if cs.get(i + 1) == Some(&'\n') && i + 1 < off {
                    i += 1;
                }
                l += 1;
                c = 1;
            }
            _ => c += 1,
        }
        i += 1;
    }
    (l, c)
}

/// Name of the convention under which `got` is the position of char offset `off`, if any.
fn convention(cs: &[char], off: usize, got: (usize, usize), seam: &str) -> &'static str {
    // where the two known conventions coincide, name the one the seam's code path uses
    let (a, b) = (convention_calculator(cs, off, got), convention_pest(cs, off, got));
    match (a, b, seam == "parse-error") {
        (_, true, true) => "lone-cr-is-a-column",
        (true, _, _) => "lone-cr-resets-column-only",
        (_, true, _) => "lone-cr-is-a-column",
        _ => convention_other(cs, off, got),
    }
}

fn convention_calculator(cs: &[char], off: usize, got: (usize, usize)) -> bool {
    let upto = &cs[..off.min(cs.len())];
    // PositionCalculator::step as it stands: CR only resets the column
    let (mut l, mut c) = (1usize, 1usize);
    for ch in upto {
        match ch {
            '\r' => c = 1,
            '\n' => {
                l += 1;
                c = 1;
            }
            _ => c += 1,
        }
    }
    (l, c) == got
}

fn convention_pest(cs: &[char], off: usize, got: (usize, usize)) -> bool {
    let upto = &cs[..off.min(cs.len())];
    // pest's Position::line_col: CRLF and LF end a line, a lone CR is an ordinary column
    let (mut l, mut c) = (1usize, 1usize);
    let mut i = 0;
    while i < upto.len() {
        match upto[i] {
            '\r' if upto.get(i + 1) == Some(&'\n') => {
                i += 1;
                l += 1;
                c = 1;
            }
            '\n' => {
                l += 1;
                c = 1;
            }
            _ => c += 1,
        }
        i += 1;
    }
    (l, c) == got
}

fn convention_other(cs: &[char], off: usize, got: (usize, usize)) -> &'static str {
    // spec lines, other column units
    let (sl, _) = spec_pos(cs, off);
    let line_start = (0..off.min(cs.len())).rev().find(|i| cs[*i] == '\n' || cs[*i] == '\r').map(|i| i + 1).unwrap_or(0);
    let seg = &cs[line_start..off.min(cs.len())];
    if got == (sl, 1 + seg.iter().map(|c| c.len_utf16()).sum::<usize>()) {
        return "columns-in-utf16-units";
    }
    if got == (sl, 1 + seg.iter().map(|c| c.len_utf8()).sum::<usize>()) {
        return "columns-in-bytes";
    }
    if got.0 == sl {
        return "other-column";
    }
    "other-line"
}

// ------------------------------------------------------------------ node events of the crate's trees

type Ev = (&'static str, Pos);

fn dirs(out: &mut Vec<Ev>, ds: &[Positioned<ct::Directive>]) {
    for d in ds {
        out.push(("Directive", d.pos));
        out.push(("DirName", d.node.name.pos));
        for (k, v) in &d.node.arguments {
            out.push(("ArgName", k.pos));
            out.push(("Value", v.pos));
        }
    }
}

fn const_dirs(out: &mut Vec<Ev>, ds: &[Positioned<ct::ConstDirective>]) {
    for d in ds {
        out.push(("Directive", d.pos));
        out.push(("DirName", d.node.name.pos));
        for (k, v) in &d.node.arguments {
            out.push(("ArgName", k.pos));
            out.push(("Value", v.pos));
        }
    }
}

fn selset(out: &mut Vec<Ev>, s: &Positioned<ct::SelectionSet>) {
    out.push(("SelectionSet", s.pos));
    for it in &s.node.items {
        out.push(("Selection", it.pos));
        match &it.node {
            ct::Selection::Field(f) => {
                out.push(("Field", f.pos));
                if let Some(a) = &f.node.alias {
                    out.push(("Alias", a.pos));
                }
                out.push(("FieldName", f.node.name.pos));
                for (k, v) in &f.node.arguments {
                    out.push(("ArgName", k.pos));
                    out.push(("Value", v.pos));
                }
                dirs(out, &f.node.directives);
                if !f.node.selection_set.node.items.is_empty() {
                    selset(out, &f.node.selection_set);
                }
            }
            ct::Selection::FragmentSpread(s) => {
                out.push(("Spread", s.pos));
                out.push(("SpreadName", s.node.fragment_name.pos));
                dirs(out, &s.node.directives);
            }
            ct::Selection::InlineFragment(i) => {
                out.push(("Inline", i.pos));
                if let Some(tc) = &i.node.type_condition {
                    out.push(("TypeCondition", tc.pos));
                    out.push(("CondName", tc.node.on.pos));
                }
                dirs(out, &i.node.directives);
                selset(out, &i.node.selection_set);
            }
        }
    }
}

fn op_events(op: &Positioned<ct::OperationDefinition>) -> Vec<Ev> {
    let mut out = vec![("Operation", op.pos)];
    for v in &op.node.variable_definitions {
        out.push(("VarDef", v.pos));
        out.push(("VarName", v.node.name.pos));
        out.push(("Type", v.node.var_type.pos));
        if let Some(d) = &v.node.default_value {
            out.push(("Value", d.pos));
        }
        dirs(&mut out, &v.node.directives);
    }
    dirs(&mut out, &op.node.directives);
    selset(&mut out, &op.node.selection_set);
    out
}

/// Per definition, keyed `op:<name>` / `frag:<name>` (the tree keeps no definition order).
fn crate_exec_events(d: &ct::ExecutableDocument) -> Vec<(String, Vec<Ev>)> {
    let mut v = Vec::new();
    match &d.operations {
        ct::DocumentOperations::Single(op) => v.push(("op:".to_string(), op_events(op))),
        ct::DocumentOperations::Multiple(m) => {
            for (n, op) in m {
                v.push((format!("op:{n}"), op_events(op)));
            }
        }
    }
    for (n, f) in &d.fragments {
        let mut out = vec![("Fragment", f.pos), ("TypeCondition", f.node.type_condition.pos), ("CondName", f.node.type_condition.node.on.pos)];
        dirs(&mut out, &f.node.directives);
        selset(&mut out, &f.node.selection_set);
        v.push((format!("frag:{n}"), out));
    }
    v.sort_by(|a, b| a.0.cmp(&b.0));
    v
}

fn ivd(out: &mut Vec<Ev>, a: &Positioned<ct::InputValueDefinition>) {
    out.push(("InputValueDef", a.pos));
    if let Some(d) = &a.node.description {
        out.push(("Description", d.pos));
    }
    out.push(("Name", a.node.name.pos));
    out.push(("Type", a.node.ty.pos));
    if let Some(d) = &a.node.default_value {
        out.push(("Value", d.pos));
    }
    const_dirs(out, &a.node.directives);
}

fn field_defs(out: &mut Vec<Ev>, fs: &[Positioned<ct::FieldDefinition>]) {
    for f in fs {
        out.push(("FieldDef", f.pos));
        if let Some(d) = &f.node.description {
            out.push(("Description", d.pos));
        }
        out.push(("Name", f.node.name.pos));
        for a in &f.node.arguments {
            ivd(out, a);
        }
        out.push(("Type", f.node.ty.pos));
        const_dirs(out, &f.node.directives);
    }
}

fn crate_ts_events(d: &ct::ServiceDocument) -> Vec<(String, Vec<Ev>)> {
    let mut v = Vec::new();
    for (i, def) in d.definitions.iter().enumerate() {
        let mut out = Vec::new();
        match def {
            ct::TypeSystemDefinition::Schema(s) => {
                out.push(("SchemaDef", s.pos));
                const_dirs(&mut out, &s.node.directives);
                for n in [&s.node.query, &s.node.mutation, &s.node.subscription].into_iter().flatten() {
                    out.push(("RootType", n.pos));
                }
            }
            ct::TypeSystemDefinition::Type(t) => {
                out.push(("TypeDef", t.pos));
                if let Some(d) = &t.node.description {
                    out.push(("Description", d.pos));
                }
                out.push(("Name", t.node.name.pos));
                match &t.node.kind {
                    ct::TypeKind::Scalar => const_dirs(&mut out, &t.node.directives),
                    ct::TypeKind::Object(o) => {
                        for n in &o.implements {
                            out.push(("ImplName", n.pos));
                        }
                        const_dirs(&mut out, &t.node.directives);
                        field_defs(&mut out, &o.fields);
                    }
                    ct::TypeKind::Interface(o) => {
                        for n in &o.implements {
                            out.push(("ImplName", n.pos));
                        }
                        const_dirs(&mut out, &t.node.directives);
                        field_defs(&mut out, &o.fields);
                    }
                    ct::TypeKind::Union(u) => {
                        const_dirs(&mut out, &t.node.directives);
                        for n in &u.members {
                            out.push(("MemberName", n.pos));
                        }
                    }
                    ct::TypeKind::Enum(e) => {
                        const_dirs(&mut out, &t.node.directives);
                        for val in &e.values {
                            out.push(("EnumValueDef", val.pos));
                            if let Some(d) = &val.node.description {
                                out.push(("Description", d.pos));
                            }
                            out.push(("EnumValueName", val.node.value.pos));
                            const_dirs(&mut out, &val.node.directives);
                        }
                    }
                    ct::TypeKind::InputObject(io) => {
                        const_dirs(&mut out, &t.node.directives);
                        for f in &io.fields {
                            ivd(&mut out, f);
                        }
                    }
                }
            }
            ct::TypeSystemDefinition::Directive(dd) => {
                out.push(("DirectiveDef", dd.pos));
                if let Some(d) = &dd.node.description {
                    out.push(("Description", d.pos));
                }
                out.push(("Name", dd.node.name.pos));
                for a in &dd.node.arguments {
                    ivd(&mut out, a);
                }
                for l in &dd.node.locations {
                    out.push(("Location", l.pos));
                }
            }
        }
        v.push((format!("def:{i:04}"), out));
    }
    v
}

// ------------------------------------------------------------------ node events of the reference

/// Reference events per definition, in the crate's arrangement (same keys, kinds the crate's tree has no
/// node for dropped, schema roots in query/mutation/subscription order). Each event keeps its char offset.
fn ref_events(doc: Doc, src: &str) -> Option<Vec<(String, Vec<Event>)>> {
    match doc {
        Doc::Exec => {
            let (r, t) = rp::parse_exec_traced(src);
            let d = r.ok()?;
            let mut chunks: Vec<Vec<Event>> = Vec::new();
            for e in t.events {
                if e.kind == "Operation" || e.kind == "Fragment" {
                    chunks.push(Vec::new());
                }
                if e.kind != "OpName" && e.kind != "FragName" {
                    chunks.last_mut()?.push(e);
                }
            }
            if chunks.len() != d.defs.len() {
                return None;
            }
            let mut v: Vec<(String, Vec<Event>)> = d
                .defs
                .iter()
                .zip(chunks)
                .map(|(def, c)| {
                    let key = match def {
                        ra::ExecDef::Op(o) => format!("op:{}", o.name.as_ref().map(|n| n.s.as_str()).unwrap_or("")),
                        ra::ExecDef::Frag(f) => format!("frag:{}", f.name.s),
                    };
                    (key, c)
                })
                .collect();
            v.sort_by(|a, b| a.0.cmp(&b.0));
            Some(v)
        }
        Doc::Ts => {
            let (r, t) = rp::parse_ts_traced(src);
            let d = r.ok()?;
            let mut chunks: Vec<Vec<Event>> = Vec::new();
            for e in t.events {
                if matches!(e.kind, "SchemaDef" | "TypeDef" | "DirectiveDef") {
                    chunks.push(Vec::new());
                }
                if e.kind != "RootKind" {
                    chunks.last_mut()?.push(e);
                }
            }
            if chunks.len() != d.defs.len() {
                return None;
            }
            let mut out = Vec::new();
            for (i, (def, mut c)) in d.defs.iter().zip(chunks).enumerate() {
                if let ra::TsDef::Schema(s) = def {
                    // the crate stores the three roots in fixed order
                    let roots: Vec<Event> = c.iter().filter(|e| e.kind == "RootType").cloned().collect();
                    c.retain(|e| e.kind != "RootType");
                    let mut keyed: Vec<(u8, Event)> = s
                        .roots
                        .iter()
                        .zip(roots)
                        .map(|((k, _), e)| {
                            (
                                match k {
                                    ra::OpKind::Query => 0,
                                    ra::OpKind::Mutation => 1,
                                    ra::OpKind::Subscription => 2,
                                },
                                e,
                            )
                        })
                        .collect();
                    keyed.sort_by_key(|x| x.0);
                    c.extend(keyed.into_iter().map(|x| x.1));
                }
                out.push((format!("def:{i:04}"), c));
            }
            Some(out)
        }
    }
}

// ------------------------------------------------------------------ exemplars as token lists

#[derive(Clone)]
struct Exemplar {
    id: &'static str,
    doc: Doc,
    /// (original separator before the token, token text, string kind: 0 none, 1 quoted, 2 block)
    toks: Vec<(String, String, u8)>,
}

fn exemplar(cx: &Cx, doc: Doc, id: &'static str, src: &str) -> Option<Exemplar> {
    let cs: Vec<char> = src.chars().collect();
    let spans = match lex::tokenize_spans(src) {
        Ok(s) => s,
        Err(e) => {
            cx.machinery_error(format!("exemplar {id} does not lex: {e:?}"));
            return None;
        }
    };
    let mut toks = Vec::new();
    let mut prev = 0;
    for (t, end) in spans {
        if t.t == Tok::Eof {
            break;
        }
        let sep: String = cs[prev..t.off].iter().collect();
        let kind = match t.t {
            Tok::Str(_) => 1,
            Tok::BlockStr(_) => 2,
            _ => 0,
        };
        toks.push((sep, cs[t.off..end].iter().collect(), kind));
        prev = end;
    }
    Some(Exemplar { id, doc, toks })
}

struct Rendering {
    src: String,
    /// labels of the non-default choices
    used: Vec<&'static str>,
    /// char offsets (start, end) of every rendered token
    spans: Vec<(usize, usize)>,
    /// tokens whose text was replaced by a string variant
    replaced: Vec<bool>,
}

/// Render tokens `0..upto` with the chooser's assignment.
fn render(ex: &Exemplar, upto: usize, ch: &mut Chooser) -> Rendering {
    let mut s = String::new();
    let mut len = 0usize;
    let mut used = Vec::new();
    let mut spans = Vec::new();
    let mut replaced = Vec::new();
    let push = |s: &mut String, t: &str, len: &mut usize| {
        s.push_str(t);
        *len += t.chars().count();
    };
    for (sep, text, kind) in ex.toks.iter().take(upto) {
        let g = ch.dev(0, "gap", SEPARATORS.len() + 1);
        if g == 0 {
            push(&mut s, sep, &mut len);
        } else {
            let (name, t) = SEPARATORS[g - 1];
            push(&mut s, t, &mut len);
            used.push(name);
        }
        let start = len;
        let mut repl = false;
        match kind {
            1 => {
                let v = ch.dev(0, "string", STRING_VARIANTS.len() + 1);
                if v == 0 {
                    push(&mut s, text, &mut len);
                } else {
                    push(&mut s, STRING_VARIANTS[v - 1].1, &mut len);
                    used.push(STRING_VARIANTS[v - 1].0);
                    repl = true;
                }
            }
            2 => {
                let v = ch.dev(0, "block", BLOCK_VARIANTS.len() + 1);
                if v == 0 {
                    push(&mut s, text, &mut len);
                } else {
                    push(&mut s, BLOCK_VARIANTS[v - 1].1, &mut len);
                    used.push(BLOCK_VARIANTS[v - 1].0);
                    repl = true;
                }
            }
            _ => push(&mut s, text, &mut len),
        }
        spans.push((start, len));
        replaced.push(repl);
    }
    Rendering { src: s, used, spans, replaced }
}

/// The single-line ASCII twin of the first `cut` tokens + `%`: every gap a space (or nothing where the exemplar
/// has nothing), every string token that is not plain ASCII on one line replaced. On it line = 1 and
/// column = offset + 1 under every convention, so the crate's own answer tells which token its syntax error
/// refers to. Returns (token spans, offset of `%`, offset the crate's error points at).
fn twin(ex: &Exemplar, cut: usize) -> Option<(Vec<(usize, usize)>, usize, usize)> {
    let mut s = String::new();
    let mut spans = Vec::new();
    let n = ex.toks.len();
    for (sep, text, kind) in ex.toks.iter().take(cut) {
        if !sep.is_empty() {
            s.push(' ');
        }
        let start = s.len();
        let plain = text.is_ascii() && !text.contains(['\n', '\r']);
        match (kind, plain) {
            (1, false) => s.push_str("\"s\""),
            (2, false) => s.push_str("\"\"\"s\"\"\""),
            _ => s.push_str(text),
        }
        spans.push((start, s.len()));
    }
    if cut == n || !ex.toks[cut].0.is_empty() {
        s.push(' ');
    }
    let pct = s.len();
    s.push('%');
    debug_assert!(s.is_ascii());
    let err = match ex.doc {
        Doc::Exec => parse_query(&s).err(),
        Doc::Ts => parse_schema(&s).err(),
    }?;
    let p = err.positions().next()?;
    if p.line != 1 || p.column == 0 || p.column - 1 > pct {
        return None;
    }
    Some((spans, pct, p.column - 1))
}

struct Stats {
    compared_nodes: AtomicU64,
    renderings_compared: AtomicU64,
    crate_rejects: AtomicU64,
    structure_differs: AtomicU64,
    syntax_cases: AtomicU64,
    syntax_at_earlier_token: AtomicU64,
    syntax_unmappable: AtomicU64,
    syntax_other_shape: AtomicU64,
    error_cases: AtomicU64,
    error_cases_other_shape: AtomicU64,
}

/// Histogram of discrepancies by seam and convention (written to the evidence; known or not).
static HISTOGRAM: std::sync::Mutex<std::collections::BTreeMap<String, (u64, String)>> = std::sync::Mutex::new(std::collections::BTreeMap::new());

fn pos_violation(cx: &Cx, seam: &str, node: &str, doc: Doc, src: &str, cs: &[char], off: usize, got: Pos, exemplar: &str, used: &[&'static str]) {
    let exp = spec_pos(cs, off);
    let conv = convention(cs, off, (got.line, got.column), seam);
    {
        let mut h = HISTOGRAM.lock().unwrap();
        let e = h.entry(format!("seam={seam} convention={conv}")).or_insert((0, src.to_string()));
        e.0 += 1;
        if src.len() < e.1.len() {
            e.1 = src.to_string();
        }
    }
    cx.violation(
        Violation::new(
            "wrong-position",
            format!(
                "{seam}: {} node `{node}` of {src:?} starts at char offset {off} = line {}, column {}; reported {}:{} [{conv}]",
                doc.name(),
                exp.0,
                exp.1,
                got.line,
                got.column
            ),
            json!({ "seam": seam, "doc": doc.name(), "src": src, "field_offset": off }),
        )
        .key("seam", seam)
        .key("convention", conv)
        .key("node", node)
        .key("exemplar", exemplar)
        .key("separators", used.join("+")),
    );
}

/// Do both parsers accept `src` with trees of the same shape (same node kinds in the same order)?
fn same_shape(doc: Doc, src: &str) -> bool {
    let Some(refs) = ref_events(doc, src) else { return false };
    let got = match doc {
        Doc::Exec => parse_query(src).ok().map(|d| crate_exec_events(&d)),
        Doc::Ts => parse_schema(src).ok().map(|d| crate_ts_events(&d)),
    };
    let Some(got) = got else { return false };
    refs.len() == got.len() && refs.iter().zip(&got).all(|(a, b)| a.0 == b.0 && a.1.len() == b.1.len() && a.1.iter().zip(&b.1).all(|(x, y)| x.kind == y.0))
}

/// Compare every node position of one rendering. Returns the number of nodes compared when all of them
/// agreed, 0 otherwise.
fn check_ast(cx: &Cx, st: &Stats, doc: Doc, src: &str, exemplar: &str, used: &[&'static str]) -> u64 {
    let Some(refs) = ref_events(doc, src) else { return 0 };
    let got = agv_engine::catch_quiet(|| match doc {
        Doc::Exec => parse_query(src).ok().map(|d| crate_exec_events(&d)),
        Doc::Ts => parse_schema(src).ok().map(|d| crate_ts_events(&d)),
    });
    let got = match got {
        Err(p) => {
            cx.violation(Violation::new("panic", format!("parser panicked on {src:?}: {p}"), json!({ "seam": "ast", "doc": doc.name(), "src": src })).key("seam", "ast"));
            return 0;
        }
        Ok(None) => {
            // the reference accepts, the crate does not: a grammar matter (C13), nothing to compare here
            st.crate_rejects.fetch_add(1, Ordering::Relaxed);
            return 0;
        }
        Ok(Some(g)) => g,
    };
    let same_shape = refs.len() == got.len() && refs.iter().zip(&got).all(|(a, b)| a.0 == b.0 && a.1.len() == b.1.len() && a.1.iter().zip(&b.1).all(|(x, y)| x.kind == y.0));
    if !same_shape {
        // the two trees differ in structure: again C13's business
        st.structure_differs.fetch_add(1, Ordering::Relaxed);
        return 0;
    }
    let cs: Vec<char> = src.chars().collect();
    let mut n = 0;
    let mut bad = 0;
    for ((_, a), (_, b)) in refs.iter().zip(&got) {
        for (x, y) in a.iter().zip(b) {
            n += 1;
            if (x.pos.line as usize, x.pos.col as usize) != (y.1.line, y.1.column) {
                bad += 1;
                pos_violation(cx, "ast", x.kind, doc, src, &cs, x.off, y.1, exemplar, used);
            }
        }
    }
    st.compared_nodes.fetch_add(n, Ordering::Relaxed);
    st.renderings_compared.fetch_add(1, Ordering::Relaxed);
    if bad == 0 {
        n
    } else {
        0
    }
}

/// `r.src` ends with `%`. The parser's error must point at the same token (and offset within it) as it does on
/// the single-line ASCII twin, at that token's true line and column.
#[allow(clippy::too_many_arguments)]
fn check_syntax_error(cx: &Cx, st: &Stats, ex: &Exemplar, r: &Rendering, tw: &(Vec<(usize, usize)>, usize, usize)) {
    let doc = ex.doc;
    let src = &r.src;
    let cs: Vec<char> = src.chars().collect();
    let pct_off = cs.len() - 1;
    let case = || json!({ "seam": "parse-error", "doc": doc.name(), "src": src });
    let err = agv_engine::catch_quiet(|| match doc {
        Doc::Exec => parse_query(src).err(),
        Doc::Ts => parse_schema(src).err(),
    });
    let err = match err {
        Err(p) => {
            cx.violation(Violation::new("panic", format!("parser panicked on {src:?}: {p}"), case()).key("seam", "parse-error"));
            return;
        }
        Ok(None) => {
            cx.violation(Violation::new("accepts-illegal-character", format!("{src:?} accepted"), case()).key("seam", "parse-error"));
            return;
        }
        Ok(Some(e)) => e,
    };
    let direct: Vec<Pos> = err.positions().collect();
    let server: ServerError = err.into();
    if server.locations != direct {
        cx.violation(
            Violation::new("server-error-locations-differ", format!("{src:?}: parser error positions {direct:?}, ServerError.locations {:?}", server.locations), case()).key("seam", "parse-error"),
        );
    }
    let Some(got) = direct.first().copied() else {
        cx.violation(Violation::new("no-position", format!("{src:?}: syntax error without a position"), case()).key("seam", "parse-error"));
        return;
    };
    // map the twin's error offset into this rendering
    let (tspans, tpct, toff) = tw;
    let (off, node) = if toff == tpct {
        (pct_off, "illegal-character")
    } else if let Some(k) = tspans.iter().position(|(a, b)| a <= toff && toff < b) {
        let delta = toff - tspans[k].0;
        if delta > 0 && (r.replaced[k] || tspans[k].1 - tspans[k].0 != r.spans[k].1 - r.spans[k].0) {
            st.syntax_unmappable.fetch_add(1, Ordering::Relaxed);
            return;
        }
        (r.spans[k].0 + delta, if delta == 0 { "token-start" } else { "inside-token" })
    } else if let Some(k) = tspans.iter().position(|(_, b)| b == toff) {
        (r.spans[k].1, "token-end")
    } else {
        st.syntax_unmappable.fetch_add(1, Ordering::Relaxed);
        return;
    };
    st.syntax_cases.fetch_add(1, Ordering::Relaxed);
    if node != "illegal-character" {
        st.syntax_at_earlier_token.fetch_add(1, Ordering::Relaxed);
    }
    if (got.line, got.column) != spec_pos(&cs, off) {
        pos_violation(cx, "parse-error", node, doc, src, &cs, off, got, ex.id, &r.used);
    } else if src.chars().any(|c| c == '\n' || c == '\r' || !c.is_ascii()) {
        cx.nontrivial(agv_engine::hstr(src));
    }
}

// ------------------------------------------------------------------ validation / execution errors

struct Query;
struct A;
#[Object]
impl Query {
    async fn a(&self) -> A {
        A
    }
    async fn n(&self) -> i32 {
        1
    }
    async fn fail(&self) -> async_graphql::Result<Option<i32>> {
        Err("boom".into())
    }
}
#[Object]
impl A {
    async fn a(&self) -> A {
        A
    }
    async fn n(&self) -> i32 {
        1
    }
    async fn fail(&self) -> async_graphql::Result<Option<i32>> {
        Err("boom".into())
    }
}

type S = Schema<Query, EmptyMutation, EmptySubscription>;

/// Execute `src`; every error must carry exactly the location of the field token at char offset `off`.
fn check_exec_error(cx: &Cx, st: &Stats, schema: &S, seam: &'static str, src: &str, off: usize, exemplar: &str, used: &[&'static str]) {
    let cs: Vec<char> = src.chars().collect();
    let resp = agv_engine::catch_quiet(|| agv_engine::sched::drive(schema.execute(src)));
    let resp = match resp {
        Ok(Some(r)) => r,
        Ok(None) => {
            cx.machinery_error(format!("execution of {src:?} parked"));
            return;
        }
        Err(p) => {
            cx.violation(Violation::new("panic", format!("execute panicked on {src:?}: {p}"), json!({ "seam": seam, "doc": "executable", "src": src, "field_offset": off })).key("seam", seam));
            return;
        }
    };
    st.error_cases.fetch_add(1, Ordering::Relaxed);
    let exp = spec_pos(&cs, off);
    if resp.errors.is_empty() {
        cx.violation(
            Violation::new("no-error", format!("{seam}: {src:?} produced no error (expected one at {}:{})", exp.0, exp.1), json!({ "seam": seam, "doc": "executable", "src": src, "field_offset": off })).key("seam", seam),
        );
        return;
    }
    for e in &resp.errors {
        if e.locations.len() != 1 {
            cx.violation(
                Violation::new("location-count", format!("{seam}: {src:?}: error {:?} has locations {:?}", e.message, e.locations), json!({ "seam": seam, "doc": "executable", "src": src, "field_offset": off }))
                    .key("seam", seam),
            );
            continue;
        }
        let got = e.locations[0];
        if (got.line, got.column) != exp {
            pos_violation(cx, seam, "Field", Doc::Exec, src, &cs, off, got, exemplar, used);
        } else if src.chars().any(|c| c == '\n' || c == '\r') {
            cx.nontrivial(agv_engine::hstr(src));
        }
    }
}

// ------------------------------------------------------------------ run

fn run_inner(cx: &Cx) {
    let quick = cx.quick();
    cx.rule(
        "case = one rendering of an exemplar (a choice of separator for every token gap and of a variant for every string token, ≤ k non-default), \
         one cut of such a rendering followed by `%`, or one field of a schema document renamed to an unknown / failing field. Non-trivial = a case whose text \
         contains a line terminator or a non-ASCII character and on which every compared position agreed with the reference; counted by source hash.",
    );
    cx.assume("expected positions come from agv-refgql's lexer (1-based; LF, CRLF, lone CR end a line; columns count scalar values), unit-tested there; nodes are matched through the reference parser's pre-order node events, so a node refers to the first token of its production (a field with an alias starts at the alias, a described definition at its description)");
    cx.assume("renderings the crate rejects or parses into a differently shaped tree are grammar matters (C13) and are skipped here, with counts in the evidence");
    cx.assume("which token a syntax error refers to is pest's choice (the last position at which a grammar rule was attempted, e.g. the start of the unfinished argument or type) and is not judged: it is read off the crate's own answer on the single-line ASCII twin of the case, where line 1 / column offset+1 holds under every convention, and the same token's true line and column is demanded of the rendering");
    cx.assume("nested values and operation/fragment names carry no position in the crate's tree");
    let st = Stats {
        compared_nodes: AtomicU64::new(0),
        renderings_compared: AtomicU64::new(0),
        crate_rejects: AtomicU64::new(0),
        structure_differs: AtomicU64::new(0),
        syntax_cases: AtomicU64::new(0),
        syntax_at_earlier_token: AtomicU64::new(0),
        syntax_unmappable: AtomicU64::new(0),
        syntax_other_shape: AtomicU64::new(0),
        error_cases: AtomicU64::new(0),
        error_cases_other_shape: AtomicU64::new(0),
    };

    let mut exs = Vec::new();
    for (id, src) in exemplars::EXEC {
        if !id.starts_with("slip_") {
            exs.extend(exemplar(cx, Doc::Exec, id, src));
        }
    }
    for (id, src) in exemplars::TS {
        if !id.starts_with("slip_") {
            exs.extend(exemplar(cx, Doc::Ts, id, src));
        }
    }

    // (1) node positions
    let mut execs = 0u64;
    let mut bounds_used = serde_json::Map::new();
    for ex in &exs {
        let n = ex.toks.len();
        let bound: u32 = if quick {
            if n > 70 {
                1
            } else {
                2
            }
        } else if n <= 16 {
            3
        } else {
            2
        };
        bounds_used.insert(ex.id.to_string(), json!({ "tokens": n, "non_default_choices": bound }));
        let stats = explore(
            &ExploreCfg::bounds([bound, 0, 0, 0]),
            &|ch: &mut Chooser| {
                let r = render(ex, n, ch);
                let compared = check_ast(cx, &st, ex.doc, &r.src, ex.id, &r.used);
                if compared > 0 && r.src.chars().any(|c| c == '\n' || c == '\r' || !c.is_ascii()) {
                    cx.nontrivial(agv_engine::hstr(&r.src));
                }
                cx.sample_with(agv_engine::hstr(&r.src), || json!({ "seam": "ast", "exemplar": ex.id, "src": r.src, "choices": r.used, "nodes_agreeing": compared }));
            },
            &|_, _| {},
        );
        if let Some(d) = stats.diverged {
            cx.machinery_error(format!("explore diverged on {}: {d}", ex.id));
        }
        execs += stats.executions;
    }
    cx.evals(execs);
    cx.extra("ast_renderings", json!(execs));

    // (2) syntax errors: every cut × ≤ 1 (quick) / 2 (thorough, short exemplars) non-default choices before the cut
    let mut syn = 0u64;
    for ex in &exs {
        let n = ex.toks.len();
        let bound: u32 = if quick || n > 24 { 1 } else { 2 };
        for cut in 0..=n {
            let Some(tw) = twin(ex, cut) else {
                cx.machinery_error(format!("exemplar {} cut {cut}: the ASCII twin gives no usable syntax error", ex.id));
                continue;
            };
            // the text up to and including the gap before token `cut` (for cut == n: the whole document and a space)
            let stats = explore(
                &ExploreCfg::bounds([bound, 0, 0, 0]),
                &|ch: &mut Chooser| {
                    let mut r = render(ex, cut, ch);
                    if cut < n {
                        let g = ch.dev(0, "gap", SEPARATORS.len() + 1);
                        if g == 0 {
                            r.src.push_str(&ex.toks[cut].0);
                        } else {
                            r.src.push_str(SEPARATORS[g - 1].1);
                            r.used.push(SEPARATORS[g - 1].0);
                        }
                        // the twin stands for this rendering only if the crate reads the rendering's tokens as the grammar
                        // does: complete it with the remaining tokens and compare shapes (C13's slips — separators inside
                        // a type or after `on` — fail here and are skipped)
                        let mut full = r.src.clone();
                        for (i, (sep, text, _)) in ex.toks.iter().enumerate().skip(cut) {
                            if i > cut {
                                full.push_str(sep);
                            }
                            full.push_str(text);
                        }
                        if !same_shape(ex.doc, &full) {
                            st.syntax_other_shape.fetch_add(1, Ordering::Relaxed);
                            return;
                        }
                    } else {
                        if !same_shape(ex.doc, &r.src) {
                            st.syntax_other_shape.fetch_add(1, Ordering::Relaxed);
                            return;
                        }
                        r.src.push(' ');
                    }
                    r.src.push('%');
                    check_syntax_error(cx, &st, ex, &r, &tw);
                },
                &|_, _| {},
            );
            if let Some(d) = stats.diverged {
                cx.machinery_error(format!("explore diverged on {} cut {cut}: {d}", ex.id));
            }
            syn += stats.executions;
        }
    }
    cx.evals(syn);
    cx.extra("syntax_error_cases", json!(syn));

    // (2b) the parse functions' own document errors (positions taken from tree nodes)
    const DOCUMENT_ERRORS: [(Doc, &str, &[usize]); 5] = [
        // token indices in the order `Error::positions` documents: most important first
        (Doc::Exec, "{ a } { b }", &[3, 0]),
        (Doc::Exec, "query A { a } query A { b }", &[5, 0]),
        (Doc::Exec, "{ a } fragment F on T { a } fragment F on T { b }", &[10, 3]),
        (Doc::Ts, "schema { query: Q query: R }", &[5, 0]),
        (Doc::Ts, "schema { mutation: M }", &[0]),
    ];
    let mut docerrs = 0u64;
    for (doc, src, at) in DOCUMENT_ERRORS {
        let Some(ex) = exemplar(cx, doc, "document-error", src) else { continue };
        let n = ex.toks.len();
        let stats = explore(
            &ExploreCfg::bounds([if quick { 2 } else { 3 }, 0, 0, 0]),
            &|ch: &mut Chooser| {
                let r = render(&ex, n, ch);
                let err = match doc {
                    Doc::Exec => parse_query(&r.src).err(),
                    Doc::Ts => parse_schema(&r.src).err(),
                };
                let case = json!({ "seam": "document-error", "doc": doc.name(), "src": r.src });
                let Some(err) = err else {
                    cx.violation(Violation::new("no-error", format!("document-error: {:?} accepted", r.src), case).key("seam", "document-error"));
                    return;
                };
                let cs: Vec<char> = r.src.chars().collect();
                let got: Vec<Pos> = err.positions().collect();
                let offs: Vec<usize> = at.iter().map(|i| r.spans[*i].0).collect();
                if matches!(err, async_graphql::parser::Error::Syntax { .. }) || got.len() != offs.len() {
                    // a separator the crate's grammar does not take (C13) turned it into a syntax error
                    st.syntax_other_shape.fetch_add(1, Ordering::Relaxed);
                    return;
                }
                let mut ok = true;
                for (g, o) in got.iter().zip(&offs) {
                    if (g.line, g.column) != spec_pos(&cs, *o) {
                        ok = false;
                        pos_violation(cx, "document-error", "definition", doc, &r.src, &cs, *o, *g, "document-error", &r.used);
                    }
                }
                if ok && r.src.chars().any(|c| c == '\n' || c == '\r') {
                    cx.nontrivial(agv_engine::hstr(&r.src));
                }
            },
            &|_, _| {},
        );
        if let Some(d) = stats.diverged {
            cx.machinery_error(format!("explore diverged on document error {src:?}: {d}"));
        }
        docerrs += stats.executions;
    }
    cx.evals(docerrs);
    cx.extra("document_error_cases", json!(docerrs));

    // (3) validation and execution errors
    let schema: S = Schema::build(Query, EmptyMutation, EmptySubscription).finish();
    let mut errs = 0u64;
    for (id, src) in exemplars::SCHEMA_DOCS {
        let Some(base) = exemplar(cx, Doc::Exec, id, src) else { continue };
        // field-name tokens, from the reference's node events of the plain rendering
        let plain: String = base.toks.iter().map(|(s, t, _)| format!("{s}{t}")).collect();
        let (r, tr) = rp::parse_exec_traced(&plain);
        if r.is_err() {
            cx.machinery_error(format!("schema document {id} is not accepted by the reference"));
            continue;
        }
        let spans = lex::tokenize_spans(&plain).unwrap();
        // (token index of the field name, token index of the field start, has a selection set)
        let mut fields: Vec<(usize, usize, bool)> = Vec::new();
        for (i, e) in tr.events.iter().enumerate() {
            if e.kind == "Field" {
                let name_ev = tr.events[i + 1..].iter().find(|x| x.kind == "FieldName").unwrap();
                let tix = |off: usize| spans.iter().position(|(t, _)| t.off == off).unwrap();
                let name_ix = tix(name_ev.off);
                let has_sel = spans.get(name_ix + 1).map(|(t, _)| t.t == Tok::Punct("{")).unwrap_or(false);
                fields.push((name_ix, tix(e.off), has_sel));
            }
        }
        for (name_ix, start_ix, has_sel) in fields {
            for (seam, new_name) in [("validation-error", "zz"), ("execution-error", "fail")] {
                if seam == "execution-error" && has_sel {
                    continue;
                }
                let mut ex = base.clone();
                ex.toks[name_ix].1 = new_name.to_string();
                let n = ex.toks.len();
                let stats = explore(
                    &ExploreCfg::bounds([if quick { 1 } else { 2 }, 0, 0, 0]),
                    &|ch: &mut Chooser| {
                        let r = render(&ex, n, ch);
                        if !same_shape(Doc::Exec, &r.src) {
                            // e.g. a comment right after `on`: the crate reads another tree (C13)
                            st.error_cases_other_shape.fetch_add(1, Ordering::Relaxed);
                            return;
                        }
                        // offset of the field's first token in this rendering
                        let off = r.spans[start_ix].0;
                        check_exec_error(cx, &st, &schema, seam, &r.src, off, id, &r.used);
                    },
                    &|_, _| {},
                );
                if let Some(d) = stats.diverged {
                    cx.machinery_error(format!("explore diverged on {id}: {d}"));
                }
                errs += stats.executions;
            }
        }
    }
    cx.evals(errs);
    cx.extra("validation_and_execution_error_cases", json!(errs));

    cx.extra(
        "counts",
        json!({
            "exemplars": exs.len(),
            "ast_renderings_compared": st.renderings_compared.load(Ordering::Relaxed),
            "ast_nodes_compared": st.compared_nodes.load(Ordering::Relaxed),
            "renderings_the_crate_rejects_(C13)": st.crate_rejects.load(Ordering::Relaxed),
            "renderings_with_differently_shaped_tree_(C13)": st.structure_differs.load(Ordering::Relaxed),
            "syntax_errors_judged": st.syntax_cases.load(Ordering::Relaxed),
            "syntax_errors_pointing_at_an_earlier_token_(as_on_the_ascii_twin)": st.syntax_at_earlier_token.load(Ordering::Relaxed),
            "syntax_errors_not_mappable_from_the_twin_(skipped)": st.syntax_unmappable.load(Ordering::Relaxed),
            "syntax_error_renderings_with_differently_shaped_tree_(C13,_skipped)": st.syntax_other_shape.load(Ordering::Relaxed),
            "validation_and_execution_errors_judged": st.error_cases.load(Ordering::Relaxed),
            "validation_and_execution_renderings_with_differently_shaped_tree_(C13)": st.error_cases_other_shape.load(Ordering::Relaxed),
        }),
    );
    {
        let h = HISTOGRAM.lock().unwrap();
        cx.extra("discrepancy_histogram", J::Array(h.iter().map(|(k, (n, ex))| json!({ "seam_and_convention": k, "cases": n, "smallest": ex })).collect()));
        if std::env::var("C14_DUMP").is_ok() {
            for (k, (n, ex)) in h.iter() {
                eprintln!("{n:>9}  {k}   e.g. {ex:?}");
            }
        }
    }
    cx.extra("bounds_completed", J::Object(bounds_used));
    cx.exhaustive(true);
}

pub fn run(cx: &Cx) {
    let pool = rayon::ThreadPoolBuilder::new().stack_size(32 << 20).build().expect("thread pool");
    pool.install(|| run_inner(cx));
}

pub fn replay(case: &J) -> String {
    let src = case["src"].as_str().unwrap_or("").to_string();
    let doc = if case["doc"].as_str() == Some("type-system") { Doc::Ts } else { Doc::Exec };
    let seam = case["seam"].as_str().unwrap_or("ast").to_string();
    let cs: Vec<char> = src.chars().collect();
    let mut out = format!("{seam} {} {src:?}\n", doc.name());
    match seam.as_str() {
        "ast" => {
            let got = match doc {
                Doc::Exec => parse_query(&src).ok().map(|d| crate_exec_events(&d)),
                Doc::Ts => parse_schema(&src).ok().map(|d| crate_ts_events(&d)),
            };
            let refs = ref_events(doc, &src);
            match (refs, got) {
                (Some(r), Some(g)) => {
                    for ((k, a), (_, b)) in r.iter().zip(&g) {
                        for (x, y) in a.iter().zip(b) {
                            let mark = if (x.pos.line as usize, x.pos.col as usize) == (y.1.line, y.1.column) { "  " } else { "!!" };
                            out.push_str(&format!("{mark} {k} {:<14} expected {}:{}  reported {}:{}\n", x.kind, x.pos.line, x.pos.col, y.1.line, y.1.column));
                        }
                    }
                }
                (r, g) => out.push_str(&format!("reference accepts: {}, crate accepts: {}\n", r.is_some(), g.is_some())),
            }
        }
        "parse-error" => {
            let err = match doc {
                Doc::Exec => parse_query(&src).err(),
                Doc::Ts => parse_schema(&src).err(),
            };
            let exp = spec_pos(&cs, cs.len().saturating_sub(1));
            out.push_str(&format!("offending character at {}:{}; reported {:?}\n", exp.0, exp.1, err.map(|e| e.positions().collect::<Vec<_>>())));
        }
        _ => {
            let schema: S = Schema::build(Query, EmptyMutation, EmptySubscription).finish();
            let off = case["field_offset"].as_u64().unwrap_or(0) as usize;
            let exp = spec_pos(&cs, off);
            let resp = agv_engine::sched::drive(schema.execute(src.as_str()));
            out.push_str(&format!(
                "field at {}:{}; errors: {:?}\n",
                exp.0,
                exp.1,
                resp.map(|r| r.errors.iter().map(|e| (e.message.clone(), e.locations.clone())).collect::<Vec<_>>())
            ));
        }
    }
    out
}

fn main() {
    agv_engine::driver::main("C14", "exploration", run, Some(replay))
}
