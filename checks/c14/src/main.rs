//! C14 — reported source positions are exact line and column numbers.
//!
//! Seams: `Positioned<T>.pos` of every node of the trees returned by
//! `parse_query` / `parse_schema`; the positions of `async_graphql_parser::Error`
//! and of the `ServerError` made from it; `ServerError.locations` of validation
//! errors (unknown field) and execution errors (failing resolver) of a tiny
//! derive schema run with `agv_engine::sched::drive`.
//!
//! Space: the exemplar documents of C13(c) re-rendered with every assignment of
//! separators {LF, CRLF, CR, two spaces/space, tab, comma, BOM, `#c`+LF, `#c`+CR,
//! `#c`+CRLF} to token gaps and of non-ASCII / multi-line variants to string
//! tokens, at most 2 (quick) / 3 (thorough, short exemplars) non-default choices
//! per rendering (`agv_engine::explore`, deviation class 0); for syntax errors
//! every cut of those renderings at a token boundary followed by `%`; for
//! validation / execution errors every field node of three schema documents
//! renamed to an unknown / a failing field.
//! Oracle: the reference lexer's 1-based (line, column) — LF, CRLF and a lone CR
//! each end a line, columns count Unicode scalar values — of the token the node
//! starts at (nodes matched structurally through the reference parser's node
//! events) or of the offending character.

#[path = "../../c13/src/exemplars.rs"]
mod exemplars;

use agv_engine::explore::{explore, Chooser, ExploreCfg};
use agv_engine::record::{Cx, Violation};
use agv_refgql::ast as ra;
use agv_refgql::lex::{self, Tok};
use agv_refgql::parse::{self as rp, Event};
use async_graphql::parser::types as ct;
use async_graphql::parser::{parse_query, parse_schema, Pos, Positioned};
use async_graphql::{EmptyMutation, EmptySubscription, Object, Schema, ServerError};
use serde_json::{json, Value as J};
use std::sync::atomic::{AtomicU64, Ordering};

#[derive(Clone, Copy, PartialEq, Eq, Debug)]
enum Doc {
    Exec,
    Ts,
}
impl Doc {
    fn name(self) -> &'static str {
        match self {
            Doc::Exec => "executable",
            Doc::Ts => "type-system",
        }
    }
}

/// Alternatives for a token gap; index 0 (not listed) is the exemplar's own separator.
const SEPARATORS: [(&str, &str); 10] =
    [("lf", "\n"), ("crlf", "\r\n"), ("cr", "\r"), ("spaces", "  "), ("tab", "\t"), ("comma", ","), ("bom", "\u{feff}"), ("comment-lf", "#c\n"), ("comment-cr", "#c\r"), ("comment-crlf", "#c\r\n")];
/// Alternatives for a quoted string token / a block string token.
const STRING_VARIANTS: [(&str, &str); 2] = [("string-with-e-acute", "\"é\""), ("string-with-emoji", "\"😀\"")];
const BLOCK_VARIANTS: [(&str, &str); 4] =
    [("block-with-non-ascii", "\"\"\"é😀\"\"\""), ("block-with-lf", "\"\"\"a\nb\"\"\""), ("block-with-cr", "\"\"\"a\rb\"\"\""), ("block-with-crlf", "\"\"\"a\r\nb\"\"\"")];

// ------------------------------------------------------------------ position conventions (diagnosis only)

fn spec_pos(cs: &[char], off: usize) -> (usize, usize) {
    let (mut l, mut c) = (1, 1);
    let mut i = 0;
    while i < off && i < cs.len() {
        match cs[i] {
            '\n' => {
                l += 1;
                c = 1;
            }
            '\r' => {
                if cs.get(i + 1) == Some(&'\n') && i + 1 < off {
                    i += 1;
                }
                l += 1;
                c = 1;
            }
            _ => c += 1,
        }
        i += 1;
    }
    (l, c)
}

/// Name of the convention under which `got` is the position of char offset `off`, if any.
fn convention(cs: &[char], off: usize, got: (usize, usize)) -> &'static str {
    let upto = &cs[..off.min(cs.len())];
    // PositionCalculator::step as it stands: CR only resets the column
    let (mut l, mut c) = (1usize, 1usize);
    for ch in upto {
        match ch {
            '\r' => c = 1,
            '\n' => {
                l += 1;
                c = 1;
            }
            _ => c += 1,
        }
    }
    if (l, c) == got {
        return "lone-cr-resets-column-only";
    }
    // pest's Position::line_col: CRLF and LF end a line, a lone CR is an ordinary column
    let (mut l, mut c) = (1usize, 1usize);
    let mut i = 0;
    while i < upto.len() {
        match upto[i] {
            '\r' if upto.get(i + 1) == Some(&'\n') => {
                i += 1;
                l += 1;
                c = 1;
            }
            '\n' => {
                l += 1;
                c = 1;
            }
            _ => c += 1,
        }
        i += 1;
    }
    if (l, c) == got {
        return "lone-cr-is-a-column";
    }
    // spec lines, other column units
    let (sl, _) = spec_pos(cs, off);
    let line_start = (0..off.min(cs.len())).rev().find(|i| cs[*i] == '\n' || cs[*i] == '\r').map(|i| i + 1).unwrap_or(0);
    let seg = &cs[line_start..off.min(cs.len())];
    if got == (sl, 1 + seg.iter().map(|c| c.len_utf16()).sum::<usize>()) {
        return "columns-in-utf16-units";
    }
    if got == (sl, 1 + seg.iter().map(|c| c.len_utf8()).sum::<usize>()) {
        return "columns-in-bytes";
    }
    if got.0 == sl {
        return "other-column";
    }
    "other-line"
}

// ------------------------------------------------------------------ node events of the crate's trees

type Ev = (&'static str, Pos);

fn dirs(out: &mut Vec<Ev>, ds: &[Positioned<ct::Directive>]) {
    for d in ds {
        out.push(("Directive", d.pos));
        out.push(("DirName", d.node.name.pos));
        for (k, v) in &d.node.arguments {
            out.push(("ArgName", k.pos));
            out.push(("Value", v.pos));
        }
    }
}

fn const_dirs(out: &mut Vec<Ev>, ds: &[Positioned<ct::ConstDirective>]) {
    for d in ds {
        out.push(("Directive", d.pos));
        out.push(("DirName", d.node.name.pos));
        for (k, v) in &d.node.arguments {
            out.push(("ArgName", k.pos));
            out.push(("Value", v.pos));
        }
    }
}

fn selset(out: &mut Vec<Ev>, s: &Positioned<ct::SelectionSet>) {
    out.push(("SelectionSet", s.pos));
    for it in &s.node.items {
        out.push(("Selection", it.pos));
        match &it.node {
            ct::Selection::Field(f) => {
                out.push(("Field", f.pos));
                if let Some(a) = &f.node.alias {
                    out.push(("Alias", a.pos));
                }
                out.push(("FieldName", f.node.name.pos));
                for (k, v) in &f.node.arguments {
                    out.push(("ArgName", k.pos));
                    out.push(("Value", v.pos));
                }
                dirs(out, &f.node.directives);
                if !f.node.selection_set.node.items.is_empty() {
                    selset(out, &f.node.selection_set);
                }
            }
            ct::Selection::FragmentSpread(s) => {
                out.push(("Spread", s.pos));
                out.push(("SpreadName", s.node.fragment_name.pos));
                dirs(out, &s.node.directives);
            }
            ct::Selection::InlineFragment(i) => {
                out.push(("Inline", i.pos));
                if let Some(tc) = &i.node.type_condition {
                    out.push(("TypeCondition", tc.pos));
                    out.push(("CondName", tc.node.on.pos));
                }
                dirs(out, &i.node.directives);
                selset(out, &i.node.selection_set);
            }
        }
    }
}

fn op_events(op: &Positioned<ct::OperationDefinition>) -> Vec<Ev> {
    let mut out = vec![("Operation", op.pos)];
    for v in &op.node.variable_definitions {
        out.push(("VarDef", v.pos));
        out.push(("VarName", v.node.name.pos));
        out.push(("Type", v.node.var_type.pos));
        if let Some(d) = &v.node.default_value {
            out.push(("Value", d.pos));
        }
        dirs(&mut out, &v.node.directives);
    }
    dirs(&mut out, &op.node.directives);
    selset(&mut out, &op.node.selection_set);
    out
}

/// Per definition, keyed `op:<name>` / `frag:<name>` (the tree keeps no definition order).
fn crate_exec_events(d: &ct::ExecutableDocument) -> Vec<(String, Vec<Ev>)> {
    let mut v = Vec::new();
    match &d.operations {
        ct::DocumentOperations::Single(op) => v.push(("op:".to_string(), op_events(op))),
        ct::DocumentOperations::Multiple(m) => {
            for (n, op) in m {
                v.push((format!("op:{n}"), op_events(op)));
            }
        }
    }
    for (n, f) in &d.fragments {
        let mut out = vec![("Fragment", f.pos), ("TypeCondition", f.node.type_condition.pos), ("CondName", f.node.type_condition.node.on.pos)];
        dirs(&mut out, &f.node.directives);
        selset(&mut out, &f.node.selection_set);
        v.push((format!("frag:{n}"), out));
    }
    v.sort_by(|a, b| a.0.cmp(&b.0));
    v
}

fn ivd(out: &mut Vec<Ev>, a: &Positioned<ct::InputValueDefinition>) {
    out.push(("InputValueDef", a.pos));
    if let Some(d) = &a.node.description {
        out.push(("Description", d.pos));
    }
    out.push(("Name", a.node.name.pos));
    out.push(("Type", a.node.ty.pos));
    if let Some(d) = &a.node.default_value {
        out.push(("Value", d.pos));
    }
    const_dirs(out, &a.node.directives);
}

fn field_defs(out: &mut Vec<Ev>, fs: &[Positioned<ct::FieldDefinition>]) {
    for f in fs {
        out.push(("FieldDef", f.pos));
        if let Some(d) = &f.node.description {
            out.push(("Description", d.pos));
        }
        out.push(("Name", f.node.name.pos));
        for a in &f.node.arguments {
            ivd(out, a);
        }
        out.push(("Type", f.node.ty.pos));
        const_dirs(out, &f.node.directives);
    }
}

fn crate_ts_events(d: &ct::ServiceDocument) -> Vec<(String, Vec<Ev>)> {
    let mut v = Vec::new();
    for (i, def) in d.definitions.iter().enumerate() {
        let mut out = Vec::new();
        match def {
            ct::TypeSystemDefinition::Schema(s) => {
                out.push(("SchemaDef", s.pos));
                const_dirs(&mut out, &s.node.directives);
                for n in [&s.node.query, &s.node.mutation, &s.node.subscription].into_iter().flatten() {
                    out.push(("RootType", n.pos));
                }
            }
            ct::TypeSystemDefinition::Type(t) => {
                out.push(("TypeDef", t.pos));
                if let Some(d) = &t.node.description {
                    out.push(("Description", d.pos));
                }
                out.push(("Name", t.node.name.pos));
                match &t.node.kind {
                    ct::TypeKind::Scalar => const_dirs(&mut out, &t.node.directives),
                    ct::TypeKind::Object(o) => {
                        for n in &o.implements {
                            out.push(("ImplName", n.pos));
                        }
                        const_dirs(&mut out, &t.node.directives);
                        field_defs(&mut out, &o.fields);
                    }
                    ct::TypeKind::Interface(o) => {
                        for n in &o.implements {
                            out.push(("ImplName", n.pos));
                        }
                        const_dirs(&mut out, &t.node.directives);
                        field_defs(&mut out, &o.fields);
                    }
                    ct::TypeKind::Union(u) => {
                        const_dirs(&mut out, &t.node.directives);
                        for n in &u.members {
                            out.push(("MemberName", n.pos));
                        }
                    }
                    ct::TypeKind::Enum(e) => {
                        const_dirs(&mut out, &t.node.directives);
                        for val in &e.values {
                            out.push(("EnumValueDef", val.pos));
                            if let Some(d) = &val.node.description {
                                out.push(("Description", d.pos));
                            }
                            out.push(("EnumValueName", val.node.value.pos));
                            const_dirs(&mut out, &val.node.directives);
                        }
                    }
                    ct::TypeKind::InputObject(io) => {
                        const_dirs(&mut out, &t.node.directives);
                        for f in &io.fields {
                            ivd(&mut out, f);
                        }
                    }
                }
            }
            ct::TypeSystemDefinition::Directive(dd) => {
                out.push(("DirectiveDef", dd.pos));
                if let Some(d) = &dd.node.description {
                    out.push(("Description", d.pos));
                }
                out.push(("Name", dd.node.name.pos));
                for a in &dd.node.arguments {
                    ivd(&mut out, a);
                }
                for l in &dd.node.locations {
                    out.push(("Location", l.pos));
                }
            }
        }
        v.push((format!("def:{i:04}"), out));
    }
    v
}

// ------------------------------------------------------------------ node events of the reference

/// Reference events per definition, in the crate's arrangement (same keys, kinds the crate's tree has no
/// node for dropped, schema roots in query/mutation/subscription order). Each event keeps its char offset.
fn ref_events(doc: Doc, src: &str) -> Option<Vec<(String, Vec<Event>)>> {
    match doc {
        Doc::Exec => {
            let (r, t) = rp::parse_exec_traced(src);
            let d = r.ok()?;
            let mut chunks: Vec<Vec<Event>> = Vec::new();
            for e in t.events {
                if e.kind == "Operation" || e.kind == "Fragment" {
                    chunks.push(Vec::new());
                }
                if e.kind != "OpName" && e.kind != "FragName" {
                    chunks.last_mut()?.push(e);
                }
            }
            if chunks.len() != d.defs.len() {
                return None;
            }
            let mut v: Vec<(String, Vec<Event>)> = d
                .defs
                .iter()
                .zip(chunks)
                .map(|(def, c)| {
                    let key = match def {
                        ra::ExecDef::Op(o) => format!("op:{}", o.name.as_ref().map(|n| n.s.as_str()).unwrap_or("")),
                        ra::ExecDef::Frag(f) => format!("frag:{}", f.name.s),
                    };
                    (key, c)
                })
                .collect();
            v.sort_by(|a, b| a.0.cmp(&b.0));
            Some(v)
        }
        Doc::Ts => {
            let (r, t) = rp::parse_ts_traced(src);
            let d = r.ok()?;
            let mut chunks: Vec<Vec<Event>> = Vec::new();
            for e in t.events {
                if matches!(e.kind, "SchemaDef" | "TypeDef" | "DirectiveDef") {
                    chunks.push(Vec::new());
                }
                if e.kind != "RootKind" {
                    chunks.last_mut()?.push(e);
                }
            }
            if chunks.len() != d.defs.len() {
                return None;
            }
            let mut out = Vec::new();
            for (i, (def, mut c)) in d.defs.iter().zip(chunks).enumerate() {
                if let ra::TsDef::Schema(s) = def {
                    // the crate stores the three roots in fixed order
                    let roots: Vec<Event> = c.iter().filter(|e| e.kind == "RootType").cloned().collect();
                    c.retain(|e| e.kind != "RootType");
                    let mut keyed: Vec<(u8, Event)> = s
                        .roots
                        .iter()
                        .zip(roots)
                        .map(|((k, _), e)| {
                            (
                                match k {
                                    ra::OpKind::Query => 0,
                                    ra::OpKind::Mutation => 1,
                                    ra::OpKind::Subscription => 2,
                                },
                                e,
                            )
                        })
                        .collect();
                    keyed.sort_by_key(|x| x.0);
                    c.extend(keyed.into_iter().map(|x| x.1));
                }
                out.push((format!("def:{i:04}"), c));
            }
            Some(out)
        }
    }
}

// ------------------------------------------------------------------ exemplars as token lists

#[derive(Clone)]
struct Exemplar {
    id: &'static str,
    doc: Doc,
    /// (original separator before the token, token text, string kind: 0 none, 1 quoted, 2 block)
    toks: Vec<(String, String, u8)>,
}

fn exemplar(cx: &Cx, doc: Doc, id: &'static str, src: &str) -> Option<Exemplar> {
    let cs: Vec<char> = src.chars().collect();
    let spans = match lex::tokenize_spans(src) {
        Ok(s) => s,
        Err(e) => {
            cx.machinery_error(format!("exemplar {id} does not lex: {e:?}"));
            return None;
        }
    };
    let mut toks = Vec::new();
    let mut prev = 0;
    for (t, end) in spans {
        if t.t == Tok::Eof {
            break;
        }
        let sep: String = cs[prev..t.off].iter().collect();
        let kind = match t.t {
            Tok::Str(_) => 1,
            Tok::BlockStr(_) => 2,
            _ => 0,
        };
        toks.push((sep, cs[t.off..end].iter().collect(), kind));
        prev = end;
    }
    Some(Exemplar { id, doc, toks })
}

/// Render tokens `0..upto` with the chooser's assignment; returns (text, labels of the non-default choices).
fn render(ex: &Exemplar, upto: usize, ch: &mut Chooser) -> (String, Vec<&'static str>) {
    let mut s = String::new();
    let mut used = Vec::new();
    for (i, (sep, text, kind)) in ex.toks.iter().enumerate().take(upto) {
        let g = ch.dev(0, "gap", SEPARATORS.len() + 1);
        if g == 0 {
            s.push_str(sep);
        } else {
            // a separator equal to the original one would repeat the default case: use the doubled form
            let (name, t) = SEPARATORS[g - 1];
            s.push_str(t);
            used.push(name);
        }
        let _ = i;
        match kind {
            1 => {
                let v = ch.dev(0, "string", STRING_VARIANTS.len() + 1);
                if v == 0 {
                    s.push_str(text);
                } else {
                    s.push_str(STRING_VARIANTS[v - 1].1);
                    used.push(STRING_VARIANTS[v - 1].0);
                }
            }
            2 => {
                let v = ch.dev(0, "block", BLOCK_VARIANTS.len() + 1);
                if v == 0 {
                    s.push_str(text);
                } else {
                    s.push_str(BLOCK_VARIANTS[v - 1].1);
                    used.push(BLOCK_VARIANTS[v - 1].0);
                }
            }
            _ => s.push_str(text),
        }
    }
    (s, used)
}

struct Stats {
    compared_nodes: AtomicU64,
    renderings_compared: AtomicU64,
    crate_rejects: AtomicU64,
    structure_differs: AtomicU64,
    syntax_cases: AtomicU64,
    syntax_at_enclosing_type: AtomicU64,
    error_cases: AtomicU64,
}

fn pos_violation(cx: &Cx, seam: &str, node: &str, doc: Doc, src: &str, cs: &[char], off: usize, got: Pos, exemplar: &str, used: &[&'static str]) {
    let exp = spec_pos(cs, off);
    let conv = convention(cs, off, (got.line, got.column));
    cx.violation(
        Violation::new(
            "wrong-position",
            format!(
                "{seam}: {} node `{node}` of {src:?} starts at char offset {off} = line {}, column {}; reported {}:{} [{conv}]",
                doc.name(),
                exp.0,
                exp.1,
                got.line,
                got.column
            ),
            json!({ "seam": seam, "doc": doc.name(), "src": src }),
        )
        .key("seam", seam)
        .key("convention", conv)
        .key("node", node)
        .key("exemplar", exemplar)
        .key("separators", used.join("+")),
    );
}

/// Compare every node position of one rendering. Returns the number of nodes compared.
fn check_ast(cx: &Cx, st: &Stats, doc: Doc, src: &str, exemplar: &str, used: &[&'static str]) -> u64 {
    let Some(refs) = ref_events(doc, src) else { return 0 };
    let got = agv_engine::catch_quiet(|| match doc {
        Doc::Exec => parse_query(src).ok().map(|d| crate_exec_events(&d)),
        Doc::Ts => parse_schema(src).ok().map(|d| crate_ts_events(&d)),
    });
    let got = match got {
        Err(p) => {
            cx.violation(Violation::new("panic", format!("parser panicked on {src:?}: {p}"), json!({ "seam": "ast", "doc": doc.name(), "src": src })).key("seam", "ast"));
            return 0;
        }
        Ok(None) => {
            // the reference accepts, the crate does not: a grammar matter (C13), nothing to compare here
            st.crate_rejects.fetch_add(1, Ordering::Relaxed);
            return 0;
        }
        Ok(Some(g)) => g,
    };
    let same_shape = refs.len() == got.len() && refs.iter().zip(&got).all(|(a, b)| a.0 == b.0 && a.1.len() == b.1.len() && a.1.iter().zip(&b.1).all(|(x, y)| x.kind == y.0));
    if !same_shape {
        // the two trees differ in structure: again C13's business
        st.structure_differs.fetch_add(1, Ordering::Relaxed);
        return 0;
    }
    let cs: Vec<char> = src.chars().collect();
    let mut n = 0;
    for ((_, a), (_, b)) in refs.iter().zip(&got) {
        for (x, y) in a.iter().zip(b) {
            n += 1;
            if (x.pos.line as usize, x.pos.col as usize) != (y.1.line, y.1.column) {
                pos_violation(cx, "ast", x.kind, doc, src, &cs, x.off, y.1, exemplar, used);
            }
        }
    }
    st.compared_nodes.fetch_add(n, Ordering::Relaxed);
    st.renderings_compared.fetch_add(1, Ordering::Relaxed);
    n
}

/// `prefix` + `%`: the parser's error must point at the `%` (or, inside a list type, which the crate lexes as
/// one atomic token, at the start of that type).
fn check_syntax_error(cx: &Cx, st: &Stats, doc: Doc, prefix: &str, exemplar: &str, used: &[&'static str]) {
    let src = format!("{prefix}%");
    let cs: Vec<char> = src.chars().collect();
    let off = cs.len() - 1;
    let err = agv_engine::catch_quiet(|| match doc {
        Doc::Exec => parse_query(&src).err(),
        Doc::Ts => parse_schema(&src).err(),
    });
    let err = match err {
        Err(p) => {
            cx.violation(Violation::new("panic", format!("parser panicked on {src:?}: {p}"), json!({ "seam": "parse-error", "doc": doc.name(), "src": src })).key("seam", "parse-error"));
            return;
        }
        Ok(None) => {
            cx.violation(Violation::new("accepts-illegal-character", format!("{src:?} accepted"), json!({ "seam": "parse-error", "doc": doc.name(), "src": src })).key("seam", "parse-error"));
            return;
        }
        Ok(Some(e)) => e,
    };
    st.syntax_cases.fetch_add(1, Ordering::Relaxed);
    let direct: Vec<Pos> = err.positions().collect();
    let server: ServerError = err.into();
    if server.locations != direct {
        cx.violation(
            Violation::new("server-error-locations-differ", format!("{src:?}: parser error positions {direct:?}, ServerError.locations {:?}", server.locations), json!({ "seam": "parse-error", "doc": doc.name(), "src": src }))
                .key("seam", "parse-error"),
        );
    }
    let Some(got) = direct.first().copied() else {
        cx.violation(Violation::new("no-position", format!("{src:?}: syntax error without a position"), json!({ "seam": "parse-error", "doc": doc.name(), "src": src })).key("seam", "parse-error"));
        return;
    };
    let exp = spec_pos(&cs, off);
    if (got.line, got.column) == exp {
        return;
    }
    // inside a type the crate's grammar fails at the start of the (atomic) type
    let (_, tr) = match doc {
        Doc::Exec => {
            let (r, t) = rp::parse_exec_traced(&src);
            (r.is_ok(), t)
        }
        Doc::Ts => {
            let (r, t) = rp::parse_ts_traced(&src);
            (r.is_ok(), t)
        }
    };
    if tr.failed_in.contains(&"Type") {
        if let Some(e) = tr.events.iter().rev().find(|e| e.kind == "Type") {
            if (got.line, got.column) == spec_pos(&cs, e.off) {
                st.syntax_at_enclosing_type.fetch_add(1, Ordering::Relaxed);
                return;
            }
            if convention(&cs, e.off, (got.line, got.column)) == "lone-cr-is-a-column" {
                pos_violation(cx, "parse-error", "Type", doc, &src, &cs, e.off, got, exemplar, used);
                return;
            }
        }
    }
    pos_violation(cx, "parse-error", "illegal-character", doc, &src, &cs, off, got, exemplar, used);
}

// ------------------------------------------------------------------ validation / execution errors

struct Query;
struct A;
#[Object]
impl Query {
    async fn a(&self) -> A {
        A
    }
    async fn n(&self) -> i32 {
        1
    }
    async fn fail(&self) -> async_graphql::Result<Option<i32>> {
        Err("boom".into())
    }
}
#[Object]
impl A {
    async fn a(&self) -> A {
        A
    }
    async fn n(&self) -> i32 {
        1
    }
    async fn fail(&self) -> async_graphql::Result<Option<i32>> {
        Err("boom".into())
    }
}

type S = Schema<Query, EmptyMutation, EmptySubscription>;

/// Execute `src`; every error must carry exactly the location of the field token at char offset `off`.
fn check_exec_error(cx: &Cx, st: &Stats, schema: &S, seam: &'static str, src: &str, off: usize, exemplar: &str, used: &[&'static str]) {
    let cs: Vec<char> = src.chars().collect();
    let resp = agv_engine::catch_quiet(|| agv_engine::sched::drive(schema.execute(src)));
    let resp = match resp {
        Ok(Some(r)) => r,
        Ok(None) => {
            cx.machinery_error(format!("execution of {src:?} parked"));
            return;
        }
        Err(p) => {
            cx.violation(Violation::new("panic", format!("execute panicked on {src:?}: {p}"), json!({ "seam": seam, "doc": "executable", "src": src, "field_offset": off })).key("seam", seam));
            return;
        }
    };
    st.error_cases.fetch_add(1, Ordering::Relaxed);
    let exp = spec_pos(&cs, off);
    if resp.errors.is_empty() {
        cx.violation(
            Violation::new("no-error", format!("{seam}: {src:?} produced no error (expected one at {}:{})", exp.0, exp.1), json!({ "seam": seam, "doc": "executable", "src": src, "field_offset": off })).key("seam", seam),
        );
        return;
    }
    for e in &resp.errors {
        if e.locations.len() != 1 {
            cx.violation(
                Violation::new("location-count", format!("{seam}: {src:?}: error {:?} has locations {:?}", e.message, e.locations), json!({ "seam": seam, "doc": "executable", "src": src, "field_offset": off }))
                    .key("seam", seam),
            );
            continue;
        }
        let got = e.locations[0];
        if (got.line, got.column) != exp {
            pos_violation(cx, seam, "Field", Doc::Exec, src, &cs, off, got, exemplar, used);
        }
    }
}

// ------------------------------------------------------------------ run

fn run_inner(cx: &Cx) {
    let quick = cx.quick();
    cx.rule(
        "case = one rendering of an exemplar (a choice of separator for every token gap and of a variant for every string token, ≤ k non-default), \
         one cut of such a rendering followed by `%`, or one field of a schema document renamed to an unknown / failing field. Non-trivial = a rendering \
         containing a line terminator or a non-ASCII character before at least one compared node on which all compared positions agreed; counted by source hash.",
    );
    cx.assume("expected positions come from agv-refgql's lexer (1-based; LF, CRLF, lone CR end a line; columns count scalar values), unit-tested there; nodes are matched through the reference parser's pre-order node events, so a node refers to the first token of its production (a field with an alias starts at the alias, a described definition at its description)");
    cx.assume("renderings the crate rejects or parses into a differently shaped tree are grammar matters (C13) and are skipped here, with counts in the evidence");
    cx.assume("a syntax error inside a list type may point at the start of that type (the crate's grammar lexes a type as one atomic token); nested values and operation/fragment names carry no position in the crate's tree");
    let st = Stats {
        compared_nodes: AtomicU64::new(0),
        renderings_compared: AtomicU64::new(0),
        crate_rejects: AtomicU64::new(0),
        structure_differs: AtomicU64::new(0),
        syntax_cases: AtomicU64::new(0),
        syntax_at_enclosing_type: AtomicU64::new(0),
        error_cases: AtomicU64::new(0),
    };

    let mut exs = Vec::new();
    for (id, src) in exemplars::EXEC {
        if !id.starts_with("slip_") {
            exs.extend(exemplar(cx, Doc::Exec, id, src));
        }
    }
    for (id, src) in exemplars::TS {
        if !id.starts_with("slip_") {
            exs.extend(exemplar(cx, Doc::Ts, id, src));
        }
    }

    // (1) node positions
    let mut execs = 0u64;
    let mut bounds_used = serde_json::Map::new();
    for ex in &exs {
        let n = ex.toks.len();
        let bound: u32 = if quick {
            if n > 70 {
                1
            } else {
                2
            }
        } else if n <= 16 {
            3
        } else {
            2
        };
        bounds_used.insert(ex.id.to_string(), json!({ "tokens": n, "non_default_choices": bound }));
        let stats = explore(
            &ExploreCfg::bounds([bound, 0, 0, 0]),
            &|ch: &mut Chooser| {
                let (src, used) = render(ex, n, ch);
                let compared = check_ast(cx, &st, ex.doc, &src, ex.id, &used);
                if compared > 0 && src.chars().any(|c| c == '\n' || c == '\r' || !c.is_ascii()) {
                    cx.nontrivial(agv_engine::hstr(&src));
                }
                cx.sample_with(agv_engine::hstr(&src), || json!({ "seam": "ast", "exemplar": ex.id, "src": src, "choices": used, "nodes_compared": compared }));
            },
            &|_, _| {},
        );
        if let Some(d) = stats.diverged {
            cx.machinery_error(format!("explore diverged on {}: {d}", ex.id));
        }
        execs += stats.executions;
    }
    cx.evals(execs);
    cx.extra("ast_renderings", json!(execs));

    // (2) syntax errors: every cut × ≤ 1 (quick) / 2 (thorough, short exemplars) non-default choices before the cut
    let mut syn = 0u64;
    for ex in &exs {
        let n = ex.toks.len();
        let bound: u32 = if quick || n > 24 { 1 } else { 2 };
        for cut in 0..=n {
            // the text up to and including the gap before token `cut` (for cut == n: the whole document and a space)
            let stats = explore(
                &ExploreCfg::bounds([bound, 0, 0, 0]),
                &|ch: &mut Chooser| {
                    let (mut src, mut used) = render(ex, cut, ch);
                    if cut < n {
                        let g = ch.dev(0, "gap", SEPARATORS.len() + 1);
                        if g == 0 {
                            src.push_str(&ex.toks[cut].0);
                        } else {
                            src.push_str(SEPARATORS[g - 1].1);
                            used.push(SEPARATORS[g - 1].0);
                        }
                    } else {
                        src.push(' ');
                    }
                    check_syntax_error(cx, &st, ex.doc, &src, ex.id, &used);
                },
                &|_, _| {},
            );
            if let Some(d) = stats.diverged {
                cx.machinery_error(format!("explore diverged on {} cut {cut}: {d}", ex.id));
            }
            syn += stats.executions;
        }
    }
    cx.evals(syn);
    cx.extra("syntax_error_cases", json!(syn));

    // (3) validation and execution errors
    let schema: S = Schema::build(Query, EmptyMutation, EmptySubscription).finish();
    let mut errs = 0u64;
    for (id, src) in exemplars::SCHEMA_DOCS {
        let Some(base) = exemplar(cx, Doc::Exec, id, src) else { continue };
        // field-name tokens, from the reference's node events of the plain rendering
        let plain: String = base.toks.iter().map(|(s, t, _)| format!("{s}{t}")).collect();
        let (r, tr) = rp::parse_exec_traced(&plain);
        if r.is_err() {
            cx.machinery_error(format!("schema document {id} is not accepted by the reference"));
            continue;
        }
        let spans = lex::tokenize_spans(&plain).unwrap();
        // (token index of the field name, token index of the field start, has a selection set)
        let mut fields: Vec<(usize, usize, bool)> = Vec::new();
        for (i, e) in tr.events.iter().enumerate() {
            if e.kind == "Field" {
                let name_ev = tr.events[i + 1..].iter().find(|x| x.kind == "FieldName").unwrap();
                let tix = |off: usize| spans.iter().position(|(t, _)| t.off == off).unwrap();
                let name_ix = tix(name_ev.off);
                let has_sel = spans.get(name_ix + 1).map(|(t, _)| t.t == Tok::Punct("{")).unwrap_or(false);
                fields.push((name_ix, tix(e.off), has_sel));
            }
        }
        for (name_ix, start_ix, has_sel) in fields {
            for (seam, new_name) in [("validation-error", "zz"), ("execution-error", "fail")] {
                if seam == "execution-error" && has_sel {
                    continue;
                }
                let mut ex = base.clone();
                ex.toks[name_ix].1 = new_name.to_string();
                let n = ex.toks.len();
                let stats = explore(
                    &ExploreCfg::bounds([if quick { 2 } else { 3 }, 0, 0, 0]),
                    &|ch: &mut Chooser| {
                        let (src, used) = render(&ex, n, ch);
                        // offset of the field's first token in this rendering
                        let Ok(sp) = lex::tokenize_spans(&src) else { return };
                        let off = sp[start_ix].0.off;
                        check_exec_error(cx, &st, &schema, seam, &src, off, id, &used);
                        if src.chars().any(|c| c == '\n' || c == '\r') {
                            cx.nontrivial(agv_engine::hstr(&src));
                        }
                    },
                    &|_, _| {},
                );
                if let Some(d) = stats.diverged {
                    cx.machinery_error(format!("explore diverged on {id}: {d}"));
                }
                errs += stats.executions;
            }
        }
    }
    cx.evals(errs);
    cx.extra("validation_and_execution_error_cases", json!(errs));

    cx.extra(
        "counts",
        json!({
            "exemplars": exs.len(),
            "ast_renderings_compared": st.renderings_compared.load(Ordering::Relaxed),
            "ast_nodes_compared": st.compared_nodes.load(Ordering::Relaxed),
            "renderings_the_crate_rejects_(C13)": st.crate_rejects.load(Ordering::Relaxed),
            "renderings_with_differently_shaped_tree_(C13)": st.structure_differs.load(Ordering::Relaxed),
            "syntax_errors_judged": st.syntax_cases.load(Ordering::Relaxed),
            "syntax_errors_at_the_start_of_the_enclosing_type": st.syntax_at_enclosing_type.load(Ordering::Relaxed),
            "validation_and_execution_errors_judged": st.error_cases.load(Ordering::Relaxed),
        }),
    );
    cx.extra("bounds_completed", J::Object(bounds_used));
    cx.exhaustive(true);
}

pub fn run(cx: &Cx) {
    let pool = rayon::ThreadPoolBuilder::new().stack_size(32 << 20).build().expect("thread pool");
    pool.install(|| run_inner(cx));
}

pub fn replay(case: &J) -> String {
    let src = case["src"].as_str().unwrap_or("").to_string();
    let doc = if case["doc"].as_str() == Some("type-system") { Doc::Ts } else { Doc::Exec };
    let seam = case["seam"].as_str().unwrap_or("ast").to_string();
    let cs: Vec<char> = src.chars().collect();
    let mut out = format!("{seam} {} {src:?}\n", doc.name());
    match seam.as_str() {
        "ast" => {
            let got = match doc {
                Doc::Exec => parse_query(&src).ok().map(|d| crate_exec_events(&d)),
                Doc::Ts => parse_schema(&src).ok().map(|d| crate_ts_events(&d)),
            };
            let refs = ref_events(doc, &src);
            match (refs, got) {
                (Some(r), Some(g)) => {
                    for ((k, a), (_, b)) in r.iter().zip(&g) {
                        for (x, y) in a.iter().zip(b) {
                            let mark = if (x.pos.line as usize, x.pos.col as usize) == (y.1.line, y.1.column) { "  " } else { "!!" };
                            out.push_str(&format!("{mark} {k} {:<14} expected {}:{}  reported {}:{}\n", x.kind, x.pos.line, x.pos.col, y.1.line, y.1.column));
                        }
                    }
                }
                (r, g) => out.push_str(&format!("reference accepts: {}, crate accepts: {}\n", r.is_some(), g.is_some())),
            }
        }
        "parse-error" => {
            let err = match doc {
                Doc::Exec => parse_query(&src).err(),
                Doc::Ts => parse_schema(&src).err(),
            };
            let exp = spec_pos(&cs, cs.len().saturating_sub(1));
            out.push_str(&format!("offending character at {}:{}; reported {:?}\n", exp.0, exp.1, err.map(|e| e.positions().collect::<Vec<_>>())));
        }
        _ => {
            let schema: S = Schema::build(Query, EmptyMutation, EmptySubscription).finish();
            let off = case["field_offset"].as_u64().unwrap_or(0) as usize;
            let exp = spec_pos(&cs, off);
            let resp = agv_engine::sched::drive(schema.execute(src.as_str()));
            out.push_str(&format!(
                "field at {}:{}; errors: {:?}\n",
                exp.0,
                exp.1,
                resp.map(|r| r.errors.iter().map(|e| (e.message.clone(), e.locations.clone())).collect::<Vec<_>>())
            ));
        }
    }
    out
}

fn main() {
    agv_engine::driver::main("C14", "exploration", run, Some(replay))
}
