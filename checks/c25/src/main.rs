//! C25 — WebSocket sessions follow the graphql-ws (legacy subscriptions-transport-ws)
//! and graphql-transport-ws protocols.
//!
//! Seam: `async_graphql::http::WebSocket::new(executor, byte-message stream, protocol)`
//! `.on_connection_init(..).keepalive_timeout(timer, ..)`, polled by hand
//! (`Stream::poll_next` with `agv_engine::sched::FlagWaker`) — no runtime, no real time.
//! Every environment source the state machine awaits is owned by the harness:
//!   * the input stream (messages are handed over only when the harness queued them),
//!   * the `Executor` (`execute_stream` logs the call and returns a scripted stream that
//!     yields / ends only when the harness says so, and logs its own drop),
//!   * the `on_connection_init` future (accept / reject, armed before or after the call),
//!   * the keep-alive `runtime::Timer`.
//! Engine: `agv_engine::bfs` — a state is the event history, replayed on a fresh socket.
//!
//! The oracle is a monitor automaton over the interleaved log
//! (message consumed by the server / execute_stream call / outgoing message / end),
//! written from the two protocol documents:
//!   [GTWS]   graphql-transport-ws, PROTOCOL.md of github.com/enisdenjo/graphql-ws
//!   [LEGACY] graphql-ws = subscriptions-transport-ws, PROTOCOL.md of
//!            github.com/apollographql/subscriptions-transport-ws
//! and from the five clauses of the property statement (I1..I5 below, see `Mon`).

use agv_engine::bfs::{bfs, BfsCfg, Step};
use agv_engine::record::{Cx, Violation};
use agv_engine::sched::FlagWaker;
use async_graphql::http::{WebSocket, WebSocketProtocols as Protocols, WsMessage};
use async_graphql::runtime::Timer;
use async_graphql::{Data, Executor, Request, Response};
use futures_util::future::BoxFuture;
use futures_util::stream::{BoxStream, Stream};
use serde_json::json;
use std::collections::{BTreeMap, VecDeque};
use std::future::Future;
use std::pin::Pin;
use std::sync::{Arc, Mutex, MutexGuard};
use std::task::{Context, Poll, Waker};
use std::time::Duration;

// ---------------------------------------------------------------------------------------------
// events
// ---------------------------------------------------------------------------------------------

#[derive(Clone, Copy, PartialEq, Eq, Hash, Debug)]
enum Msg {
    Init,
    /// subscribe (GTWS) / start (LEGACY) with id "1" or "2"
    Sub(u8),
    /// complete (GTWS) / stop (LEGACY) with id "1", "2" or the never-used id "9"
    Stop(u8),
    Ping,
    Pong,
    Terminate,
    /// a text frame that is not JSON
    Invalid,
    /// the client side of the socket ends
    Eof,
}

#[derive(Clone, Copy, PartialEq, Eq, Hash, Debug)]
enum Ev {
    /// client message; `true` = the socket is polled to quiescence afterwards,
    /// `false` = only queued (the next polled event delivers a burst to the inner read loop)
    Client(Msg, bool),
    /// the on_connection_init future is (or will be, if not yet called) resolved with Ok
    Accept,
    /// … with Err
    Reject,
    /// the live scripted stream of id 1 / 2 yields one response
    Yield(u8),
    /// … ends
    EndStream(u8),
    /// the keep-alive delay elapses
    Timer,
}

const MSGS: [Msg; 11] = [
    Msg::Init,
    Msg::Sub(1),
    Msg::Sub(2),
    Msg::Stop(1),
    Msg::Stop(2),
    Msg::Stop(9),
    Msg::Ping,
    Msg::Pong,
    Msg::Terminate,
    Msg::Invalid,
    Msg::Eof,
];

fn alphabet() -> Vec<Ev> {
    let mut v: Vec<Ev> = MSGS.iter().map(|m| Ev::Client(*m, true)).collect();
    v.extend(MSGS.iter().map(|m| Ev::Client(*m, false)));
    v.extend([Ev::Accept, Ev::Reject, Ev::Yield(1), Ev::Yield(2), Ev::EndStream(1), Ev::EndStream(2), Ev::Timer]);
    v
}

fn msg_name(m: Msg) -> String {
    match m {
        Msg::Init => "init".into(),
        Msg::Sub(i) => format!("sub{i}"),
        Msg::Stop(i) => format!("stop{i}"),
        Msg::Ping => "ping".into(),
        Msg::Pong => "pong".into(),
        Msg::Terminate => "terminate".into(),
        Msg::Invalid => "invalid".into(),
        Msg::Eof => "eof".into(),
    }
}

fn ev_name(e: Ev) -> String {
    match e {
        Ev::Client(m, true) => msg_name(m),
        Ev::Client(m, false) => format!("q:{}", msg_name(m)),
        Ev::Accept => "accept".into(),
        Ev::Reject => "reject".into(),
        Ev::Yield(i) => format!("yield{i}"),
        Ev::EndStream(i) => format!("end{i}"),
        Ev::Timer => "timer".into(),
    }
}

fn ev_parse(s: &str) -> Option<Ev> {
    alphabet().into_iter().find(|e| ev_name(*e) == s)
}

fn proto_name(p: Protocols) -> &'static str {
    // the Sec-WebSocket-Protocol names
    match p {
        Protocols::SubscriptionsTransportWS => "graphql-ws",
        Protocols::GraphQLWS => "graphql-transport-ws",
    }
}

fn is_gtws(p: Protocols) -> bool {
    p == Protocols::GraphQLWS
}

/// The wire text of a client message. `tag` (the history position of the event) is embedded in
/// the query of a subscribe so that the harness executor can tell operation instances apart
/// (`execute_stream` does not receive the operation id).
fn msg_text(p: Protocols, m: Msg, tag: usize) -> String {
    let (sub, stop) = if is_gtws(p) { ("subscribe", "complete") } else { ("start", "stop") };
    match m {
        Msg::Init => json!({"type": "connection_init", "payload": {}}).to_string(),
        Msg::Sub(i) => json!({"type": sub, "id": i.to_string(), "payload": {"query": format!("subscription {{ op{tag} }}")}}).to_string(),
        Msg::Stop(i) => json!({"type": stop, "id": i.to_string()}).to_string(),
        Msg::Ping => json!({"type": "ping"}).to_string(),
        Msg::Pong => json!({"type": "pong"}).to_string(),
        Msg::Terminate => json!({"type": "connection_terminate"}).to_string(),
        Msg::Invalid => "{not json".to_string(),
        Msg::Eof => String::new(),
    }
}

// ---------------------------------------------------------------------------------------------
// the log the monitor reads
// ---------------------------------------------------------------------------------------------

#[derive(Clone, Debug, PartialEq, Eq, Hash)]
enum Out {
    Text { ty: String, id: Option<String>, inst: Option<usize>, raw: String },
    Close(u16, String),
}

#[derive(Clone, Debug, PartialEq, Eq, Hash)]
enum L {
    /// history event #i starts
    Step(usize, String),
    /// the server took this client message from its input (tag = instance tag of a subscribe)
    Recv(Msg, usize),
    InitCalled,
    InitResolved(bool),
    /// `Executor::execute_stream` was called for the subscribe with this tag
    Exec(usize),
    /// the scripted stream of that instance was dropped by the server
    Dropped(usize),
    TimerFired,
    Out(Out),
    /// `poll_next` returned `Ready(None)`
    End,
    /// `poll_next` returned `Pending`
    Quiescent,
    Panic(String),
    /// more than POLL_CAP items from one event
    Runaway,
}

fn log_json(log: &[L]) -> serde_json::Value {
    serde_json::Value::Array(
        log.iter()
            .map(|l| match l {
                L::Step(i, n) => json!(format!("--- event {i}: {n}")),
                L::Recv(m, t) => json!(format!("server reads {} (tag {t})", msg_name(*m))),
                L::InitCalled => json!("on_connection_init called"),
                L::InitResolved(b) => json!(format!("on_connection_init resolves {}", if *b { "Ok" } else { "Err" })),
                L::Exec(t) => json!(format!("execute_stream(op{t})")),
                L::Dropped(t) => json!(format!("stream op{t} dropped")),
                L::TimerFired => json!("keep-alive delay elapses"),
                L::Out(Out::Text { raw, .. }) => json!(format!("OUT {raw}")),
                L::Out(Out::Close(c, r)) => json!(format!("OUT Close({c}, {r:?})")),
                L::End => json!("OUT <end of stream>"),
                L::Quiescent => json!("(pending)"),
                L::Panic(p) => json!(format!("PANIC {p}")),
                L::Runaway => json!("RUNAWAY"),
            })
            .collect(),
    )
}

// ---------------------------------------------------------------------------------------------
// the harness world (everything the socket awaits)
// ---------------------------------------------------------------------------------------------

enum In {
    Msg(Msg, usize, String),
    End,
}

struct Inst {
    tag: usize,
    id: u8,
    pending: u32,
    seq: u32,
    ended: bool,
    end_seen: bool,
    dropped: bool,
    waker: Option<Waker>,
}

#[derive(Default)]
struct World {
    log: Vec<L>,
    input: VecDeque<In>,
    input_done: bool,
    eof_queued: bool,
    input_waker: Option<Waker>,
    init_called: bool,
    init_decision: Option<bool>,
    init_resolved: bool,
    init_waker: Option<Waker>,
    /// subscribe tag -> operation id, registered by the harness when it sends the message
    tags: BTreeMap<usize, u8>,
    insts: Vec<Inst>,
    timer_gen: u64,
    timer_fired: Option<u64>,
    timer_waker: Option<Waker>,
}

type W = Arc<Mutex<World>>;

fn lock(w: &W) -> MutexGuard<'_, World> {
    w.lock().unwrap_or_else(|e| e.into_inner())
}

struct Input(W);
impl Stream for Input {
    type Item = String;
    fn poll_next(self: Pin<&mut Self>, cx: &mut Context<'_>) -> Poll<Option<String>> {
        let mut w = lock(&self.0);
        if w.input_done {
            return Poll::Ready(None);
        }
        match w.input.pop_front() {
            Some(In::Msg(m, tag, text)) => {
                w.log.push(L::Recv(m, tag));
                Poll::Ready(Some(text))
            }
            Some(In::End) => {
                w.input_done = true;
                w.log.push(L::Recv(Msg::Eof, 0));
                Poll::Ready(None)
            }
            None => {
                w.input_waker = Some(cx.waker().clone());
                Poll::Pending
            }
        }
    }
}

#[derive(Clone)]
struct HExec(W);

fn tag_of(query: &str) -> usize {
    let digits: String = query.chars().filter(|c| c.is_ascii_digit()).collect();
    digits.parse().unwrap_or(usize::MAX)
}

impl Executor for HExec {
    fn execute(&self, _request: Request) -> impl Future<Output = Response> + Send {
        async { Response::default() }
    }
    fn execute_stream(&self, request: Request, _session_data: Option<Arc<Data>>) -> BoxStream<'static, Response> {
        let tag = tag_of(&request.query);
        let mut w = lock(&self.0);
        let id = w.tags.get(&tag).copied().unwrap_or(0);
        w.insts.push(Inst { tag, id, pending: 0, seq: 0, ended: false, end_seen: false, dropped: false, waker: None });
        w.log.push(L::Exec(tag));
        let idx = w.insts.len() - 1;
        Box::pin(Script { w: self.0.clone(), idx })
    }
}

struct Script {
    w: W,
    idx: usize,
}
impl Stream for Script {
    type Item = Response;
    fn poll_next(self: Pin<&mut Self>, cx: &mut Context<'_>) -> Poll<Option<Response>> {
        let mut w = lock(&self.w);
        let inst = &mut w.insts[self.idx];
        if inst.pending > 0 {
            inst.pending -= 1;
            inst.seq += 1;
            let v = async_graphql::Value::from_json(json!({"inst": inst.tag, "seq": inst.seq})).unwrap();
            Poll::Ready(Some(Response::new(v)))
        } else if inst.ended {
            // stays None when polled again: a server that keeps an ended stream shows as a second `complete`
            inst.end_seen = true;
            Poll::Ready(None)
        } else {
            inst.waker = Some(cx.waker().clone());
            Poll::Pending
        }
    }
}
impl Drop for Script {
    fn drop(&mut self) {
        let mut w = lock(&self.w);
        w.insts[self.idx].dropped = true;
        let tag = w.insts[self.idx].tag;
        w.log.push(L::Dropped(tag));
    }
}

struct InitFut(W);
impl Future for InitFut {
    type Output = async_graphql::Result<Data>;
    fn poll(self: Pin<&mut Self>, cx: &mut Context<'_>) -> Poll<Self::Output> {
        let mut w = lock(&self.0);
        match w.init_decision {
            Some(ok) => {
                w.init_resolved = true;
                w.log.push(L::InitResolved(ok));
                Poll::Ready(if ok { Ok(Data::default()) } else { Err(async_graphql::Error::new("rejected by harness")) })
            }
            None => {
                w.init_waker = Some(cx.waker().clone());
                Poll::Pending
            }
        }
    }
}

struct HTimer(W);
struct TimerFut(W, u64);
impl Timer for HTimer {
    fn delay(&self, _d: Duration) -> BoxFuture<'static, ()> {
        let mut w = lock(&self.0);
        w.timer_gen += 1;
        Box::pin(TimerFut(self.0.clone(), w.timer_gen))
    }
}
impl Future for TimerFut {
    type Output = ();
    fn poll(self: Pin<&mut Self>, cx: &mut Context<'_>) -> Poll<()> {
        let mut w = lock(&self.0);
        if w.timer_fired == Some(self.1) {
            Poll::Ready(())
        } else {
            w.timer_waker = Some(cx.waker().clone());
            Poll::Pending
        }
    }
}

// ---------------------------------------------------------------------------------------------
// the simulation: one fresh real socket + replayed events
// ---------------------------------------------------------------------------------------------

const POLL_CAP: usize = 64;

struct Sim {
    proto: Protocols,
    w: W,
    sock: Pin<Box<dyn Stream<Item = WsMessage>>>,
    flag: FlagWaker,
    /// poll_next returned None (or panicked): never polled again
    ended: bool,
    max_unread: usize,
}

fn parse_out(m: WsMessage) -> Out {
    match m {
        WsMessage::Close(c, r) => Out::Close(c, r),
        WsMessage::Text(raw) => {
            let v: serde_json::Value = serde_json::from_str(&raw).unwrap_or(serde_json::Value::Null);
            let ty = v["type"].as_str().unwrap_or("<not-json>").to_string();
            let id = v["id"].as_str().map(|s| s.to_string());
            let inst = v["payload"]["data"]["inst"].as_u64().map(|x| x as usize);
            Out::Text { ty, id, inst, raw }
        }
    }
}

impl Sim {
    fn new(proto: Protocols, max_unread: usize) -> Sim {
        let w: W = Arc::new(Mutex::new(World::default()));
        let w2 = w.clone();
        let sock = WebSocket::new(HExec(w.clone()), Input(w.clone()), proto)
            .on_connection_init(move |_payload: serde_json::Value| {
                {
                    let mut g = lock(&w2);
                    g.init_called = true;
                    g.log.push(L::InitCalled);
                }
                InitFut(w2)
            })
            .keepalive_timeout(HTimer(w.clone()), Duration::from_secs(30));
        let mut s = Sim { proto, w, sock: Box::pin(sock), flag: FlagWaker::new(), ended: false, max_unread };
        // a server task polls its socket once before anything arrives (registers the wakers)
        s.pump();
        s
    }

    fn pump(&mut self) {
        let waker = self.flag.waker();
        let mut cx = Context::from_waker(&waker);
        let mut n = 0;
        while !self.ended {
            if n >= POLL_CAP {
                lock(&self.w).log.push(L::Runaway);
                self.ended = true;
                return;
            }
            n += 1;
            self.flag.take();
            let sock = &mut self.sock;
            let r = agv_engine::catch_quiet(|| sock.as_mut().poll_next(&mut cx));
            let mut g = lock(&self.w);
            match r {
                Err(p) => {
                    g.log.push(L::Panic(p));
                    self.ended = true;
                }
                Ok(Poll::Ready(Some(m))) => g.log.push(L::Out(parse_out(m))),
                Ok(Poll::Ready(None)) => {
                    g.log.push(L::End);
                    self.ended = true;
                }
                Ok(Poll::Pending) => {
                    g.log.push(L::Quiescent);
                    return;
                }
            }
        }
    }

    /// newest scripted stream created for `id` that the server still holds and that has not ended
    fn target(g: &World, id: u8) -> Option<usize> {
        (0..g.insts.len()).rev().find(|i| g.insts[*i].id == id && !g.insts[*i].dropped && !g.insts[*i].ended)
    }

    /// Is `ev` possible in the current state? (`force`: the two-streams-ready family lifts the
    /// one-ready-source rule.)
    fn enabled(&self, ev: Ev, force: bool) -> bool {
        if self.ended {
            return false;
        }
        let g = lock(&self.w);
        match ev {
            Ev::Client(_, _) => !g.eof_queued && g.input.len() < self.max_unread,
            Ev::Accept | Ev::Reject => g.init_decision.is_none(),
            Ev::Yield(id) | Ev::EndStream(id) => {
                // `WebSocket.streams` is a std HashMap (RandomState): never two streams ready at once
                let other_ready = g.insts.iter().any(|i| !i.dropped && (i.pending > 0 || (i.ended && !i.end_seen)));
                Self::target(&g, id).is_some() && (force || !other_ready)
            }
            Ev::Timer => g.timer_fired.is_none(),
        }
    }

    /// Apply one event (position `pos` in the history). Returns false when it is not enabled.
    fn apply(&mut self, ev: Ev, pos: usize, force: bool, poll: bool) -> bool {
        if !self.enabled(ev, force) {
            return false;
        }
        let wake: Option<Waker>;
        let mut do_poll = poll;
        {
            let mut g = lock(&self.w);
            g.log.push(L::Step(pos, ev_name(ev)));
            match ev {
                Ev::Client(m, p) => {
                    do_poll = do_poll && p;
                    if m == Msg::Eof {
                        g.eof_queued = true;
                        g.input.push_back(In::End);
                    } else {
                        if let Msg::Sub(id) = m {
                            g.tags.insert(pos, id);
                        }
                        let text = msg_text(self.proto, m, pos);
                        g.input.push_back(In::Msg(m, pos, text));
                    }
                    wake = g.input_waker.take();
                }
                Ev::Accept | Ev::Reject => {
                    g.init_decision = Some(ev == Ev::Accept);
                    wake = g.init_waker.take();
                }
                Ev::Yield(id) => {
                    let i = Self::target(&g, id).unwrap();
                    g.insts[i].pending += 1;
                    wake = g.insts[i].waker.take();
                }
                Ev::EndStream(id) => {
                    let i = Self::target(&g, id).unwrap();
                    g.insts[i].ended = true;
                    wake = g.insts[i].waker.take();
                }
                Ev::Timer => {
                    g.timer_fired = Some(g.timer_gen);
                    g.log.push(L::TimerFired);
                    wake = g.timer_waker.take();
                }
            }
        }
        if let Some(w) = wake {
            w.wake();
        }
        if do_poll {
            self.pump();
        }
        true
    }

    fn log(&self) -> Vec<L> {
        lock(&self.w).log.clone()
    }
}

// ---------------------------------------------------------------------------------------------
// the monitor automaton
// ---------------------------------------------------------------------------------------------
//
// Clauses (statement of C25 in properties.jsonl) and where each requirement comes from:
//
// I1  "operations run only after a single acknowledged connection_init":
//     `execute_stream` only after the server emitted `connection_ack`; at most one ack, only after a
//     `connection_init` was read, never after the initialiser rejected.
//     [GTWS] "ConnectionAck … Expected response to the ConnectionInit message from the client acknowledging a
//     successful connection"; "Subscribe … If the connection is not acknowledged, the socket will be closed
//     immediately with the event 4401: Unauthorized". [LEGACY] GQL_CONNECTION_ACK "The server may responses
//     with this message to the GQL_CONNECTION_INIT from client, indicates the server accepted the connection".
// I2  "every data/next message belongs to a live operation": `next` ([GTWS] "Next: Operation execution
//     result(s) from the source stream created by the binding Subscribe message") / `data` ([LEGACY]
//     GQL_DATA) carries the id of an operation that was subscribed, is not completed, was not stopped by
//     the client, and the payload comes from the instance currently bound to that id. The message type
//     must be the negotiated protocol's (`next` vs `data`).
// I3  "each operation completes at most once and emits nothing afterwards": a `complete` id must name a
//     live operation (it then stops being live) — [GTWS] Complete server→client "indicates that the
//     requested operation execution has completed", client→server "the client has stopped listening and
//     wants to complete the subscription. No further events, relevant to the original subscription,
//     should be sent through"; [LEGACY] GQL_STOP / GQL_COMPLETE. The server's echo of `complete` in
//     reply to the client's own complete/stop is accepted as that instance's single completion (clients of
//     both protocols ignore it; the statement only bounds completions by one) — any `next`/`data` for the
//     stopped instance, or a second `complete`, is a violation.
// I4  "protocol violations close the connection with the protocol's close code":
//     [GTWS] "Receiving a message of a type or format which is not specified in this document will result
//     in an immediate socket closure with the event 4400"; Subscribe before ack → 4401; "If there is
//     already an active subscriber for an operation matching the provided ID … the server must close the
//     socket immediately with the event 4409: Subscriber for <unique-operation-id> already exists"; "If
//     the server receives more than one ConnectionInit message at any given time, the server will close
//     the socket with the event 4429: Too many initialisation requests". `connection_terminate` is not a
//     graphql-transport-ws message type, hence 4400.
//     [LEGACY] defines no close codes. GQL_CONNECTION_ERROR: "The server may responses with this message
//     to the GQL_CONNECTION_INIT from client, indicates the server rejected the connection. It server also
//     respond with this message in case of a parsing errors of the message (which does not disconnect the
//     client, just ignore the message)". So: an unparsable message must be answered by `connection_error`
//     (continuing or not) or by closing (any code); GQL_CONNECTION_TERMINATE must end the connection;
//     a duplicate live id replaces the old subscription (what the reference server does; the document is
//     silent) or is refused; a start before the ack must not run before the ack (I1) — how it is refused
//     is left open; a second init must not produce a second ack (I1).
//     Not a protocol violation in either document, so no particular code is demanded: the initialiser
//     rejecting ([GTWS] only *recommends* 4403), the keep-alive delay expiring.
// I5  "nothing is sent after a close": after a Close frame nothing but the end of the stream; after the
//     client's side ended nothing at all. The harness stops polling once `poll_next` returned `None`
//     (polling a finished Stream is outside the Stream contract; every adapter stops there).
//
// Not judged (stated in the evidence): `pong` replies under LEGACY (ping/pong are not legacy message
// types and the legacy document does not say how to treat unknown types), liveness (that an accepted
// subscribe is eventually executed, that a ping is answered), reason strings of close frames.

#[derive(Clone, Debug)]
enum Expect {
    /// [GTWS] close frame with exactly this code
    Code(u16),
    /// [LEGACY] `connection_error` or a close frame (any code)
    LegacyReport,
    /// [LEGACY] connection_terminate: end of stream or close frame
    Terminate,
    /// [LEGACY] start before the ack: the server may refuse (connection_error / error / close / end),
    /// ignore or defer it — nothing is demanded except I1
    LegacyMayRefuse,
}

#[derive(Clone, Debug)]
struct Pend {
    event: &'static str,
    expect: Expect,
    /// duplicate subscribe: (id, new tag) — if the server runs it anyway, monitoring continues with
    /// replace semantics after the violation is reported
    replace: Option<(String, usize)>,
}

#[derive(Clone, Debug)]
struct Viol {
    class: &'static str,
    keys: Vec<(&'static str, String)>,
    detail: String,
    at: usize,
    /// monitoring can continue meaningfully after this one
    recoverable: bool,
}

struct Mon {
    gtws: bool,
    pname: &'static str,
    inits: u32,
    acks: u32,
    rejected: bool,
    /// id -> instance tag of the live operation
    live: BTreeMap<String, usize>,
    /// ids whose client complete/stop may still be echoed by one server `complete`
    echo: Vec<String>,
    closed: bool,
    client_gone: bool,
    /// a close / end is legitimate without a protocol violation (initialiser rejected, keep-alive expired,
    /// legacy connection_error sent, legacy terminate)
    end_ok: bool,
    ended: bool,
    pend: Option<Pend>,
    viol: Vec<Viol>,
    nexts: u32,
    execs: u32,
}

impl Mon {
    fn new(p: Protocols) -> Mon {
        Mon {
            gtws: is_gtws(p),
            pname: proto_name(p),
            inits: 0,
            acks: 0,
            rejected: false,
            live: BTreeMap::new(),
            echo: Vec::new(),
            closed: false,
            client_gone: false,
            end_ok: false,
            ended: false,
            pend: None,
            viol: Vec::new(),
            nexts: 0,
            execs: 0,
        }
    }

    fn v(&mut self, at: usize, class: &'static str, keys: Vec<(&'static str, String)>, detail: String, recoverable: bool) {
        let mut k = vec![("protocol", self.pname.to_string())];
        k.extend(keys);
        self.viol.push(Viol { class, keys: k, detail, at, recoverable });
    }

    /// The protocol violation `p` was not answered by the close the protocol demands; `observed` says what happened instead.
    fn not_closed(&mut self, at: usize, p: &Pend, observed: &str, recoverable: bool) {
        let want = match p.expect {
            Expect::Code(c) => format!("Close({c})"),
            Expect::LegacyReport => "connection_error or a close frame".to_string(),
            Expect::Terminate => "end of the connection".to_string(),
            Expect::LegacyMayRefuse => "nothing in particular".to_string(),
        };
        self.v(
            at,
            "violation-not-closed",
            vec![("event", p.event.to_string()), ("observed", observed.to_string())],
            format!("I4: after the client's {} the protocol demands {want}; observed: {observed}", p.event),
            recoverable,
        );
    }

    fn feed(&mut self, at: usize, l: &L) {
        match l {
            L::Step(..) | L::InitCalled | L::Dropped(_) => {}
            L::Recv(m, tag) => self.recv(*m, *tag),
            L::InitResolved(ok) => {
                if !*ok {
                    self.rejected = true;
                    self.end_ok = true;
                }
            }
            L::TimerFired => self.end_ok = true,
            L::Exec(tag) => {
                self.execs += 1;
                if let Some(p) = self.pend.take() {
                    match &p.replace {
                        _ if matches!(p.expect, Expect::LegacyMayRefuse) => {}
                        Some((id, t)) if t == tag => {
                            self.not_closed(at, &p, "operation-replaced", true);
                            self.live.insert(id.clone(), *t);
                        }
                        _ => self.not_closed(at, &p, "executed", false),
                    }
                }
                if self.acks == 0 || self.rejected {
                    self.v(
                        at,
                        "exec-before-ack",
                        vec![],
                        format!("I1: execute_stream(op{tag}) was called although no connection_ack had been emitted (acks={}, initialiser rejected={})", self.acks, self.rejected),
                        false,
                    );
                }
            }
            L::Out(o) => self.out(at, o),
            L::End => {
                if let Some(p) = self.pend.take() {
                    match p.expect {
                        Expect::Terminate | Expect::LegacyMayRefuse => {}
                        _ => self.not_closed(at, &p, "end-without-close-frame", false),
                    }
                } else if !(self.closed || self.client_gone || self.end_ok) {
                    self.v(at, "unexpected-end", vec![], "the server ended the connection although nothing called for it".into(), false);
                }
                self.ended = true;
            }
            L::Quiescent => {
                if let Some(p) = self.pend.take() {
                    match p.expect {
                        Expect::LegacyMayRefuse => {}
                        Expect::Terminate => self.not_closed(at, &p, "ignored", false),
                        _ => self.not_closed(at, &p, "ignored", p.replace.is_some()),
                    }
                }
            }
            L::Panic(p) => self.v(at, "panic", vec![], format!("poll_next panicked: {p}"), false),
            L::Runaway => self.v(at, "unbounded-output", vec![], format!("more than {POLL_CAP} items after one event"), false),
        }
    }

    fn recv(&mut self, m: Msg, tag: usize) {
        // reading on after a close is not itself judged; while a violation is pending the first one
        // stays the pending one (`set` below), later messages still update the operation table
        if self.closed {
            return;
        }
        let set = |s: &mut Mon, event: &'static str, expect: Expect, replace| {
            if s.pend.is_none() {
                s.pend = Some(Pend { event, expect, replace });
            }
        };
        match m {
            Msg::Init => {
                self.inits += 1;
                if self.inits > 1 && self.gtws {
                    set(self, "second-connection-init", Expect::Code(4429), None);
                }
            }
            Msg::Sub(i) => {
                let id = i.to_string();
                if self.acks == 0 {
                    if self.gtws {
                        set(self, "subscribe-before-ack", Expect::Code(4401), None);
                    } else {
                        // [LEGACY] may be refused or deferred; it must not run before the ack (I1)
                        self.live.insert(id, tag);
                        set(self, "start-before-ack", Expect::LegacyMayRefuse, None);
                    }
                } else if self.live.contains_key(&id) {
                    if self.gtws {
                        set(self, "duplicate-subscribe", Expect::Code(4409), Some((id, tag)));
                    } else {
                        self.live.insert(id, tag); // replace
                    }
                } else {
                    self.live.insert(id, tag);
                }
            }
            Msg::Stop(i) => {
                let id = i.to_string();
                if self.live.remove(&id).is_some() {
                    self.echo.push(id);
                }
            }
            Msg::Ping | Msg::Pong => {}
            Msg::Terminate => {
                if self.gtws {
                    set(self, "connection-terminate-message", Expect::Code(4400), None);
                } else {
                    self.end_ok = true;
                    set(self, "connection-terminate", Expect::Terminate, None);
                }
            }
            Msg::Invalid => {
                if self.gtws {
                    set(self, "invalid-message", Expect::Code(4400), None);
                } else {
                    set(self, "invalid-message", Expect::LegacyReport, None);
                }
            }
            Msg::Eof => self.client_gone = true,
        }
    }

    fn out(&mut self, at: usize, o: &Out) {
        let what = match o {
            Out::Text { ty, id, .. } => format!("{ty}{}", id.as_ref().map(|i| format!(" id={i}")).unwrap_or_default()),
            Out::Close(c, _) => format!("Close({c})"),
        };
        if self.closed {
            self.v(at, "emission-after-close", vec![], format!("I5: the server emitted {what} after it had sent a close frame"), false);
            return;
        }
        if self.client_gone {
            self.v(at, "emission-after-client-close", vec![], format!("I5: the server emitted {what} after the client's side of the connection had ended"), false);
            return;
        }
        match o {
            Out::Close(code, _) => {
                match self.pend.take() {
                    Some(p) => match p.expect {
                        Expect::Code(c) if c != *code => {
                            self.v(
                                at,
                                "wrong-close-code",
                                vec![("event", p.event.to_string()), ("observed", code.to_string()), ("expected", c.to_string())],
                                format!("I4: after the client's {} the protocol demands Close({c}); the server sent Close({code})", p.event),
                                false,
                            );
                        }
                        _ => {}
                    },
                    None => {
                        if !self.end_ok {
                            self.v(at, "unexpected-close", vec![("observed", code.to_string())], format!("the server sent Close({code}) although nothing called for it"), false);
                        }
                    }
                }
                self.closed = true;
            }
            Out::Text { ty, id, inst, .. } => {
                if let Some(p) = self.pend.take() {
                    let is_report = ty == "connection_error" || ty == "error";
                    match p.expect {
                        Expect::LegacyReport if is_report => {}
                        Expect::LegacyMayRefuse => {
                            if is_report {
                                self.end_ok = true;
                            }
                        }
                        Expect::Terminate if is_report => self.pend = Some(p),
                        _ => {
                            let obs = format!("text:{ty}");
                            self.not_closed(at, &p, &obs, false);
                        }
                    }
                }
                match ty.as_str() {
                    "connection_ack" => {
                        if self.inits == 0 {
                            self.v(at, "ack-without-init", vec![], "I1: connection_ack although no connection_init had been read".into(), false);
                        }
                        if self.acks >= 1 {
                            self.v(at, "multiple-acks", vec![], "I1: a second connection_ack was emitted".into(), false);
                        }
                        if self.rejected {
                            self.v(at, "ack-after-reject", vec![], "I1: connection_ack although the initialiser rejected the connection".into(), false);
                        }
                        self.acks += 1;
                    }
                    "next" | "data" => {
                        self.nexts += 1;
                        let want = if self.gtws { "next" } else { "data" };
                        if ty != want {
                            self.v(at, "wrong-message-type", vec![("observed", ty.clone())], format!("I2: results are sent as `{want}` in this protocol, the server sent `{ty}`"), false);
                        }
                        let idk = id.clone().unwrap_or_default();
                        match self.live.get(&idk) {
                            Some(t) if Some(*t) == *inst => {}
                            Some(t) => self.v(
                                at,
                                "data-for-dead-operation",
                                vec![("reason", "other-instance".into())],
                                format!("I2/I3: `{ty}` id={idk} carries a result of instance op{:?}, but the live operation bound to that id is op{t} (the other instance was stopped / completed / replaced)", inst),
                                false,
                            ),
                            None => {
                                let reason = if self.echo.contains(&idk) { "after-client-stop" } else { "not-live" };
                                self.v(
                                    at,
                                    "data-for-dead-operation",
                                    vec![("reason", reason.into())],
                                    format!("I2/I3: `{ty}` id={idk} but no operation with that id is live ({reason})"),
                                    false,
                                );
                            }
                        }
                    }
                    "complete" | "error" if id.is_some() => {
                        let idk = id.clone().unwrap_or_default();
                        if let Some(p) = self.echo.iter().position(|x| *x == idk) {
                            self.echo.remove(p);
                        } else if self.live.remove(&idk).is_none() {
                            self.v(at, "complete-for-dead-operation", vec![], format!("I3: `{ty}` id={idk} but no operation with that id is live (completed twice, or never started)"), false);
                        }
                    }
                    "pong" | "ping" => {
                        // [GTWS] bidirectional, any time. [LEGACY] not a legacy type — not judged (see header).
                    }
                    "connection_error" | "error" => {
                        if self.gtws {
                            self.v(at, "wrong-message-type", vec![("observed", ty.clone())], format!("`{ty}` is not a graphql-transport-ws server message"), false);
                        } else {
                            self.end_ok = true;
                        }
                    }
                    "ka" if !self.gtws => {}
                    other => {
                        let o = other.to_string();
                        self.v(at, "wrong-message-type", vec![("observed", o.clone())], format!("`{o}` is not a server message of the negotiated protocol"), false);
                    }
                }
            }
        }
    }
}

fn run_monitor(p: Protocols, log: &[L]) -> Mon {
    let mut m = Mon::new(p);
    for (i, l) in log.iter().enumerate() {
        m.feed(i, l);
    }
    m
}

// ---------------------------------------------------------------------------------------------
// canonical state
// ---------------------------------------------------------------------------------------------

/// Sound summary for merging two histories: everything the future behaviour of the socket can depend on
/// that the harness can see (handshake progress, unread input, every stream the server still holds with
/// its remaining script, the pending timer) plus the complete monitor state (the monitor is a deterministic
/// automaton over the log, so its state is all of the past that future verdicts depend on). Instance tags
/// (history positions) are renamed to creation-order indices among the streams still held.
fn state_key(sim: &Sim, mon: &Mon, last_outs: &[String]) -> u64 {
    let g = lock(&sim.w);
    let held: Vec<&Inst> = g.insts.iter().filter(|i| !i.dropped).collect();
    let canon_tag = |t: usize| -> i64 { held.iter().position(|i| i.tag == t).map(|p| p as i64).unwrap_or(-1) };
    let insts: Vec<(u8, u32, bool, bool)> = held.iter().map(|i| (i.id, i.pending, i.ended, i.end_seen)).collect();
    let input: Vec<String> = g
        .input
        .iter()
        .map(|i| match i {
            In::Msg(m, _, _) => msg_name(*m),
            In::End => "eof".to_string(),
        })
        .collect();
    let live: Vec<(String, i64)> = mon.live.iter().map(|(k, t)| (k.clone(), canon_tag(*t))).collect();
    let bad: Vec<&str> = mon.viol.iter().filter(|v| !v.recoverable).map(|v| v.class).collect();
    let terminal = sim.ended || !bad.is_empty();
    let tup = (
        (proto_name(sim.proto), sim.ended, g.init_called, g.init_decision, g.init_resolved, g.input_done, g.eof_queued),
        (input, insts, g.timer_fired.is_some()),
        (mon.inits.min(2), mon.acks.min(2), mon.rejected, live, mon.echo.clone(), mon.closed, mon.client_gone, mon.end_ok),
        (bad, if terminal { last_outs.to_vec() } else { Vec::new() }),
    );
    agv_engine::h64(&tup)
}

// ---------------------------------------------------------------------------------------------
// one BFS step = replay a history on a fresh socket, judge it, return the canonical key
// ---------------------------------------------------------------------------------------------

struct Judged {
    key: u64,
    expand: bool,
    log: Vec<L>,
    new_viol: Vec<Viol>,
    nexts: u32,
    execs: u32,
    closes: bool,
}

fn replay_history(p: Protocols, hist: &[Ev], max_unread: usize) -> Option<Judged> {
    let mut sim = Sim::new(p, max_unread);
    let mut last_start = 0;
    for (pos, ev) in hist.iter().enumerate() {
        last_start = lock(&sim.w).log.len();
        if !sim.apply(*ev, pos, false, true) {
            return None;
        }
    }
    let log = sim.log();
    let mon = run_monitor(p, &log);
    let last_outs: Vec<String> = log[last_start..]
        .iter()
        .filter_map(|l| match l {
            L::Out(Out::Text { ty, id, .. }) => Some(format!("{ty}:{}", id.clone().unwrap_or_default())),
            L::Out(Out::Close(c, _)) => Some(format!("close:{c}")),
            L::End => Some("end".into()),
            _ => None,
        })
        .collect();
    let key = state_key(&sim, &mon, &last_outs);
    let unrecoverable = mon.viol.iter().any(|v| !v.recoverable);
    let new_viol: Vec<Viol> = mon.viol.iter().filter(|v| v.at >= last_start).cloned().collect();
    let closes = log.iter().any(|l| matches!(l, L::Out(Out::Close(..))) || matches!(l, L::Out(Out::Text{ty, ..}) if ty == "connection_error"));
    Some(Judged { key, expand: !sim.ended && !unrecoverable, log, new_viol, nexts: mon.nexts, execs: mon.execs, closes })
}

fn report(cx: &Cx, p: Protocols, family: &str, hist: &[String], log: &[L], v: &Viol) {
    let case = json!({"family": family, "protocol": proto_name(p), "history": hist, "log": log_json(log)});
    let mut viol = Violation::new(v.class, format!("[{} | history {}] {}", proto_name(p), hist.join(" "), v.detail), case);
    for (k, val) in &v.keys {
        viol = viol.key(k, val.clone());
    }
    viol = viol.key("last_event", hist.last().cloned().unwrap_or_default());
    cx.violation(viol);
}

fn explore(cx: &Cx, p: Protocols, depth: usize, max_unread: usize, found: &Mutex<Vec<(Protocols, Vec<Ev>, Viol)>>) -> agv_engine::bfs::BfsStats {
    let alpha = alphabet();
    let step = |hist: &[Ev]| -> Option<Step> {
        let j = replay_history(p, hist, max_unread)?;
        cx.eval();
        let names: Vec<String> = hist.iter().map(|e| ev_name(*e)).collect();
        if !j.new_viol.is_empty() {
            // reported after the search, sorted (shortest history first), so that the run's output is
            // the same on every run although the level is explored in parallel
            let mut f = found.lock().unwrap();
            for v in &j.new_viol {
                f.push((p, hist.to_vec(), v.clone()));
            }
        }
        // non-trivial: the history made the server deliver a result of an executed operation, or close /
        // report an error; identity = canonical state
        if (j.execs > 0 && j.nexts > 0) || j.closes {
            cx.nontrivial(j.key);
        }
        cx.sample_with(agv_engine::h64(&(proto_name(p), &names)), || json!({"protocol": proto_name(p), "history": names, "log": log_json(&j.log)}));
        Some(Step { key: j.key, expand: j.expand })
    };
    bfs(&alpha, &BfsCfg { max_depth: depth, max_states: 20_000_000 }, &step)
}

// ---------------------------------------------------------------------------------------------
// second family: two streams ready in the same poll (HashMap iteration order not owned → any order)
// ---------------------------------------------------------------------------------------------

fn two_ready(cx: &Cx, p: Protocols, reps: usize) -> u64 {
    let mut runs = 0u64;
    let acts = [Ev::Yield(1), Ev::EndStream(1)];
    let acts2 = [Ev::Yield(2), Ev::EndStream(2)];
    let extras: [Option<Msg>; 4] = [None, Some(Msg::Stop(1)), Some(Msg::Stop(2)), Some(Msg::Sub(1))];
    for a1 in acts {
        for a2 in acts2 {
            for extra in extras {
                for order in 0..2 {
                    for _rep in 0..reps {
                        let mut sim = Sim::new(p, 8);
                        let mut hist = vec![Ev::Client(Msg::Init, true), Ev::Accept, Ev::Client(Msg::Sub(1), true), Ev::Client(Msg::Sub(2), true)];
                        if let Some(m) = extra {
                            hist.push(Ev::Client(m, false));
                        }
                        if order == 0 {
                            hist.extend([a1, a2]);
                        } else {
                            hist.extend([a2, a1]);
                        }
                        let mut ok = true;
                        let mut last_start = 0;
                        for (pos, ev) in hist.iter().enumerate() {
                            // the last three events are made ready without polling; one pump at the end
                            let poll = pos < 4;
                            if pos == 4 {
                                last_start = lock(&sim.w).log.len();
                            }
                            ok &= sim.apply(*ev, pos, true, poll);
                        }
                        if !ok {
                            cx.machinery_error(format!("two-ready family: an event of {:?} was not enabled", hist.iter().map(|e| ev_name(*e)).collect::<Vec<_>>()));
                            return runs;
                        }
                        sim.pump();
                        runs += 1;
                        cx.eval();
                        let log = sim.log();
                        let mon = run_monitor(p, &log);
                        let mut names: Vec<String> = hist.iter().map(|e| ev_name(*e)).collect();
                        names.insert(4, "|both-ready-in-one-poll:".into());
                        for v in &mon.viol {
                            report(cx, p, "two-ready", &names, &log, v);
                        }
                        // what must come out, in any order: per id, `next` if it yielded and was not stopped /
                        // replaced first; `complete` if it ended or was stopped
                        let gt = is_gtws(p);
                        let data = if gt { "next" } else { "data" };
                        let mut want: Vec<String> = Vec::new();
                        for (id, act) in [(1u8, a1), (2u8, a2)] {
                            let stopped = extra == Some(Msg::Stop(id));
                            let resub = extra == Some(Msg::Sub(id));
                            if stopped {
                                want.push(format!("complete:{id}"));
                            } else if resub {
                                // gtws: 4409 closes (known finding on the unchanged tree: replaced); judged by the monitor only
                            } else if matches!(act, Ev::Yield(_)) {
                                want.push(format!("{data}:{id}"));
                            } else {
                                want.push(format!("complete:{id}"));
                            }
                        }
                        if extra != Some(Msg::Sub(1)) {
                            let mut got: Vec<String> = log[last_start..]
                                .iter()
                                .filter_map(|l| match l {
                                    L::Out(Out::Text { ty, id, .. }) => Some(format!("{ty}:{}", id.clone().unwrap_or_default())),
                                    L::Out(Out::Close(c, _)) => Some(format!("close:{c}")),
                                    _ => None,
                                })
                                .collect();
                            got.sort();
                            want.sort();
                            if got != want && mon.viol.is_empty() {
                                let v = Viol {
                                    class: "two-ready-output-set",
                                    keys: vec![("protocol", proto_name(p).to_string())],
                                    detail: format!("with both streams ready in one poll the server must emit {want:?} in some order; it emitted {got:?}"),
                                    at: 0,
                                    recoverable: false,
                                };
                                report(cx, p, "two-ready", &names, &log, &v);
                            }
                        }
                        cx.nontrivial(agv_engine::h64(&("two-ready", proto_name(p), &names)));
                    }
                }
            }
        }
    }
    runs
}

// ---------------------------------------------------------------------------------------------

pub fn run(cx: &Cx) {
    let depth = cx.tier.pick(6, 8);
    let max_unread = cx.tier.pick(3, 4);
    cx.rule(
        "case = (protocol, event history) replayed on a fresh real WebSocket. Alphabet (29): 11 client messages {connection_init, subscribe/start id 1, id 2, \
         complete/stop 1, 2, never-used id 9, ping, pong, connection_terminate, non-JSON text, end of input} each as 'deliver and poll' and as 'queue without poll' \
         (bursts reach the inner read loop; repeated init / repeated live id arise by repetition), initialiser accepts / rejects (before or after it is called), \
         stream 1/2 yields, stream 1/2 ends, keep-alive delay elapses. BFS over canonical states, every enabled event from every state. \
         Non-trivial = the server delivered a result of an executed operation, or sent a close frame / connection_error; counted by distinct canonical state.",
    );
    cx.assume("at most one subscription stream is ready per poll in the BFS (WebSocket.streams is a RandomState HashMap); the two-streams-ready family covers simultaneous readiness and accepts either order");
    cx.assume("the server's echo of `complete` in reply to a client complete/stop is accepted as that operation's single completion");
    cx.assume("LEGACY (graphql-ws / subscriptions-transport-ws) defines no close codes: an unparsable message must be answered by connection_error or a close frame, connection_terminate must end the connection, a duplicate live id may replace; `pong` replies under LEGACY are not judged");
    cx.assume("no particular close code is demanded when the initialiser rejects (graphql-transport-ws only recommends 4403) or when the keep-alive delay expires; reason strings are not compared");
    cx.assume("the socket is not polled again after poll_next returned None (Stream contract); default on_ping handler (always ready)");
    cx.assume("state merging: two histories are merged when harness-visible socket inputs (handshake progress, unread input, every held stream with its remaining script, timer) and the full monitor state agree");
    cx.assume(&format!("unread client input is capped at {max_unread} messages (burst length / messages waiting behind a pending initialiser)"));

    let found: Mutex<Vec<(Protocols, Vec<Ev>, Viol)>> = Mutex::new(Vec::new());
    let mut all_exhausted = true;
    let mut per = serde_json::Map::new();
    for p in [Protocols::GraphQLWS, Protocols::SubscriptionsTransportWS] {
        let st = explore(cx, p, depth, max_unread, &found);
        cx.add_states(st.states);
        cx.add_transitions(st.transitions);
        cx.add_traces(st.transitions + 1);
        let exhausted = !st.capped && st.depth_completed < depth;
        all_exhausted &= !st.capped;
        if st.capped {
            cx.machinery_error(format!("{}: state cap reached at depth {}", proto_name(p), st.depth_completed));
        }
        per.insert(
            proto_name(p).to_string(),
            json!({
                "states": st.states,
                "transitions": st.transitions,
                "depth_completed": st.depth_completed,
                "reachable_space_closed_before_bound": exhausted,
                "per_depth_new_states_transitions": st.per_level.iter().map(|(s, t)| json!([s, t])).collect::<Vec<_>>(),
            }),
        );
    }
    {
        let mut f = found.into_inner().unwrap();
        f.sort_by_cached_key(|(p, h, v)| (h.len(), proto_name(*p), h.iter().map(|e| ev_name(*e)).collect::<Vec<_>>(), v.at, v.class));
        for (p, h, v) in &f {
            // the log is regenerated by replaying the history once more (cheap) instead of being kept
            let names: Vec<String> = h.iter().map(|e| ev_name(*e)).collect();
            let log = replay_history(*p, h, max_unread).map(|j| j.log).unwrap_or_default();
            report(cx, *p, "bfs", &names, &log, v);
        }
    }
    let mut two = 0;
    for p in [Protocols::GraphQLWS, Protocols::SubscriptionsTransportWS] {
        two += two_ready(cx, p, cx.tier.pick(8, 32));
    }
    cx.add_traces(two);
    cx.extra("bfs", serde_json::Value::Object(per));
    cx.extra("depth_bound", json!(depth));
    cx.extra("max_unread_input", json!(max_unread));
    cx.extra("alphabet_size", json!(alphabet().len()));
    cx.extra("two_streams_ready_runs", json!(two));
    cx.exhaustive(all_exhausted);
}

pub fn replay(case: &serde_json::Value) -> String {
    let p = if case["protocol"].as_str() == Some("graphql-transport-ws") { Protocols::GraphQLWS } else { Protocols::SubscriptionsTransportWS };
    let names: Vec<String> = case["history"].as_array().map(|a| a.iter().filter_map(|x| x.as_str().map(|s| s.to_string())).collect()).unwrap_or_default();
    let two = case["family"].as_str() == Some("two-ready");
    let mut sim = Sim::new(p, 8);
    let mut pos = 0;
    let mut nopoll = false;
    for n in &names {
        if n.starts_with('|') {
            nopoll = true;
            continue;
        }
        let Some(ev) = ev_parse(n) else { return format!("unknown event {n}") };
        if !sim.apply(ev, pos, two, !nopoll) {
            return format!("event {n} (#{pos}) is not enabled");
        }
        pos += 1;
    }
    if nopoll {
        sim.pump();
    }
    let log = sim.log();
    let mon = run_monitor(p, &log);
    let mut s = format!("protocol {} history {:?}\n", proto_name(p), names);
    for l in log_json(&log).as_array().unwrap() {
        s.push_str(&format!("  {}\n", l.as_str().unwrap_or("")));
    }
    if mon.viol.is_empty() {
        s.push_str("monitor: no violation");
    }
    for v in &mon.viol {
        s.push_str(&format!("monitor: {} {:?}: {}\n", v.class, v.keys, v.detail));
    }
    s
}

fn main() {
    agv_engine::driver::main("C25", "model_checking", run, Some(replay))
}
