//! `agv <ID> <quick|thorough> [--replay FILE]` — one module per property.

use agv_engine::record::{Cx, Tier};
use std::path::PathBuf;

mod c07;

pub struct Check {
    pub id: &'static str,
    pub level: &'static str,
    pub run: fn(&Cx),
    pub replay: Option<fn(&serde_json::Value) -> String>,
}

fn table() -> Vec<Check> {
    vec![
        Check { id: "C07", level: "exploration", run: c07::run, replay: Some(c07::replay) },
    ]
}

fn verif_root() -> PathBuf {
    if let Ok(p) = std::env::var("AGV_ROOT") {
        return PathBuf::from(p);
    }
    // target/agv/agv -> /verif
    let exe = std::env::current_exe().unwrap();
    exe.parent().and_then(|p| p.parent()).and_then(|p| p.parent()).map(|p| p.to_path_buf()).unwrap_or_else(|| PathBuf::from("/verif"))
}

fn main() {
    let args: Vec<String> = std::env::args().skip(1).collect();
    if args.is_empty() {
        eprintln!("usage: agv <ID> <quick|thorough> [--replay FILE] | agv --list");
        std::process::exit(2);
    }
    let tbl = table();
    if args[0] == "--list" {
        for c in &tbl {
            println!("{} {}", c.id, c.level);
        }
        return;
    }
    let id = args[0].as_str();
    let Some(chk) = tbl.iter().find(|c| c.id == id) else {
        eprintln!("MACHINERY: no check registered for {id}");
        std::process::exit(2);
    };
    if let Some(i) = args.iter().position(|a| a == "--replay") {
        let Some(path) = args.get(i + 1) else {
            eprintln!("--replay needs a file");
            std::process::exit(2);
        };
        let text = std::fs::read_to_string(path).unwrap_or_else(|e| {
            eprintln!("cannot read {path}: {e}");
            std::process::exit(2)
        });
        let v: serde_json::Value = serde_json::from_str(&text).unwrap_or_else(|e| {
            eprintln!("replay file is not JSON: {e}");
            std::process::exit(2)
        });
        println!("replaying {} class={} ", v["property"], v["class"]);
        println!("recorded: {}", v["detail"].as_str().unwrap_or(""));
        match chk.replay {
            Some(f) => println!("now: {}", f(&v["case"])),
            None => println!("(no single-case replayer for {id}; case = {})", v["case"]),
        }
        return;
    }
    let tier = match args.get(1).map(|s| s.as_str()).or(std::env::var("VERIF_TIER").ok().as_deref()) {
        Some("thorough") => Tier::Thorough,
        _ => Tier::Quick,
    };
    agv_engine::install_quiet_panic_hook();
    let cx = Cx::new(id, tier, chk.level, verif_root());
    let r = agv_engine::catch(|| (chk.run)(&cx));
    if let Err(p) = r {
        println!("MACHINERY-ERROR: check {id} panicked: {p}");
        std::process::exit(2);
    }
    std::process::exit(cx.finish());
}
