//! C07 — built-in scalars accept exactly their domain and round-trip.
//!
//! Seam: `InputType::parse(Some(Value))` / `InputType::to_value` (public trait).
//! Complete domains for 8/16-bit integers and their NonZero forms and for
//! `char`; boundary-dense menus for wider types (thorough: every i32/u32 and
//! every f32 bit pattern). Oracle in exact i128 arithmetic.

use agv_engine::record::{Cx, Violation};
use async_graphql::{Enum, InputType, Number, Value, ID};
use rayon::prelude::*;
use serde_json::json;
use std::num::*;

fn num(v: i128) -> Option<Value> {
    if v >= 0 && v <= u64::MAX as i128 {
        Some(Value::Number(Number::from(v as u64)))
    } else if v >= i64::MIN as i128 && v < 0 {
        Some(Value::Number(Number::from(v as i64)))
    } else {
        None
    }
}

/// Boundary-dense integer menu: within ±130 of 0, of ±2^k (k ≤ 64) — covers every type bound.
fn boundary_menu() -> Vec<i128> {
    let mut v = Vec::new();
    for k in 0..=64u32 {
        let p = 1i128 << k;
        for d in -130i128..=130 {
            v.push(p + d);
            v.push(-p + d);
        }
    }
    for d in -130i128..=130 {
        v.push(d);
    }
    v.retain(|x| *x >= i64::MIN as i128 && *x <= u64::MAX as i128);
    v.sort();
    v.dedup();
    v
}

fn wrong_kinds(for_int: bool) -> Vec<(&'static str, Value)> {
    let mut v = vec![
        ("null", Value::Null),
        ("bool", Value::Boolean(true)),
        ("string-of-number", Value::String("1".into())),
        ("enum", Value::Enum(async_graphql::Name::new("A"))),
        ("list", Value::List(vec![Value::Number(1.into())])),
        ("object", Value::Object(Default::default())),
        ("binary", Value::Binary(vec![1u8].into())),
    ];
    if for_int {
        v.push(("float-fractional", Value::Number(Number::from_f64(1.5).unwrap())));
        v.push(("float-huge", Value::Number(Number::from_f64(1e300).unwrap())));
    }
    v
}

struct IntSpec<T> {
    name: &'static str,
    lo: i128,
    hi: i128,
    nonzero: bool,
    to_i128: fn(&T) -> i128,
}

fn viol(cx: &Cx, class: &str, ty: &str, detail: String, offered: serde_json::Value) {
    cx.violation(Violation::new(class, detail, json!({"type": ty, "offered": offered})).key("type", ty));
}

fn check_int_value<T: InputType + PartialEq>(cx: &Cx, sp: &IntSpec<T>, v: i128) {
    let Some(val) = num(v) else { return };
    let in_dom = v >= sp.lo && v <= sp.hi && !(sp.nonzero && v == 0);
    let r = agv_engine::catch_quiet(|| T::parse(Some(val)));
    match r {
        Err(p) => viol(cx, "panic", sp.name, format!("parse({v}) panicked: {p}"), json!(v.to_string())),
        Ok(Ok(x)) => {
            if !in_dom {
                viol(cx, "accepts-out-of-domain", sp.name, format!("{} accepted {v} (domain {}..={}{})", sp.name, sp.lo, sp.hi, if sp.nonzero { " \\ {0}" } else { "" }), json!(v.to_string()));
            } else if (sp.to_i128)(&x) != v {
                viol(cx, "wrong-value", sp.name, format!("{} parsed {v} as {}", sp.name, (sp.to_i128)(&x)), json!(v.to_string()));
            } else {
                // round trip of the Rust value
                let back = T::parse(Some(x.to_value()));
                match back {
                    Ok(y) if y == x => {}
                    _ => viol(cx, "roundtrip", sp.name, format!("{}: parse(to_value({v})) != {v}", sp.name), json!(v.to_string())),
                }
            }
        }
        Ok(Err(_)) => {
            if in_dom {
                viol(cx, "rejects-in-domain", sp.name, format!("{} rejected {v}", sp.name), json!(v.to_string()));
            }
        }
    }
}

fn check_int<T: InputType + PartialEq>(cx: &Cx, sp: IntSpec<T>, complete: bool, menu: &[i128]) {
    let sp = &sp;
    if complete {
        // complete domain plus a margin of 300 on each side
        let lo = sp.lo - 300;
        let hi = sp.hi + 300;
        let n = (hi - lo + 1) as u64;
        agv_engine::par_range(n, 4096, &|i| check_int_value(cx, sp, lo + i as i128));
        cx.evals(n);
        cx.nontrivial_count((sp.hi - sp.lo + 1) as u64);
    }
    menu.par_iter().with_min_len(1024).for_each(|v| check_int_value(cx, sp, *v));
    cx.evals(menu.len() as u64);
    if !complete {
        cx.nontrivial_count(menu.iter().filter(|v| **v >= sp.lo && **v <= sp.hi).count() as u64);
    }
    for (kind, val) in wrong_kinds(true) {
        cx.eval();
        match agv_engine::catch_quiet(|| T::parse(Some(val.clone()))) {
            Ok(Err(_)) => {}
            Ok(Ok(_)) => viol(cx, "accepts-wrong-kind", sp.name, format!("{} accepted a {kind} value {val}", sp.name), json!(val.to_string())),
            Err(p) => viol(cx, "panic", sp.name, format!("parse({val}) panicked: {p}"), json!(val.to_string())),
        }
    }
    cx.sample(agv_engine::hstr(sp.name), json!({"type": sp.name, "domain": [sp.lo.to_string(), sp.hi.to_string()], "complete": complete}));
}

macro_rules! int_spec {
    ($t:ty, $name:expr) => {
        IntSpec::<$t> { name: $name, lo: <$t>::MIN as i128, hi: <$t>::MAX as i128, nonzero: false, to_i128: |x| *x as i128 }
    };
}
macro_rules! nz_spec {
    ($t:ty, $p:ty, $name:expr) => {
        IntSpec::<$t> { name: $name, lo: <$p>::MIN as i128, hi: <$p>::MAX as i128, nonzero: true, to_i128: |x| x.get() as i128 }
    };
}

fn f32_patterns(all: bool) -> Box<dyn Iterator<Item = u32> + Send> {
    if all {
        Box::new(0..=u32::MAX)
    } else {
        // sign × every exponent × mantissas with ≤ 11 significant high bits, plus all-ones tails
        Box::new((0u32..(1 << 21)).flat_map(|hi| {
            let base = hi << 11;
            [base, base | 0x7ff, base | 1].into_iter()
        }))
    }
}

fn check_f32_bits(cx: &Cx, bits: u32) {
    let x = f32::from_bits(bits);
    let v = x.to_value();
    match <f32 as InputType>::parse(Some(v.clone())) {
        Ok(y) if y.to_bits() == bits => {}
        Ok(y) => viol(cx, "roundtrip", "f32", format!("f32 bits {bits:#x} came back as {:#x}", y.to_bits()), json!(bits)),
        Err(_) => {
            let class = if x.is_finite() { "roundtrip" } else { "non-finite-float-serializes-null" };
            viol(cx, class, "f32", format!("f32 {x:?} (bits {bits:#x}) serializes to {v} which does not parse back"), json!(bits));
        }
    }
}

fn f64_menu() -> Vec<f64> {
    let mut v = vec![0.0, -0.0, 1.0, -1.0, 1.5, 0.1, 1e-7, 1e21, 5e-324, -5e-324, f64::MIN_POSITIVE, f64::MAX, f64::MIN, f64::EPSILON, f64::INFINITY, f64::NEG_INFINITY, f64::NAN, 9007199254740993.0, 1e300, 123456789.123456789];
    for k in 0..64 {
        let p = (1u64 << k) as f64;
        v.extend([p, -p, p + 1.0, p - 1.0, p * 1.0000000000000002, 1.0 / p]);
    }
    // every exponent with three mantissas, both signs
    for e in 0..2048u64 {
        for m in [0u64, 1, (1 << 52) - 1] {
            for s in [0u64, 1] {
                v.push(f64::from_bits((s << 63) | (e << 52) | m));
            }
        }
    }
    v
}

#[derive(Enum, Copy, Clone, Eq, PartialEq, Debug)]
enum E1 {
    X,
    Y,
    #[graphql(name = "renamed")]
    Z,
}
#[derive(Enum, Copy, Clone, Eq, PartialEq, Debug)]
#[graphql(rename_items = "lowercase")]
enum E2 {
    Alpha,
    Beta,
}

fn check_enum<T: InputType + PartialEq + Copy + std::fmt::Debug>(cx: &Cx, tyname: &str, items: &[(&str, T)]) {
    let names = ["X", "Y", "Z", "renamed", "x", "", "X2", "ALPHA", "alpha", "Alpha", "beta", "BETA", "true", "null"];
    for n in names {
        let expect = items.iter().find(|(k, _)| *k == n).map(|(_, v)| *v);
        for (form, val) in [("enum", Value::Enum(async_graphql::Name::new(n))), ("string", Value::String(n.to_string()))] {
            cx.eval();
            let got = agv_engine::catch_quiet(|| T::parse(Some(val.clone())));
            match (got, expect) {
                (Ok(Ok(g)), Some(e)) if g == e => cx.nontrivial(agv_engine::hstr(&format!("{tyname}/{n}/{form}"))),
                (Ok(Err(_)), None) => {}
                (Ok(Ok(g)), None) => viol(cx, "accepts-out-of-domain", tyname, format!("{tyname} accepted {form} {n:?} as {g:?}"), json!(n)),
                (Ok(Ok(g)), Some(e)) => viol(cx, "wrong-value", tyname, format!("{tyname} parsed {n:?} as {g:?}, expected {e:?}"), json!(n)),
                (Ok(Err(_)), Some(_)) => viol(cx, "rejects-in-domain", tyname, format!("{tyname} rejected its item {n:?} given as {form}"), json!(n)),
                (Err(p), _) => viol(cx, "panic", tyname, format!("parse panicked: {p}"), json!(n)),
            }
        }
    }
    for (_, item) in items {
        cx.eval();
        match T::parse(Some(item.to_value())) {
            Ok(y) if y == *item => {}
            _ => viol(cx, "roundtrip", tyname, format!("{tyname}: parse(to_value({item:?})) differs"), json!(format!("{item:?}"))),
        }
    }
    for (kind, val) in wrong_kinds(false) {
        if kind == "string-of-number" || kind == "enum" {
            continue;
        }
        cx.eval();
        if let Ok(Ok(_)) = agv_engine::catch_quiet(|| T::parse(Some(val.clone()))) {
            viol(cx, "accepts-wrong-kind", tyname, format!("{tyname} accepted a {kind} value {val}"), json!(val.to_string()));
        }
    }
    cx.eval();
    if let Ok(Ok(_)) = agv_engine::catch_quiet(|| T::parse(Some(Value::Number(1.into())))) {
        viol(cx, "accepts-wrong-kind", tyname, format!("{tyname} accepted the number 1"), json!(1));
    }
}

fn string_alphabet() -> Vec<&'static str> {
    vec!["a", "\"", "\\", "/", "\n", "\r", "\t", "\u{8}", "\u{c}", "\u{0}", "\u{1b}", "\u{7f}", "\u{85}", "\u{2028}", "é", "\u{ffff}", "😀"]
}

pub fn run(cx: &Cx) {
    let thorough = !cx.quick();
    cx.rule(
        "case = (Rust scalar type, offered GraphQL value). Complete integer domains (8/16-bit, NonZero; thorough: 32-bit) with a ±300 margin, \
         a boundary menu (±130 around 0 and ±2^k, k≤64) for every integer type, every char, f32 bit patterns (quick: 3·2^21 patterns covering every \
         sign/exponent; thorough: all 2^32), an f64 menu over every exponent, strings ≤2 over a 17-symbol alphabet, two derived enums, and one value of \
         every other GraphQL kind per type. Non-trivial = in-domain values (accepted, value-equal, round-tripped); counted distinct by construction.",
    );
    cx.assume("floats: accepting any JSON number for Float and rounding to f32 is not judged; only round-trip of Rust values and rejection of non-numbers are");
    cx.assume("Int given as a JSON float with integral value (1.0) is not judged (the spec leaves the encoding question open)");
    let menu = boundary_menu();
    let m = &menu[..];

    check_int(cx, int_spec!(i8, "i8"), true, m);
    check_int(cx, int_spec!(u8, "u8"), true, m);
    check_int(cx, int_spec!(i16, "i16"), true, m);
    check_int(cx, int_spec!(u16, "u16"), true, m);
    check_int(cx, int_spec!(i32, "i32"), thorough, m);
    check_int(cx, int_spec!(u32, "u32"), thorough, m);
    check_int(cx, int_spec!(i64, "i64"), false, m);
    check_int(cx, int_spec!(u64, "u64"), false, m);
    check_int(cx, int_spec!(isize, "isize"), false, m);
    check_int(cx, int_spec!(usize, "usize"), false, m);
    check_int(cx, nz_spec!(NonZeroI8, i8, "NonZeroI8"), true, m);
    check_int(cx, nz_spec!(NonZeroU8, u8, "NonZeroU8"), true, m);
    check_int(cx, nz_spec!(NonZeroI16, i16, "NonZeroI16"), true, m);
    check_int(cx, nz_spec!(NonZeroU16, u16, "NonZeroU16"), true, m);
    check_int(cx, nz_spec!(NonZeroI32, i32, "NonZeroI32"), thorough, m);
    check_int(cx, nz_spec!(NonZeroU32, u32, "NonZeroU32"), thorough, m);
    check_int(cx, nz_spec!(NonZeroI64, i64, "NonZeroI64"), false, m);
    check_int(cx, nz_spec!(NonZeroU64, u64, "NonZeroU64"), false, m);
    check_int(cx, nz_spec!(NonZeroIsize, isize, "NonZeroIsize"), false, m);
    check_int(cx, nz_spec!(NonZeroUsize, usize, "NonZeroUsize"), false, m);

    // char: every scalar value
    let chars: Vec<char> = (0u32..=0x10FFFF).filter_map(char::from_u32).collect();
    chars.par_iter().with_min_len(8192).for_each(|c| {
        let v = <char as InputType>::to_value(c);
        let ok = matches!(&v, Value::String(s) if s.chars().count() == 1) && matches!(<char as InputType>::parse(Some(v)), Ok(y) if y == *c);
        if !ok {
            viol(cx, "roundtrip", "char", format!("char U+{:04X} does not round-trip", *c as u32), json!(*c as u32));
        }
    });
    cx.evals(chars.len() as u64);
    cx.nontrivial_count(chars.len() as u64);
    let alpha = string_alphabet();
    for a in &alpha {
        for b in &alpha {
            cx.eval();
            let s = format!("{a}{b}");
            if <char as InputType>::parse(Some(Value::String(s.clone()))).is_ok() {
                viol(cx, "accepts-out-of-domain", "char", format!("char accepted the two-character string {s:?}"), json!(s));
            }
        }
    }
    cx.eval();
    if <char as InputType>::parse(Some(Value::String(String::new()))).is_ok() {
        viol(cx, "accepts-out-of-domain", "char", "char accepted the empty string".into(), json!(""));
    }
    for (kind, val) in wrong_kinds(false) {
        if kind == "string-of-number" {
            continue;
        }
        cx.eval();
        if <char as InputType>::parse(Some(val.clone())).is_ok() {
            viol(cx, "accepts-wrong-kind", "char", format!("char accepted a {kind} value"), json!(val.to_string()));
        }
    }

    // f32: bit patterns
    let pats: Vec<u32> = if thorough { Vec::new() } else { f32_patterns(false).collect() };
    if thorough {
        agv_engine::par_range(1 << 32, 1 << 16, &|b| check_f32_bits(cx, b as u32));
        cx.evals(1 << 32);
        cx.nontrivial_count(1 << 32);
    } else {
        pats.par_iter().with_min_len(1 << 14).for_each(|b| check_f32_bits(cx, *b));
        cx.evals(pats.len() as u64);
        let mut d = pats.clone();
        d.sort();
        d.dedup();
        cx.nontrivial_count(d.len() as u64);
    }
    // f64 menu: round trip + accepts integers
    let fm = f64_menu();
    for x in &fm {
        cx.eval();
        let v = <f64 as InputType>::to_value(x);
        match <f64 as InputType>::parse(Some(v.clone())) {
            Ok(y) if y.to_bits() == x.to_bits() => cx.nontrivial(agv_engine::h64(&("f64", x.to_bits()))),
            Ok(y) => viol(cx, "roundtrip", "f64", format!("f64 {x:?} came back as {y:?}"), json!(x.to_bits())),
            Err(_) => {
                let class = if x.is_finite() { "roundtrip" } else { "non-finite-float-serializes-null" };
                viol(cx, class, "f64", format!("f64 {x:?} serializes to {v} which does not parse back"), json!(x.to_bits()));
            }
        }
    }
    for v in m.iter().step_by(7) {
        cx.eval();
        let val = num(*v).unwrap();
        let exp = if *v >= 0 { (*v as u64) as f64 } else { (*v as i64) as f64 };
        match <f64 as InputType>::parse(Some(val)) {
            Ok(y) if y == exp => {}
            other => viol(cx, "rejects-in-domain", "f64", format!("Float given integer {v}: {:?}", other.map_err(|_| "error")), json!(v.to_string())),
        }
        match <f32 as InputType>::parse(num(*v)) {
            Ok(y) if y == exp as f32 => {}
            other => viol(cx, "rejects-in-domain", "f32", format!("Float given integer {v}: {:?}", other.map_err(|_| "error")), json!(v.to_string())),
        }
    }
    for (kind, val) in wrong_kinds(false) {
        cx.evals(2);
        if <f64 as InputType>::parse(Some(val.clone())).is_ok() {
            viol(cx, "accepts-wrong-kind", "f64", format!("f64 accepted a {kind} value"), json!(val.to_string()));
        }
        if <f32 as InputType>::parse(Some(val.clone())).is_ok() {
            viol(cx, "accepts-wrong-kind", "f32", format!("f32 accepted a {kind} value"), json!(val.to_string()));
        }
    }

    // bool
    for b in [true, false] {
        cx.eval();
        if !matches!(<bool as InputType>::parse(Some(<bool as InputType>::to_value(&b))), Ok(y) if y == b) {
            viol(cx, "roundtrip", "bool", format!("bool {b} does not round-trip"), json!(b));
        } else {
            cx.nontrivial(agv_engine::h64(&("bool", b)));
        }
    }
    for (kind, val) in wrong_kinds(false).into_iter().chain([("number", Value::Number(1.into())), ("string-true", Value::String("true".into()))]) {
        if kind == "bool" {
            continue;
        }
        cx.eval();
        if <bool as InputType>::parse(Some(val.clone())).is_ok() {
            viol(cx, "accepts-wrong-kind", "bool", format!("bool accepted a {kind} value"), json!(val.to_string()));
        }
    }

    // String / ID over strings ≤ 2
    let mut strings: Vec<String> = vec![String::new()];
    for a in &alpha {
        strings.push(a.to_string());
        for b in &alpha {
            strings.push(format!("{a}{b}"));
        }
    }
    for s in &strings {
        cx.evals(2);
        if !matches!(<String as InputType>::parse(Some(<String as InputType>::to_value(s))), Ok(y) if y == *s) {
            viol(cx, "roundtrip", "String", format!("String {s:?} does not round-trip"), json!(s));
        }
        let id = ID(s.clone());
        if !matches!(<ID as InputType>::parse(Some(<ID as InputType>::to_value(&id))), Ok(y) if y == id) {
            viol(cx, "roundtrip", "ID", format!("ID {s:?} does not round-trip"), json!(s));
        }
        cx.nontrivial(agv_engine::h64(&("str", s)));
    }
    for v in m.iter().step_by(11).filter(|v| **v >= i64::MIN as i128 && **v <= i64::MAX as i128) {
        cx.eval();
        match <ID as InputType>::parse(num(*v)) {
            Ok(id) if id.0 == v.to_string() => {}
            other => viol(cx, "rejects-in-domain", "ID", format!("ID given integer {v}: {:?}", other.map(|i| i.0).map_err(|_| "error")), json!(v.to_string())),
        }
    }
    for (kind, val) in wrong_kinds(false).into_iter().chain([("number", Value::Number(1.into()))]) {
        cx.evals(2);
        if kind != "string-of-number" && <String as InputType>::parse(Some(val.clone())).is_ok() {
            viol(cx, "accepts-wrong-kind", "String", format!("String accepted a {kind} value"), json!(val.to_string()));
        }
        if kind != "string-of-number" && kind != "number" && <ID as InputType>::parse(Some(val.clone())).is_ok() {
            viol(cx, "accepts-wrong-kind", "ID", format!("ID accepted a {kind} value"), json!(val.to_string()));
        }
    }
    cx.eval();
    if <ID as InputType>::parse(Some(Value::Number(Number::from_f64(1.5).unwrap()))).is_ok() {
        viol(cx, "accepts-wrong-kind", "ID", "ID accepted 1.5".into(), json!(1.5));
    }

    check_enum::<E1>(cx, "E1", &[("X", E1::X), ("Y", E1::Y), ("renamed", E1::Z)]);
    check_enum::<E2>(cx, "E2", &[("alpha", E2::Alpha), ("beta", E2::Beta)]);

    cx.exhaustive(true);
    cx.extra("complete_domains", json!(if thorough { "i8 u8 i16 u16 i32 u32 NonZero{I,U}{8,16,32} char f32(all bit patterns)" } else { "i8 u8 i16 u16 NonZero{I,U}{8,16} char" }));
}

pub fn replay(case: &serde_json::Value) -> String {
    let ty = case["type"].as_str().unwrap_or("");
    let off = &case["offered"];
    macro_rules! go {
        ($t:ty) => {{
            let v: i128 = off.as_str().and_then(|s| s.parse().ok()).unwrap_or(0);
            format!("{}::parse({v}) = {:?}", ty, <$t as InputType>::parse(num(v)).map_err(|e| e.into_server_error(Default::default()).message))
        }};
    }
    match ty {
        "i8" => go!(i8),
        "u8" => go!(u8),
        "i16" => go!(i16),
        "u16" => go!(u16),
        "i32" => go!(i32),
        "u32" => go!(u32),
        "i64" => go!(i64),
        "u64" => go!(u64),
        "isize" => go!(isize),
        "usize" => go!(usize),
        "NonZeroI8" => go!(NonZeroI8),
        "NonZeroU8" => go!(NonZeroU8),
        "NonZeroI16" => go!(NonZeroI16),
        "NonZeroU16" => go!(NonZeroU16),
        "NonZeroI32" => go!(NonZeroI32),
        "NonZeroU32" => go!(NonZeroU32),
        "NonZeroI64" => go!(NonZeroI64),
        "NonZeroU64" => go!(NonZeroU64),
        "f32" => {
            let b = off.as_u64().unwrap_or(0) as u32;
            let x = f32::from_bits(b);
            format!("f32 {x:?}: to_value = {}, parse back = {:?}", x.to_value(), <f32 as InputType>::parse(Some(x.to_value())).is_ok())
        }
        "f64" => {
            let x = f64::from_bits(off.as_u64().unwrap_or(0));
            format!("f64 {x:?}: to_value = {}, parse back = {:?}", x.to_value(), <f64 as InputType>::parse(Some(x.to_value())).is_ok())
        }
        _ => format!("type {ty}: offered {off} (re-run the check; no single-case replayer for this type)"),
    }
}

fn main() {
    agv_engine::driver::main("C07", "exploration", run, Some(replay))
}
