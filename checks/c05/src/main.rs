//! C05 — responses do not depend on the order in which concurrent resolvers complete.
//!
//! Every resolver of S1 awaits a gate named after its response path; the
//! controlled scheduler (engine::sched, Eager policy) opens the gates in EVERY
//! order the causality allows. For each (document, world with ≤ 2 faults) the
//! observation (data text, multiset of error (path, locations)) must be the
//! same in every schedule, and equal to the reference where it is determinate.

use agv_common::glue::{obs_of, table_json, ChooserWorld, MenuCfg, Obs};
use agv_common::s1::{self, Wd};
use agv_engine::explore::{explore, Chooser, Class, ExploreCfg};
use agv_engine::record::{Cx, Violation};
use agv_engine::sched::{self, End, Handle, Policy, RunCfg};
use agv_refgql::exec::{execute, path_str};
use agv_refgql::schema::Schema;
use async_graphql::Request;
use serde_json::{json, Value as J};
use std::collections::{BTreeMap, HashMap};
use std::sync::{Arc, Mutex};

const DOCS_QUICK: &[&str] = &[
    "{ a n n2 }",
    "{ a n o { a n } }",
    "{ n onn { a n } a }",
    "{ l { a n } n }",
    "{ ln { a } a }",
    "{ lu { ... on A { a } ... on B { pb a } } n }",
    "{ i { a n } u { ... on A { n } } }",
    "{ gnn g a }",
    "{ o { o { a n } n } n }",
    "{ lnn { a } lo { a } }",
];
const DOCS_MORE: &[&str] = &[
    "{ a n n2 g }",
    "{ l { a n } ln { a n } }",
    "{ o { a n n2 } onn { a n } }",
    "{ lI { a n } lu { ... on C { pc } } a }",
    "{ ll li lin n a }",
    "{ o { l { a } } n }",
];

struct Run {
    doc: usize,
    table: BTreeMap<String, agv_refgql::exec::Ans>,
    obs: Option<Obs>,
    end: End,
    schedule: Vec<String>,
    choices: Vec<u32>,
    ref_data: String,
    ref_errs: Vec<String>,
    gates_seen: usize,
}

fn run_one(refs: &Schema, schema: &s1::S1, dynamic: Option<&async_graphql::dynamic::Schema>, docs: &[&str], ch: &mut Chooser, list_len2: bool) -> Run {
    let di = ch.any("doc", docs.len());
    let text = docs[di];
    let doc = agv_refgql::parse::parse_exec(text).expect("fixed document parses");
    // world: faults only (≤ bound), lists of length 2 so that list items run concurrently
    let mut table: BTreeMap<String, agv_refgql::exec::Ans> = BTreeMap::new();
    let (reference, table2) = {
        let filter = |_: &[agv_refgql::exec::Seg], _: &agv_refgql::ast::Type, _: bool, a: &agv_refgql::exec::Ans| matches!(a, agv_refgql::exec::Ans::Err);
        let mut w = ChooserWorld {
            s: refs,
            ch,
            cfg: MenuCfg { errors: true, non_finite: false, wrong_kind: false, rich: false },
            class: Class::Dev(1),
            fault_class: Some(Class::Dev(1)),
            table: if list_len2 { list2_defaults(text) } else { Default::default() },
            asked: 0,
            filter: Some(&filter),
        };
        let r = execute(refs, &doc, None, &Default::default(), &mut w);
        (r, w.table)
    };
    table.extend(table2);
    let h = Handle::new();
    let mut wdv = Wd::new(table.clone());
    wdv.gates = Some(h.clone());
    let wd = Arc::new(wdv);
    let req = Request::new(text).data(wd.clone());
    let cfg = RunCfg { policy: Policy::Eager, gate_class: Class::Exhaustive, preempt_class: Class::Dev(3), max_steps: 5000 };
    let r = match dynamic {
        Some(d) => sched::run(&h, ch, &cfg, d.execute(req), &mut |_| {}),
        None => sched::run(&h, ch, &cfg, schema.execute(req), &mut |_| {}),
    };
    let gates_seen = r.schedule.len();
    Run {
        doc: di,
        table,
        obs: r.output.as_ref().map(obs_of),
        end: r.end,
        schedule: r.schedule,
        choices: ch.choices(),
        ref_data: reference.data.map(|d| serde_json::to_string(&d).unwrap()).unwrap_or_default(),
        ref_errs: reference.errors.iter().map(|e| path_str(&e.path)).collect(),
        gates_seen,
    }
}

/// list-valued root fields get two items so that item resolvers run concurrently
fn list2_defaults(text: &str) -> BTreeMap<String, agv_refgql::exec::Ans> {
    let mut t = BTreeMap::new();
    for f in ["l", "ln", "lnn", "lo", "lu", "lI", "li", "lin"] {
        if text.contains(&format!(" {f} ")) || text.contains(&format!("{{ {f} ")) {
            t.insert(f.to_string(), agv_refgql::exec::Ans::List(2));
        }
    }
    t
}

fn run(cx: &Cx) {
    let refs = match Schema::from_sdl(s1::SDL) {
        Ok(s) => s,
        Err(e) => return cx.machinery_error(format!("S1 reference SDL: {e}")),
    };
    let schema = s1::schema();
    let mut docs: Vec<&str> = DOCS_QUICK.to_vec();
    if !cx.quick() {
        docs.extend_from_slice(DOCS_MORE);
    }
    let faults = 2u32;
    cx.exhaustive(true);
    // determinism self-test: one recorded schedule replayed twice must give identical observations
    {
        let mut c1 = Chooser::from_choices(&[1, 1, 0, 1]);
        let a = run_one(&refs, &schema, None, &docs, &mut c1, true);
        let mut c2 = Chooser::from_choices(&[1, 1, 0, 1]);
        let b = run_one(&refs, &schema, None, &docs, &mut c2, true);
        if a.obs != b.obs || a.schedule != b.schedule {
            return cx.machinery_error("replaying one schedule twice gave different observations: the harness does not own all nondeterminism");
        }
    }
    // group key -> (first observation, its schedule, count, distinct observations)
    struct Group {
        first: (String, Vec<(String, Vec<(u32, u32)>)>),
        sched0: Vec<String>,
        n: u64,
        reported: bool,
    }
    let dynamic_schema = match agv_common::dynamic::build(&refs, agv_common::dynamic::Encoding::default()) {
        Ok(d) => d,
        Err(e) => return cx.machinery_error(format!("dynamic twin of S1 does not build: {e}")),
    };
    let mut total_groups = 0usize;
    let mut multi_total = 0usize;
    let mut max_orders_total = 0u64;
    let mut schedules_total = 0u64;
    // a delegating extension switches resolve_list / Fields::add_set to their "extensions present" branches
    struct Nop;
    impl async_graphql::extensions::Extension for Nop {}
    impl async_graphql::extensions::ExtensionFactory for Nop {
        fn create(&self) -> Arc<dyn async_graphql::extensions::Extension> {
            Arc::new(Nop)
        }
    }
    let schema_ext = s1::builder().extension(Nop).finish();
    let dynamic_ext = match agv_common::dynamic::build_with(&refs, agv_common::dynamic::Encoding::default(), |b| b.extension(Nop)) {
        Ok(d) => d,
        Err(e) => return cx.machinery_error(format!("dynamic twin of S1 (with extension) does not build: {e}")),
    };
    for (flavour, schema, dynamic) in [("static", &schema, None), ("static+extension", &schema_ext, None), ("dynamic", &schema, Some(&dynamic_schema)), ("dynamic+extension", &schema, Some(&dynamic_ext))] {
    // guards exist only in the derive schema
    let docs: Vec<&str> = docs.iter().copied().filter(|d| dynamic.is_none() || !d.contains("gnn")).collect();
    let groups: Mutex<HashMap<String, Group>> = Mutex::new(HashMap::new());
    let st = explore(
        &ExploreCfg { bounds: [0, faults, 0, 0], ..Default::default() },
        &|ch: &mut Chooser| run_one(&refs, schema, dynamic, &docs, ch, true),
        &|_, r: Run| {
            cx.eval();
            cx.add_traces(1);
            cx.add_transitions(r.schedule.len() as u64);
            let text = docs[r.doc];
            let case = json!({"query": text, "world": table_json(&r.table), "schedule": r.schedule, "choices": r.choices});
            let key = format!("{}|{:?}", docs[r.doc], r.table);
            if r.end != End::Done || r.obs.is_none() {
                cx.violation(Violation::new(if r.end == End::Deadlock { "deadlock" } else { "no-termination" }, format!("execution ended {:?} after schedule {:?}", r.end, r.schedule), case).key("flavour", flavour));
                return;
            }
            let obs = r.obs.unwrap();
            let view = (obs.data.clone(), obs.error_keys());
            let mut g = groups.lock().unwrap();
            match g.get_mut(&key) {
                None => {
                    // compare the first schedule of the group with the reference as well
                    let mut ref_view_errs: Vec<String> = r.ref_errs.clone();
                    ref_view_errs.sort();
                    if obs.data != r.ref_data {
                        // data must match the reference in every order (unique whatever gets cancelled)
                        cx.violation(
                            Violation::new("data-differs-from-reference", format!("expected data {} got {} (errors {:?})", r.ref_data, obs.data, obs.error_keys()), case.clone()).key("flavour", flavour),
                        );
                    }
                    g.insert(key, Group { first: view, sched0: r.schedule.clone(), n: 1, reported: false });
                    cx.add_states(1);
                }
                Some(gr) => {
                    gr.n += 1;
                    if gr.first != view && !gr.reported {
                        gr.reported = true;
                        let what = if gr.first.0 != view.0 { "data" } else { "error-set" };
                        cx.violation(
                            Violation::new(
                                format!("{what}-depends-on-completion-order"),
                                format!(
                                    "schedule {:?} gives data {} errors {:?}\n schedule {:?} gives data {} errors {:?}\n reference: data {} errors at {:?}",
                                    gr.sched0, gr.first.0, gr.first.1, r.schedule, view.0, view.1, r.ref_data, r.ref_errs
                                ),
                                case,
                            )
                            .key("flavour", flavour),
                        );
                    }
                }
            }
            if r.gates_seen >= 2 {
                cx.nontrivial(agv_engine::h64(&(flavour, r.doc, format!("{:?}", r.table), &r.schedule)));
            }
            let h = agv_engine::h64(&(r.doc, &r.schedule, format!("{:?}", r.table)));
            cx.sample_with(h, || json!({"query": text, "world": table_json(&r.table), "schedule": r.schedule, "data": obs.data}));
        },
    );
    if let Some(d) = st.diverged {
        cx.machinery_error(d);
    }
    let g = groups.lock().unwrap();
    total_groups += g.len();
    multi_total += g.values().filter(|x| x.n > 1).count();
    max_orders_total = max_orders_total.max(g.values().map(|x| x.n).max().unwrap_or(0));
    schedules_total += st.executions;
    if st.capped {
        cx.exhaustive(false);
    }
    }
    let (multi, max_orders) = (multi_total, max_orders_total);
    cx.rule(&format!(
        "case = (document, world, completion order). {} fixed documents over S1 (sibling scalars, nested objects, lists of objects with 2 items, interface/union lists, guards, nested lists) × every world with ≤ {faults} failing resolvers/guards among the visited positions × EVERY order of opening the resolver gates (a gate exists once its resolver started; cancelled resolvers' gates disappear). Non-trivial = executions with ≥ 2 gate openings, distinct by (document, world, schedule). states = (document, world) groups, transitions = gate openings, traces = executions of the real executor.",
        docs.len()
    ));
    cx.extra("groups", json!(total_groups));
    cx.extra("groups_with_several_orders", json!(multi));
    cx.extra("max_orders_in_a_group", json!(max_orders));
    cx.extra("schedules", json!(schedules_total));
    cx.extra("fault_bound", json!(faults));
    cx.assume("S1's resolvers are deterministic functions of (path, world); the scheduler is the only source of completion order (one schedule replayed twice gives identical observations, checked at start-up)");
    cx.assume("four flavours: S1 (derive) and its dynamic twin, each without and with a delegating extension (the executor has separate code paths when extensions are present)");
}

fn replay(case: &J) -> String {
    let refs = Schema::from_sdl(s1::SDL).unwrap();
    let schema = s1::schema();
    let text = case["query"].as_str().unwrap_or("").to_string();
    let table = agv_common::glue::table_from_json(&case["world"]);
    let wanted: Vec<String> = case["schedule"].as_array().map(|a| a.iter().filter_map(|x| x.as_str().map(|s| s.to_string())).collect()).unwrap_or_default();
    let _ = refs;
    // replay by gate names: at every step open the gate the recorded schedule names
    let h = Handle::new();
    let mut wdv = Wd::new(table);
    wdv.gates = Some(h.clone());
    let wd = Arc::new(wdv);
    let req = Request::new(text.clone()).data(wd);
    // try all orders until the schedule matches (small spaces): use explore sequentially
    let found: Mutex<Option<String>> = Mutex::new(None);
    let _ = h;
    explore(
        &ExploreCfg { parallel: false, ..Default::default() },
        &|ch: &mut Chooser| {
            let h = Handle::new();
            let mut wdv = Wd::new(agv_common::glue::table_from_json(&case["world"]));
            wdv.gates = Some(h.clone());
            let req = Request::new(text.clone()).data(Arc::new(wdv));
            let r = sched::run(&h, ch, &RunCfg::default(), schema.execute(req), &mut |_| {});
            (r.schedule, r.output.as_ref().map(obs_of))
        },
        &|_, (s, o)| {
            if s == wanted {
                *found.lock().unwrap() = Some(format!("schedule {:?} -> {}", s, o.map(|o| o.to_json().to_string()).unwrap_or_default()));
            }
        },
    );
    drop(req);
    found.into_inner().unwrap().unwrap_or_else(|| "recorded schedule is no longer reachable".into())
}

fn main() {
    agv_engine::driver::main("C05", "model_checking", run, Some(replay))
}
