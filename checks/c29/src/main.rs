//! C29 — DataLoader cache operations behave like the documented cache.
//!
//! Engine: explicit-state BFS over operation histories, starting from the
//! *unused* loader, once per cache kind (NoCache, HashMapCache, LruCache(1),
//! LruCache(2)). A state is the history; every step builds a fresh real
//! `DataLoader`, replays the history on one thread under `sched::run`
//! (Policy::Eager, timer and loader complete immediately) and in lock step on a
//! reference model written from the documented behaviour.
//!
//! The reference model is a boring map + recency list + two flags + the store
//! versions. Where the documentation is silent the model does not decide: it
//! keeps the *set* of cache configurations the documentation allows
//!   * the order in which the keys of one `load_many` are "used" (refreshed /
//!     inserted) is unspecified -> every permutation is allowed,
//!   * whether a load executed while caching is disabled populates the cache is
//!     unspecified -> both are allowed,
//! and narrows that set with what the real loader shows (load results,
//! `get_cached_values`). A violation is an observation no allowed configuration
//! explains, or a panic, or a load that never completes. `get_cached_values` only
//! narrows the set and keys the state; it is never judged by itself.

use agv_engine::bfs::{bfs, BfsCfg, Step};
use agv_engine::record::{Cx, Violation};
use agv_engine::sched::{self, End, Handle, Policy, RunCfg};
use agv_engine::{catch_quiet, h64, Chooser};
use async_graphql::dataloader::{CacheFactory, DataLoader, HashMapCache, Loader, LruCache, NoCache};
use async_graphql::runtime::Timer;
use futures_util::future::BoxFuture;
use futures_util::task::{FutureObj, Spawn, SpawnError};
use serde_json::json;
use std::collections::{BTreeMap, BTreeSet, HashMap};
use std::sync::{Arc, Mutex};
use std::time::Duration;

// ---------------------------------------------------------------------------------------------
// events

#[derive(Clone, Copy, PartialEq, Eq, Hash, Debug)]
enum Ev {
    LoadOne(i32),
    /// load_many([0,1]); the loader's result map iterates in ascending key order
    LoadMany01,
    /// load_many([1,0]); the loader's result map iterates in descending key order
    LoadMany10,
    LoadManyEmpty,
    Feed(i32),
    Clear,
    ClearOne(i32),
    EnableCache(bool),
    EnableAll(bool),
    GetCached,
    /// the backing store changes the value of k
    Bump(i32),
}

impl Ev {
    fn text(&self) -> String {
        match self {
            Ev::LoadOne(k) => format!("load_one({k})"),
            Ev::LoadMany01 => "load_many([0,1])".into(),
            Ev::LoadMany10 => "load_many([1,0])/desc".into(),
            Ev::LoadManyEmpty => "load_many([])".into(),
            Ev::Feed(k) => format!("feed_one({k},{})", feed_value(*k)),
            Ev::Clear => "clear".into(),
            Ev::ClearOne(k) => format!("clear_one({k})"),
            Ev::EnableCache(b) => format!("enable_cache({b})"),
            Ev::EnableAll(b) => format!("enable_all_cache({b})"),
            Ev::GetCached => "get_cached_values".into(),
            Ev::Bump(k) => format!("store_changes({k})"),
        }
    }
    /// structural name used as violation key
    fn kind(&self) -> &'static str {
        match self {
            Ev::LoadOne(_) => "load_one",
            Ev::LoadMany01 | Ev::LoadMany10 | Ev::LoadManyEmpty => "load_many",
            Ev::Feed(_) => "feed_one",
            Ev::Clear => "clear",
            Ev::ClearOne(_) => "clear_one",
            Ev::EnableCache(_) => "enable_cache",
            Ev::EnableAll(_) => "enable_all_cache",
            Ev::GetCached => "get_cached_values",
            Ev::Bump(_) => "store_changes",
        }
    }
    fn load_keys(&self) -> Option<Vec<i32>> {
        match self {
            Ev::LoadOne(k) => Some(vec![*k]),
            Ev::LoadMany01 => Some(vec![0, 1]),
            Ev::LoadMany10 => Some(vec![1, 0]),
            Ev::LoadManyEmpty => Some(vec![]),
            _ => None,
        }
    }
}

const KEYS: [i32; 3] = [0, 1, 2];

fn alphabet() -> Vec<Ev> {
    let mut a = Vec::new();
    for k in KEYS {
        a.push(Ev::LoadOne(k));
    }
    a.push(Ev::LoadMany01);
    a.push(Ev::LoadMany10);
    a.push(Ev::LoadManyEmpty);
    for k in KEYS {
        a.push(Ev::Feed(k));
    }
    a.push(Ev::Clear);
    for k in KEYS {
        a.push(Ev::ClearOne(k));
    }
    for b in [false, true] {
        a.push(Ev::EnableCache(b));
    }
    for b in [false, true] {
        a.push(Ev::EnableAll(b));
    }
    a.push(Ev::GetCached);
    for k in KEYS {
        a.push(Ev::Bump(k));
    }
    a
}

fn parse_ev(s: &str) -> Option<Ev> {
    alphabet().into_iter().find(|e| e.text() == s)
}

fn store_value(k: i32, ver: u8) -> i32 {
    10 * k + ver as i32
}
fn feed_value(k: i32) -> i32 {
    100 + k
}

#[derive(Clone, Copy, PartialEq, Eq, Hash, Debug)]
enum Kind {
    No,
    Map,
    Lru(usize),
}
impl Kind {
    fn name(&self) -> String {
        match self {
            Kind::No => "NoCache".into(),
            Kind::Map => "HashMapCache".into(),
            Kind::Lru(n) => format!("LruCache({n})"),
        }
    }
    fn parse(s: &str) -> Option<Kind> {
        [Kind::No, Kind::Map, Kind::Lru(1), Kind::Lru(2)].into_iter().find(|k| k.name() == s)
    }
}

// ---------------------------------------------------------------------------------------------
// real side

struct StoreSt {
    ver: [u8; 3],
    desc: bool,
    calls: Vec<Vec<i32>>,
}
type Store = Arc<Mutex<StoreSt>>;

/// A std HashMap (RandomState) whose iteration order is exactly the order of `pairs`:
/// rebuilt with fresh hasher keys until it iterates that way (≤ 3 entries: ≤ 6 expected tries),
/// so that the order in which `do_load` inserts a batch into the cache is owned by the harness.
fn ordered_map(pairs: &[(i32, i32)]) -> HashMap<i32, i32> {
    for _ in 0..100_000 {
        let m: HashMap<i32, i32> = pairs.iter().cloned().collect();
        if m.iter().map(|(k, _)| *k).eq(pairs.iter().map(|p| p.0)) {
            return m;
        }
    }
    panic!("harness: cannot build a HashMap with the requested iteration order");
}

struct L(Store);
impl Loader<i32> for L {
    type Value = i32;
    type Error = ();
    async fn load(&self, keys: &[i32]) -> Result<HashMap<i32, i32>, ()> {
        let mut st = self.0.lock().unwrap();
        let mut ks = keys.to_vec();
        ks.sort();
        st.calls.push(ks.clone());
        if st.desc {
            ks.reverse();
        }
        let pairs: Vec<(i32, i32)> = ks.iter().map(|k| (*k, store_value(*k, st.ver[*k as usize]))).collect();
        Ok(ordered_map(&pairs))
    }
}

struct Sp(Handle);
impl Spawn for Sp {
    fn spawn_obj(&self, f: FutureObj<'static, ()>) -> Result<(), SpawnError> {
        self.0.spawn("dl", f);
        Ok(())
    }
}

struct ImmediateTimer;
impl Timer for ImmediateTimer {
    fn delay(&self, _d: Duration) -> BoxFuture<'static, ()> {
        Box::pin(async {})
    }
}

#[derive(Clone, PartialEq, Eq, Hash, Debug)]
enum Obs {
    Unit,
    Loaded(BTreeMap<i32, i32>),
    Cached(BTreeMap<i32, i32>),
}

struct RealStep {
    obs: Obs,
    /// `get_cached_values()` taken right after the event
    cached: BTreeMap<i32, i32>,
    /// keys passed to the loader during the event (each call sorted)
    calls: Vec<Vec<i32>>,
}

struct Real {
    steps: Vec<RealStep>,
    /// (index of the event during which it happened, in the snapshot after it?, message)
    panic: Option<(usize, bool, String)>,
    /// the run parked: some load never completed (index of the event)
    hang: Option<usize>,
}

fn run_real_with<C: CacheFactory>(factory: C, hist: &[Ev]) -> Real {
    let h = Handle::new();
    let store: Store = Arc::new(Mutex::new(StoreSt { ver: [0; 3], desc: false, calls: Vec::new() }));
    let steps: Mutex<Vec<RealStep>> = Mutex::new(Vec::new());
    let phase: Mutex<(usize, bool)> = Mutex::new((0, false));
    let r = catch_quiet(|| {
        let dl = DataLoader::with_cache(L(store.clone()), Sp(h.clone()), ImmediateTimer, factory);
        let mut ch = Chooser::new(Vec::new());
        let cfg = RunCfg { policy: Policy::Eager, max_steps: 100_000, ..Default::default() };
        let root = async {
            for (i, e) in hist.iter().enumerate() {
                *phase.lock().unwrap() = (i, false);
                store.lock().unwrap().calls.clear();
                let obs = match *e {
                    Ev::LoadOne(k) => {
                        store.lock().unwrap().desc = false;
                        let r = dl.load_one(k).await.expect("harness loader never fails");
                        Obs::Loaded(r.into_iter().map(|v| (k, v)).collect())
                    }
                    Ev::LoadMany01 => {
                        store.lock().unwrap().desc = false;
                        let r = dl.load_many(vec![0, 1]).await.expect("harness loader never fails");
                        Obs::Loaded(r.into_iter().collect())
                    }
                    Ev::LoadMany10 => {
                        store.lock().unwrap().desc = true;
                        let r = dl.load_many(vec![1, 0]).await.expect("harness loader never fails");
                        Obs::Loaded(r.into_iter().collect())
                    }
                    Ev::LoadManyEmpty => {
                        let r = dl.load_many(Vec::<i32>::new()).await.expect("harness loader never fails");
                        Obs::Loaded(r.into_iter().collect())
                    }
                    Ev::Feed(k) => {
                        dl.feed_one(k, feed_value(k)).await;
                        Obs::Unit
                    }
                    Ev::Clear => {
                        dl.clear::<i32>();
                        Obs::Unit
                    }
                    Ev::ClearOne(k) => {
                        dl.clear_one(&k);
                        Obs::Unit
                    }
                    Ev::EnableCache(b) => {
                        dl.enable_cache::<i32>(b).await;
                        Obs::Unit
                    }
                    Ev::EnableAll(b) => {
                        dl.enable_all_cache(b);
                        Obs::Unit
                    }
                    Ev::GetCached => Obs::Cached(dl.get_cached_values::<i32>().await.into_iter().collect()),
                    Ev::Bump(k) => {
                        store.lock().unwrap().ver[k as usize] += 1;
                        Obs::Unit
                    }
                };
                let calls = std::mem::take(&mut store.lock().unwrap().calls);
                *phase.lock().unwrap() = (i, true);
                let cached: BTreeMap<i32, i32> = dl.get_cached_values::<i32>().await.into_iter().collect();
                steps.lock().unwrap().push(RealStep { obs, cached, calls });
            }
        };
        let res = sched::run(&h, &mut ch, &cfg, root, &mut |_| {});
        res.end
    });
    let steps = steps.into_inner().unwrap();
    let (i, snap) = *phase.lock().unwrap();
    match r {
        Ok(End::Done) => Real { steps, panic: None, hang: None },
        Ok(_) => Real { steps, panic: None, hang: Some(i) },
        Err(p) => Real { steps, panic: Some((i, snap, p)), hang: None },
    }
}

fn run_real(kind: Kind, hist: &[Ev]) -> Real {
    match kind {
        Kind::No => run_real_with(NoCache, hist),
        Kind::Map => run_real_with(HashMapCache::default(), hist),
        Kind::Lru(n) => run_real_with(LruCache::new(n), hist),
    }
}

// ---------------------------------------------------------------------------------------------
// reference model

/// One cache configuration: entries most-recently-used first (LRU) or sorted by key (others).
type Conf = Vec<(i32, i32)>;

#[derive(Clone)]
struct Model {
    kind: Kind,
    confs: BTreeSet<Conf>,
    /// enable_cache::<K>
    type_on: bool,
    /// enable_all_cache
    all_on: bool,
    ver: [u8; 3],
    /// some operation that touches this key type's cache has been called before
    used: bool,
}

fn conf_put(kind: Kind, c: &mut Conf, k: i32, v: i32) {
    match kind {
        Kind::No => {}
        Kind::Map => {
            c.retain(|e| e.0 != k);
            c.push((k, v));
            c.sort();
        }
        Kind::Lru(cap) => {
            c.retain(|e| e.0 != k);
            c.insert(0, (k, v));
            while c.len() > cap {
                c.pop(); // least recently used
            }
        }
    }
}
fn conf_touch(kind: Kind, c: &mut Conf, k: i32) {
    if let Kind::Lru(_) = kind {
        if let Some(p) = c.iter().position(|e| e.0 == k) {
            let e = c.remove(p);
            c.insert(0, e);
        }
    }
}
fn conf_get(c: &Conf, k: i32) -> Option<i32> {
    c.iter().find(|e| e.0 == k).map(|e| e.1)
}
fn conf_contents(c: &Conf) -> BTreeMap<i32, i32> {
    c.iter().cloned().collect()
}

fn permutations(v: &[i32]) -> Vec<Vec<i32>> {
    if v.len() <= 1 {
        return vec![v.to_vec()];
    }
    let mut out = Vec::new();
    for i in 0..v.len() {
        let mut rest = v.to_vec();
        let x = rest.remove(i);
        for mut p in permutations(&rest) {
            p.insert(0, x);
            out.push(p);
        }
    }
    out
}

struct Disagree {
    class: &'static str,
    detail: String,
}

impl Model {
    fn new(kind: Kind) -> Model {
        let mut confs = BTreeSet::new();
        confs.insert(Vec::new());
        Model { kind, confs, type_on: true, all_on: true, ver: [0; 3], used: false }
    }
    fn store(&self, k: i32) -> i32 {
        store_value(k, self.ver[k as usize])
    }
    fn enabled(&self) -> bool {
        self.type_on && self.all_on
    }

    /// Advance by one event, given what the real loader showed. `Err` = the observation is not
    /// explained by any configuration the documentation allows.
    fn step(&mut self, ev: &Ev, real: &RealStep) -> Result<bool, Disagree> {
        let kind = self.kind;
        let mut stale_hit = false;
        match ev {
            Ev::LoadOne(_) | Ev::LoadMany01 | Ev::LoadMany10 | Ev::LoadManyEmpty => {
                let keys = ev.load_keys().unwrap();
                let Obs::Loaded(got) = &real.obs else { unreachable!() };
                // shape: exactly the requested keys (the store holds every key)
                for k in &keys {
                    if !got.contains_key(k) {
                        return Err(Disagree { class: "load-misses-requested-key", detail: format!("{} returned {:?}: key {k} is absent though the store holds it", ev.text(), got) });
                    }
                }
                if let Some(k) = got.keys().find(|k| !keys.contains(k)) {
                    return Err(Disagree { class: "load-returns-unrequested-key", detail: format!("{} returned {:?}: key {k} was not requested", ev.text(), got) });
                }
                if self.enabled() {
                    // keep the configurations whose hits/misses explain every returned value
                    let before = self.confs.clone();
                    let explains = |c: &Conf| keys.iter().all(|k| got[k] == conf_get(c, *k).unwrap_or(self.store(*k)));
                    let kept: BTreeSet<Conf> = before.iter().filter(|c| explains(c)).cloned().collect();
                    if kept.is_empty() {
                        // classify from the discrepancy against the first configuration
                        let c = before.iter().next().unwrap();
                        let mut class = "load-wrong-value";
                        let mut parts = Vec::new();
                        for k in &keys {
                            let exp = conf_get(c, *k);
                            let g = got[k];
                            match exp {
                                Some(v) if g != v => {
                                    if g == self.store(*k) {
                                        class = "loader-value-despite-cached-key";
                                    }
                                    parts.push(format!("key {k}: cache holds {v}, load returned {g} (store has {})", self.store(*k)));
                                }
                                None if g != self.store(*k) => {
                                    class = "cached-value-for-key-not-in-cache";
                                    parts.push(format!("key {k}: not in the cache, store has {}, load returned {g}", self.store(*k)));
                                }
                                _ => {}
                            }
                        }
                        return Err(Disagree { class, detail: format!("{} with caching enabled, documented cache (most recent first) {:?}: {}", ev.text(), c, parts.join("; ")) });
                    }
                    stale_hit = kept.iter().any(|c| keys.iter().any(|k| conf_get(c, *k).is_some_and(|v| v != self.store(*k))));
                    // effects: every key is used once (hit: refreshed, miss: inserted with the store's value), in an unspecified order
                    let mut next = BTreeSet::new();
                    let mut uniq = keys.clone();
                    uniq.dedup();
                    for c in &kept {
                        for order in permutations(&uniq) {
                            let mut n = c.clone();
                            for k in order {
                                if conf_get(c, k).is_some() {
                                    conf_touch(kind, &mut n, k);
                                } else {
                                    conf_put(kind, &mut n, k, self.store(k));
                                }
                            }
                            next.insert(n);
                        }
                    }
                    self.confs = next;
                } else {
                    for k in &keys {
                        if got[k] != self.store(*k) {
                            let cached = self.confs.iter().any(|c| conf_get(c, *k) == Some(got[k]));
                            return Err(Disagree {
                                class: if cached { "cached-value-while-caching-disabled" } else { "load-wrong-value" },
                                detail: format!("{} with caching disabled (enable_cache={}, enable_all_cache={}): key {k} returned {} but the store has {}", ev.text(), self.type_on, self.all_on, got[k], self.store(*k)),
                            });
                        }
                    }
                    // unspecified whether a load with caching disabled populates the cache: allow both
                    let mut next = self.confs.clone();
                    let mut uniq = keys.clone();
                    uniq.dedup();
                    for c in &self.confs {
                        for order in permutations(&uniq) {
                            let mut n = c.clone();
                            for k in order {
                                conf_put(kind, &mut n, k, self.store(k));
                            }
                            next.insert(n);
                        }
                    }
                    self.confs = next;
                }
                self.used = true;
            }
            Ev::Feed(k) => {
                self.confs = self.confs.iter().map(|c| { let mut n = c.clone(); conf_put(kind, &mut n, *k, feed_value(*k)); n }).collect();
                self.used = true;
            }
            Ev::Clear => {
                self.confs = [Vec::new()].into_iter().collect();
                self.used = true;
            }
            Ev::ClearOne(k) => {
                self.confs = self.confs.iter().map(|c| { let mut n = c.clone(); n.retain(|e| e.0 != *k); n }).collect();
                self.used = true;
            }
            Ev::EnableCache(b) => {
                self.type_on = *b;
                self.used = true;
            }
            Ev::EnableAll(b) => self.all_on = *b,
            Ev::GetCached => {
                let Obs::Cached(got) = &real.obs else { unreachable!() };
                if got != &real.cached {
                    return Err(Disagree { class: "get_cached_values-unstable", detail: format!("two consecutive get_cached_values calls returned {:?} and {:?}", got, real.cached) });
                }
            }
            Ev::Bump(k) => self.ver[*k as usize] += 1,
        }
        // narrow by the real cache contents ("Gets all values in the cache"). The property judges loads, not
        // get_cached_values: when no allowed configuration has these contents the set is left as it is
        // (the real contents are part of the state key, so exploration goes on) and the next load decides.
        let kept: BTreeSet<Conf> = self.confs.iter().filter(|c| conf_contents(c) == real.cached).cloned().collect();
        if !kept.is_empty() {
            self.confs = kept;
        }
        Ok(stale_hit)
    }

    fn key(&self) -> u64 {
        h64(&(self.kind, self.confs.iter().collect::<Vec<_>>(), self.type_on, self.all_on, self.ver, self.used))
    }
    fn describe(&self) -> serde_json::Value {
        json!({"cache": self.kind.name(), "allowed_configurations_mru_first": self.confs.iter().collect::<Vec<_>>(), "enable_cache": self.type_on, "enable_all_cache": self.all_on, "store_versions": self.ver, "used": self.used})
    }
}

// ---------------------------------------------------------------------------------------------
// one BFS step

enum Outcome {
    /// canonical key, the last load observed a cache hit whose value differs from the store's
    Ok { key: u64, stale_hit: bool },
    Bad { class: String, detail: String, event: String, used_before: bool },
    /// a prefix of the history already disagreed (cannot happen: such states are not expanded)
    PrefixBad(String),
}

fn evaluate(kind: Kind, hist: &[Ev]) -> Outcome {
    let real = run_real(kind, hist);
    let mut m = Model::new(kind);
    let last = hist.len().wrapping_sub(1);
    let mut stale = false;
    for (i, ev) in hist.iter().enumerate() {
        let used_before = m.used;
        let bad = |class: &str, detail: String| {
            if i == last {
                Outcome::Bad { class: class.to_string(), detail, event: ev.kind().to_string(), used_before }
            } else {
                Outcome::PrefixBad(format!("event #{i} {}: {class}: {detail}", ev.text()))
            }
        };
        if i >= real.steps.len() {
            if let Some((pi, snap, msg)) = &real.panic {
                if *pi == i {
                    let what = if *snap { format!("get_cached_values() after {} panicked: {msg}", ev.text()) } else { format!("{} panicked: {msg}", ev.text()) };
                    return bad("panic", what);
                }
            }
            if real.hang == Some(i) {
                return bad("operation-never-completes", format!("{} never completed although every spawned task ran and timer and loader complete immediately", ev.text()));
            }
            return Outcome::PrefixBad(format!("harness: no observation for event #{i}"));
        }
        match m.step(ev, &real.steps[i]) {
            Ok(s) => stale = s,
            Err(d) => return bad(d.class, d.detail),
        }
    }
    let (cached, obs) = match real.steps.last() {
        Some(s) => (s.cached.clone(), Some(s.obs.clone())),
        None => (BTreeMap::new(), None),
    };
    Outcome::Ok { key: h64(&(m.key(), cached, obs)), stale_hit: stale }
}

fn hist_json(kind: Kind, hist: &[Ev]) -> serde_json::Value {
    json!({"cache": kind.name(), "history": hist.iter().map(|e| e.text()).collect::<Vec<_>>()})
}

pub fn run(cx: &Cx) {
    // DESIGN §7 plans depth 5 / 7; both finish in a few seconds, so one more level each is affordable
    let depth = cx.tier.pick(6usize, 8usize);
    cx.rule(
        "state = operation history from the unused loader (merged when reference-model state, real get_cached_values() and the last result agree); \
         every event of the 21-event alphabet {load_one(k), load_many([0,1]), load_many([1,0]) with the loader's map iterating in reverse, load_many([]), feed_one(k,100+k), clear, clear_one(k), \
         enable_cache::<i32>(b), enable_all_cache(b), get_cached_values, store_changes(k)}, k in {0,1,2}, is applied in every distinct state up to the depth bound, for NoCache, HashMapCache, LruCache(1), LruCache(2). \
         Non-trivial = distinct states reached by a load that returned a cached value different from the store's current value (a stale hit: the cache, not the loader, demonstrably answered).",
    );
    cx.assume("sequential use: one operation at a time; timer delay and Loader::load complete immediately (interleavings are C28's job)");
    cx.assume("the order in which the keys of one load_many are refreshed/inserted is not documented: every permutation is accepted (the real order is forced both ways by the harness loader's map order)");
    cx.assume("whether a load executed while caching is disabled populates the cache is not documented: both are accepted; feed/clear/clear_one are documented without reference to the enable flags and must take effect regardless");
    cx.assume("LRU per its definition: a cache hit and an insert/update make the key most recently used; inserting into a full cache evicts the least recently used key; get_cached_values does not count as a use");
    cx.assume("get_cached_values() is used only to narrow the set of allowed configurations and to merge states, never judged by itself (the statement is about load results and panics); the store holds every key, so every requested key must be returned");

    let alpha = alphabet();
    let mut per_kind = serde_json::Map::new();
    let mut all_complete = true;
    for kind in [Kind::No, Kind::Map, Kind::Lru(1), Kind::Lru(2)] {
        let step = |hist: &[Ev]| -> Option<Step> {
            cx.eval();
            match evaluate(kind, hist) {
                Outcome::Ok { key, stale_hit } => {
                    if stale_hit {
                        cx.nontrivial(key);
                    }
                    cx.sample_with(key, || {
                        let real = run_real(kind, hist);
                        json!({"cache": kind.name(), "history": hist.iter().map(|e| e.text()).collect::<Vec<_>>(),
                               "last_result": real.steps.last().map(|s| format!("{:?}", s.obs)), "cached_after": real.steps.last().map(|s| format!("{:?}", s.cached))})
                    });
                    Some(Step { key, expand: true })
                }
                Outcome::Bad { class, detail, event, used_before } => {
                    cx.violation(
                        Violation::new(class, format!("[{}] history {:?}: {}", kind.name(), hist.iter().map(|e| e.text()).collect::<Vec<_>>(), detail), hist_json(kind, hist))
                            .key("event", event)
                            .key("state", if used_before { "used" } else { "unused" })
                            .key("cache", kind.name()),
                    );
                    Some(Step { key: h64(&("bad", kind, hist)), expand: false })
                }
                Outcome::PrefixBad(s) => {
                    cx.machinery_error(format!("C29: a non-expanded state was extended or the replay is not deterministic: [{}] {:?}: {s}", kind.name(), hist.iter().map(|e| e.text()).collect::<Vec<_>>()));
                    None
                }
            }
        };
        let st = bfs(&alpha, &BfsCfg { max_depth: depth, max_states: 200_000_000 }, &step);
        cx.add_states(st.states);
        cx.add_transitions(st.transitions);
        cx.add_traces(st.transitions + 1);
        if st.capped || st.depth_completed < depth {
            all_complete = false;
        }
        per_kind.insert(kind.name(), json!({"states": st.states, "transitions": st.transitions, "depth_completed": st.depth_completed, "capped": st.capped, "per_level_new_states_transitions": st.per_level}));
    }
    cx.extra("depth_bound", json!(depth));
    cx.extra("alphabet", json!(alpha.iter().map(|e| e.text()).collect::<Vec<_>>()));
    cx.extra("per_cache_kind", serde_json::Value::Object(per_kind));
    cx.exhaustive(all_complete);
}

pub fn replay(case: &serde_json::Value) -> String {
    let Some(kind) = case["cache"].as_str().and_then(Kind::parse) else { return "case has no valid 'cache'".into() };
    let mut hist = Vec::new();
    for e in case["history"].as_array().cloned().unwrap_or_default() {
        match e.as_str().and_then(parse_ev) {
            Some(ev) => hist.push(ev),
            None => return format!("unknown event {e}"),
        }
    }
    let real = run_real(kind, &hist);
    let mut m = Model::new(kind);
    let mut out = format!("cache {}\n", kind.name());
    for (i, ev) in hist.iter().enumerate() {
        out += &format!("  #{i} {}\n", ev.text());
        if i >= real.steps.len() {
            if let Some((_, snap, msg)) = &real.panic {
                out += &format!("     real: PANIC{}: {msg}\n     expected: no panic\n", if *snap { " (in get_cached_values afterwards)" } else { "" });
            } else if real.hang.is_some() {
                out += "     real: never completes\n     expected: completes\n";
            }
            break;
        }
        let s = &real.steps[i];
        out += &format!("     real: {:?}; loader calls {:?}; get_cached_values {:?}\n", s.obs, s.calls, s.cached);
        match m.step(ev, s) {
            Ok(_) => out += &format!("     model: {}\n", m.describe()),
            Err(d) => {
                out += &format!("     DISAGREES [{}]: {}\n", d.class, d.detail);
                break;
            }
        }
    }
    out
}

fn main() {
    agv_engine::driver::main("C29", "model_checking", run, Some(replay))
}
