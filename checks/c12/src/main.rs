//! C12 — no client input can crash, overflow or hang the server.
//!
//! Every client-facing decoder (`Schema::execute`, `receive_json`, `receive_batch_json`,
//! `receive_batch_body` incl. multipart, `parse_query_string`, `http::WebSocket`) is driven with
//! bounded-exhaustive families of hostile inputs (see `gen.rs`). Because a stack overflow or an
//! abort kills the process, each shard of a family runs in a CHILD PROCESS: this binary
//! re-executes itself as `agv-c12 --worker <family> <tier> <lo> <hi> [--trace]`. The worker runs
//! the inputs on a thread with a 2 MiB stack (the usual server thread), under a panic hook and a
//! per-input budget (20 s CPU / bounded polls / 20 s parked), and reports outcomes as JSON lines.
//! A child that dies by signal is an observation attributed to the input it was working on
//! (trace mode prints the index before every input; a crashed chunk of a big sweep is re-run in
//! trace mode to find the culprit).
//!
//! Oracle: the child exits normally, no panic, budget not exhausted, and the input is answered
//! with an error value/response or a legitimate success (which of the two is not judged).

mod gen;
mod schema;
mod seams;

use agv_engine::record::{Cx, Violation};
use gen::{Fam, Mode};
use seams::Out;
use serde_json::{json, Value};
use std::collections::BTreeMap;
use std::io::{BufRead, BufReader, Read, Write};
use std::process::{Command, Stdio};
use std::sync::atomic::{AtomicBool, AtomicU64, AtomicUsize, Ordering};
use std::sync::{Arc, Mutex};

pub fn sha256_hex(s: &str) -> String {
    use sha2::{Digest, Sha256};
    format!("{:x}", Sha256::digest(s.as_bytes()))
}

const STACK_BYTES: usize = 2 * 1024 * 1024;
const CPU_BUDGET_S: f64 = 20.0;
const WALL_BUDGET_S: f64 = 300.0;
const CHUNK: usize = 1024;

// =============================================================================================
// worker (child process)
// =============================================================================================

static PANIC_INFO: Mutex<Option<(String, String)>> = Mutex::new(None);

fn normalize_site(file: &str, line: u32) -> String {
    let f = if let Some(r) = file.strip_prefix("/repo/") {
        r.to_string()
    } else if let Some(p) = file.find("/registry/src/") {
        // ~/.cargo/registry/src/<index>/<crate-version>/…
        let rest = &file[p + "/registry/src/".len()..];
        rest.split_once('/').map(|(_, r)| r.to_string()).unwrap_or_else(|| rest.to_string())
    } else if let Some(p) = file.find("/library/") {
        format!("std:{}", &file[p + 1..])
    } else {
        file.to_string()
    };
    format!("{f}:{line}")
}

/// process CPU time (user+system) in seconds, from /proc/self/stat (clock ticks of 10 ms)
fn cpu_seconds() -> f64 {
    let Ok(s) = std::fs::read_to_string("/proc/self/stat") else { return 0.0 };
    // fields after the closing paren of comm
    let Some(p) = s.rfind(')') else { return 0.0 };
    let f: Vec<&str> = s[p + 2..].split(' ').collect();
    // utime = field 14, stime = field 15 (1-based, comm = 2) -> indices 11, 12 after the paren
    let ut: f64 = f.get(11).and_then(|x| x.parse().ok()).unwrap_or(0.0);
    let st: f64 = f.get(12).and_then(|x| x.parse().ok()).unwrap_or(0.0);
    (ut + st) / 100.0
}

#[derive(Default)]
struct Agg {
    err: u64,
    err2: u64,
    acc: u64,
    pass: Vec<usize>,
    maxus: u64,
    maxi: usize,
}

impl Agg {
    /// the chunk line: everything up to (excluding) `upto` is accounted for
    fn line(&mut self, upto: usize, noids: bool) -> String {
        if noids {
            self.pass.truncate(2);
        }
        let l = json!({"c": upto, "err": self.err, "err2": self.err2, "acc": self.acc, "pass": self.pass, "maxus": self.maxus, "maxi": self.maxi}).to_string();
        *self = Agg::default();
        l
    }
}

struct Progress {
    agg: Mutex<Agg>,
    /// index being processed (usize::MAX = none)
    cur: AtomicUsize,
    started_ms: AtomicU64,
    done: AtomicBool,
}

fn worker_main(args: &[String]) -> ! {
    // --worker <family> <tier> <lo> <hi> [--trace]
    let fam_name = args.get(1).cloned().unwrap_or_default();
    let thorough = args.get(2).map(|s| s == "thorough").unwrap_or(false);
    let lo: usize = args.get(3).and_then(|s| s.parse().ok()).unwrap_or(0);
    let hi: usize = args.get(4).and_then(|s| s.parse().ok()).unwrap_or(0);
    let trace = args.iter().any(|a| a == "--trace");
    let noids = args.iter().any(|a| a == "--noids");
    if args.iter().any(|a| a == "--show") || args.first().map(|s| s == "--doc").unwrap_or(false) {
        seams::SHOW.store(true, Ordering::Relaxed);
    }
    // `--probe <shape> <n>`: one nesting input of arbitrary size (threshold bisection)
    let probe: Option<(String, usize)> = if args.first().map(|s| s == "--probe").unwrap_or(false) { Some((args[1].clone(), args[2].parse().unwrap_or(1))) } else { None };
    // `--doc <strict|fast|apq> <query> [variables-json]`: one hand-written document (triage aid)
    let hand: Option<seams::Input> = if args.first().map(|s| s == "--doc").unwrap_or(false) {
        let kind = match args.get(1).map(|s| s.as_str()) {
            Some("fast") => schema::Kind::Fast,
            Some("apq") => schema::Kind::Apq,
            _ => schema::Kind::Strict,
        };
        Some(seams::Input { desc: "hand-written document".into(), seam: seams::Seam::Doc { kind, query: args.get(2).cloned().unwrap_or_default(), vars: args.get(3).cloned() } })
    } else {
        None
    };

    std::panic::set_hook(Box::new(|info| {
        let site = info.location().map(|l| normalize_site(l.file(), l.line())).unwrap_or_else(|| "unknown".into());
        let msg = agv_engine::panic_message(info.payload());
        let mut g = PANIC_INFO.lock().unwrap_or_else(|e| e.into_inner());
        if g.is_none() {
            *g = Some((site, msg));
        }
    }));
    if std::env::var_os("TMPDIR").is_none() && std::path::Path::new("/dev/shm").is_dir() {
        std::env::set_var("TMPDIR", "/dev/shm");
    }

    let prog = Arc::new(Progress { agg: Mutex::new(Agg::default()), cur: AtomicUsize::new(usize::MAX), started_ms: AtomicU64::new(0), done: AtomicBool::new(false) });
    let t0 = std::time::Instant::now();
    let p2 = prog.clone();
    let (done_tx, done_rx) = std::sync::mpsc::channel::<()>();
    let handle = std::thread::Builder::new()
        .name("c12-worker".into())
        .stack_size(STACK_BYTES)
        .spawn(move || {
            let probe = match hand {
                Some(_) => Some(("hand".to_string(), 0)),
                None => probe,
            };
            let fam: Fam = match &probe {
                Some((shape, _)) if shape == "hand" => {
                    let input = hand.clone().unwrap();
                    Fam { name: "hand".into(), group: "x", len: 1, mode: Mode::Trace, judged: true, shard: 1, expect_pass: false, must_pass: vec![], distinct: false, make: Box::new(move |_| input.clone()) }
                }
                Some((shape, n)) => {
                    let (shape, n) = (shape.clone(), *n);
                    Fam { name: format!("nest/{shape}"), group: "b", len: 1, mode: Mode::Trace, judged: true, shard: 1, expect_pass: false, must_pass: vec![], distinct: false, make: Box::new(move |_| gen::shape_input(&shape, n)) }
                }
                None => gen::family(&fam_name, thorough).unwrap_or_else(|| {
                    eprintln!("unknown family {fam_name}");
                    std::process::exit(4)
                }),
            };
            let (lo, hi) = if probe.is_some() { (0, 1) } else { (lo, hi.min(fam.len)) };
            let trace = trace || probe.is_some();
            let out = std::io::stdout();
            let mut schemas = schema::Schemas::build();
            let mut in_chunk = 0usize;
            for idx in lo..hi {
                let input = (fam.make)(idx);
                if trace {
                    let mut o = out.lock();
                    let _ = writeln!(o, "{{\"s\":{idx}}}");
                    let _ = o.flush();
                }
                p2.started_ms.store(t0.elapsed().as_millis() as u64, Ordering::SeqCst);
                p2.cur.store(idx, Ordering::SeqCst);
                let st = std::time::Instant::now();
                let r = std::panic::catch_unwind(std::panic::AssertUnwindSafe(|| seams::process(&schemas, &input)));
                let us = st.elapsed().as_micros() as u64;
                p2.cur.store(usize::MAX, Ordering::SeqCst);
                {
                    let mut a = p2.agg.lock().unwrap();
                    if us > a.maxus {
                        a.maxus = us;
                        a.maxi = idx;
                    }
                }
                let line: Option<String> = match r {
                    Err(_) => {
                        let (site, msg) = PANIC_INFO.lock().unwrap_or_else(|e| e.into_inner()).take().unwrap_or(("unknown".into(), "?".into()));
                        // state reachable from the schemas may be poisoned: start afresh
                        schemas = schema::Schemas::build();
                        Some(json!({"i": idx, "o": "panic", "site": site, "msg": msg.chars().take(300).collect::<String>(), "us": us}).to_string())
                    }
                    Ok(Out::Budget(why)) => Some(json!({"i": idx, "o": "budget", "why": why, "us": us}).to_string()),
                    Ok(o) => {
                        // a panic on another thread (blocking pool) that did not surface as an unwinding here
                        if let Some((site, msg)) = PANIC_INFO.lock().unwrap_or_else(|e| e.into_inner()).take() {
                            Some(json!({"i": idx, "o": "panic", "site": site, "msg": msg.chars().take(300).collect::<String>(), "us": us, "thread": "other"}).to_string())
                        } else {
                            {
                                let mut a = p2.agg.lock().unwrap();
                                match o {
                                    Out::Err => a.err += 1,
                                    Out::Err2 => {
                                        a.err2 += 1;
                                        a.pass.push(idx)
                                    }
                                    _ => {
                                        a.acc += 1;
                                        a.pass.push(idx)
                                    }
                                }
                            }
                            if trace {
                                Some(json!({"i": idx, "o": match o { Out::Err => "err", Out::Err2 => "err2", _ => "acc" }, "us": us}).to_string())
                            } else {
                                None
                            }
                        }
                    }
                };
                if let Some(l) = line {
                    let mut o = out.lock();
                    let _ = writeln!(o, "{l}");
                    let _ = o.flush();
                }
                in_chunk += 1;
                if trace || in_chunk == CHUNK || idx + 1 == hi {
                    let l = p2.agg.lock().unwrap().line(idx + 1, noids);
                    let mut o = out.lock();
                    let _ = writeln!(o, "{l}");
                    let _ = o.flush();
                    in_chunk = 0;
                }
            }
            p2.done.store(true, Ordering::SeqCst);
            let _ = done_tx.send(());
        })
        .expect("spawn worker thread");

    // watchdog (main thread): per-input CPU / wall budget. CPU time is sampled here (not per input):
    // the budget counts from the first tick that saw the input in progress.
    let mut seen: (usize, f64) = (usize::MAX, 0.0);
    loop {
        let _ = done_rx.recv_timeout(std::time::Duration::from_millis(50));
        if prog.done.load(Ordering::SeqCst) {
            let _ = handle.join();
            std::process::exit(0);
        }
        if handle.is_finished() && !prog.done.load(Ordering::SeqCst) {
            // the worker thread ended without finishing: harness problem (e.g. generator panic)
            let info = PANIC_INFO.lock().unwrap_or_else(|e| e.into_inner()).take();
            eprintln!("worker thread ended early: {info:?}");
            std::process::exit(4);
        }
        let cur = prog.cur.load(Ordering::SeqCst);
        if cur == usize::MAX {
            seen = (usize::MAX, 0.0);
            continue;
        }
        if seen.0 != cur {
            seen = (cur, cpu_seconds());
            continue;
        }
        let wall = (t0.elapsed().as_millis() as u64).saturating_sub(prog.started_ms.load(Ordering::SeqCst)) as f64 / 1000.0;
        let cpu = cpu_seconds() - seen.1;
        if (cpu > CPU_BUDGET_S || wall > WALL_BUDGET_S) && prog.cur.load(Ordering::SeqCst) == cur {
            let out = std::io::stdout();
            let mut o = out.lock();
            // everything before the culprit is accounted for
            let l = prog.agg.lock().unwrap_or_else(|e| e.into_inner()).line(cur, noids);
            let _ = writeln!(o, "{l}");
            let _ = writeln!(o, "{}", json!({"i": cur, "o": "budget", "why": if cpu > CPU_BUDGET_S { "cpu" } else { "wall" }, "us": (wall * 1e6) as u64}));
            let _ = o.flush();
            std::process::exit(3);
        }
    }
}

// =============================================================================================
// parent
// =============================================================================================

#[derive(Clone, Debug)]
enum Bad {
    Panic { site: String, msg: String },
    Budget { why: String },
    /// died by signal; `overflow` = the runtime reported a stack overflow
    Crash { signal: i32, overflow: bool, stderr: String },
}

#[derive(Default)]
struct FamStats {
    inputs: u64,
    err: u64,
    err2: u64,
    acc: u64,
    panics: u64,
    budget: u64,
    crashes: u64,
    children: u64,
    child_ms: u64,
    maxus: u64,
    maxi: usize,
    bad: Vec<(usize, Bad)>,
    pass_ids: Vec<usize>,
}

struct ChildResult {
    /// exclusive end of what was completely processed
    completed_to: usize,
    exit: Result<i32, i32>, // Ok(code) | Err(signal)
    stderr_tail: String,
    /// last index announced by a `{"s":…}` line without an outcome
    in_flight: Option<usize>,
}

fn spawn_worker(exe: &std::path::Path, args: &[String], from: usize, st: &mut FamStats) -> Result<ChildResult, String> {
    let t_spawn = std::time::Instant::now();
    let mut child = Command::new(exe).args(args).stdin(Stdio::null()).stdout(Stdio::piped()).stderr(Stdio::piped()).spawn().map_err(|e| format!("cannot spawn worker: {e}"))?;
    st.children += 1;
    let stdout = child.stdout.take().unwrap();
    let mut stderr = child.stderr.take().unwrap();
    let err_thread = std::thread::spawn(move || {
        let mut s = Vec::new();
        let _ = stderr.read_to_end(&mut s);
        let s = String::from_utf8_lossy(&s).to_string();
        let n = s.len();
        if n > 600 {
            s[s.char_indices().map(|(i, _)| i).find(|i| *i >= n - 600).unwrap_or(0)..].to_string()
        } else {
            s
        }
    });
    let mut completed_to = from;
    let mut in_flight: Option<usize> = None;
    for line in BufReader::new(stdout).lines() {
        let Ok(line) = line else { break };
        let Ok(v) = serde_json::from_str::<Value>(&line) else {
            return Err(format!("worker printed a non-JSON line: {line}"));
        };
        if let Some(s) = v.get("s").and_then(|x| x.as_u64()) {
            in_flight = Some(s as usize);
        } else if let Some(c) = v.get("c").and_then(|x| x.as_u64()) {
            completed_to = c as usize;
            st.err += v["err"].as_u64().unwrap_or(0);
            st.err2 += v["err2"].as_u64().unwrap_or(0);
            st.acc += v["acc"].as_u64().unwrap_or(0);
            if let Some(a) = v["pass"].as_array() {
                st.pass_ids.extend(a.iter().filter_map(|x| x.as_u64()).map(|x| x as usize));
            }
            let mu = v["maxus"].as_u64().unwrap_or(0);
            if mu > st.maxus {
                st.maxus = mu;
                st.maxi = v["maxi"].as_u64().unwrap_or(0) as usize;
            }
        } else if let Some(i) = v.get("i").and_then(|x| x.as_u64()) {
            let i = i as usize;
            if in_flight == Some(i) {
                in_flight = None;
            }
            match v["o"].as_str() {
                Some("panic") => {
                    st.panics += 1;
                    st.bad.push((i, Bad::Panic { site: v["site"].as_str().unwrap_or("unknown").to_string(), msg: v["msg"].as_str().unwrap_or("").to_string() }));
                }
                Some("budget") => {
                    st.budget += 1;
                    st.bad.push((i, Bad::Budget { why: v["why"].as_str().unwrap_or("").to_string() }));
                    // a watchdog kill ends the child; an in-thread budget (polls/parked) does not
                    if matches!(v["why"].as_str(), Some("cpu") | Some("wall")) {
                        in_flight = Some(i);
                    }
                }
                _ => {}
            }
        }
    }
    let status = child.wait().map_err(|e| format!("wait: {e}"))?;
    st.child_ms += t_spawn.elapsed().as_millis() as u64;
    let stderr_tail = err_thread.join().unwrap_or_default();
    use std::os::unix::process::ExitStatusExt;
    let exit = match (status.code(), status.signal()) {
        (Some(c), _) => Ok(c),
        (None, Some(s)) => Err(s),
        _ => Ok(-1),
    };
    Ok(ChildResult { completed_to, exit, stderr_tail, in_flight })
}

/// "thread 'c12-worker' (12345) has overflowed" -> without the OS thread id (it differs from run to run)
fn scrub_tid(s: &str) -> String {
    let mut out = String::new();
    let mut rest = s;
    while let Some(p) = rest.find("' (") {
        let after = &rest[p + 3..];
        match after.find(')') {
            Some(q) if after[..q].chars().all(|c| c.is_ascii_digit()) => {
                out.push_str(&rest[..p + 1]);
                rest = &after[q + 1..];
            }
            _ => {
                out.push_str(&rest[..p + 3]);
                rest = after;
            }
        }
    }
    out.push_str(rest);
    out
}

/// Run [lo, hi) of a family to completion, restarting children after every death.
fn run_shard(exe: &std::path::Path, fam: &Fam, tier: &str, lo: usize, hi: usize) -> Result<FamStats, String> {
    let mut st = FamStats::default();
    let mut from = lo;
    // (range end, trace) of the next child
    let mut forced_trace_until: Option<usize> = None;
    let mut guard = 0;
    while from < hi {
        guard += 1;
        if guard > 100_000 {
            return Err(format!("family {}: too many restarts", fam.name));
        }
        let trace = fam.mode == Mode::Trace || forced_trace_until.is_some();
        let to = forced_trace_until.unwrap_or(hi).min(hi);
        let mut args: Vec<String> = vec!["--worker".into(), fam.name.clone(), tier.into(), from.to_string(), to.to_string()];
        if trace {
            args.push("--trace".into());
        }
        if fam.distinct {
            args.push("--noids".into());
        }
        let r = spawn_worker(exe, &args, from, &mut st)?;
        match r.exit {
            Ok(0) => {
                if r.completed_to != to {
                    return Err(format!("family {}: worker exited 0 but completed only up to {} of {}", fam.name, r.completed_to, to));
                }
                if forced_trace_until.take().is_some() {
                    // the chunk that crashed in chunk mode ran through in trace mode
                    return Err(format!("family {}: a crash in [{from},{to}) did not reproduce in trace mode (nondeterministic crash)", fam.name));
                }
                from = to;
            }
            Ok(3) => {
                // watchdog: budget line already recorded; continue after the culprit
                let Some(c) = r.in_flight else { return Err(format!("family {}: watchdog exit without culprit", fam.name)) };
                from = c + 1;
                forced_trace_until = None;
            }
            Ok(code) => return Err(format!("family {}: worker exited with code {code}: {}", fam.name, r.stderr_tail)),
            Err(sig) => {
                if trace {
                    let Some(c) = r.in_flight else { return Err(format!("family {}: worker died by signal {sig} outside an input: {}", fam.name, r.stderr_tail)) };
                    let overflow = r.stderr_tail.contains("overflowed its stack") || r.stderr_tail.contains("stack overflow");
                    st.crashes += 1;
                    st.bad.push((c, Bad::Crash { signal: sig, overflow, stderr: scrub_tid(&r.stderr_tail.lines().filter(|l| !l.trim().is_empty()).rev().take(2).collect::<Vec<_>>().into_iter().rev().collect::<Vec<_>>().join(" | ")) }));
                    from = c + 1;
                    forced_trace_until = None;
                } else {
                    // chunk mode: re-run the chunk that was in progress with tracing
                    from = r.completed_to;
                    forced_trace_until = Some(from + CHUNK);
                }
            }
        }
    }
    st.inputs = (hi - lo) as u64;
    Ok(st)
}

fn merge(a: &mut FamStats, b: FamStats) {
    a.inputs += b.inputs;
    a.err += b.err;
    a.err2 += b.err2;
    a.acc += b.acc;
    a.panics += b.panics;
    a.budget += b.budget;
    a.crashes += b.crashes;
    a.children += b.children;
    a.child_ms += b.child_ms;
    if b.maxus > a.maxus {
        a.maxus = b.maxus;
        a.maxi = b.maxi;
    }
    a.bad.extend(b.bad);
    a.pass_ids.extend(b.pass_ids);
}

/// one `--probe` child: Some(true) = survived, Some(false) = died by signal, None = harness trouble
fn probe(exe: &std::path::Path, shape: &str, n: usize) -> Option<bool> {
    let mut st = FamStats::default();
    let r = spawn_worker(exe, &["--probe".into(), shape.into(), n.to_string()], 0, &mut st).ok()?;
    match r.exit {
        Ok(0) => Some(true),
        Err(_) => Some(false),
        Ok(3) => Some(true),
        Ok(_) => None,
    }
}

/// Bisect the overflow threshold of a nesting shape between a size that was answered and one that overflowed
/// (each step is one `--probe` child). Quick: stop at a 3 % bracket; thorough: exact.
fn bisect(exe: &std::path::Path, shape: &str, ok: usize, bad: usize, thorough: bool) -> Result<Value, String> {
    let (mut lo, mut hi) = (ok, bad);
    let res = |hi: usize| if thorough { 1 } else { (hi / 32).max(1) };
    while hi - lo > res(hi) {
        let mid = lo + (hi - lo) / 2;
        match probe(exe, shape, mid) {
            Some(true) => lo = mid,
            Some(false) => hi = mid,
            None => return Err(format!("threshold probe for {shape} at {mid} failed")),
        }
    }
    let bytes = match &gen::shape_input(shape, hi).seam {
        seams::Seam::Doc { query, .. } => query.len(),
        seams::Seam::Req { body, .. } => body.len(),
        seams::Seam::Qs(q) => q.len(),
        seams::Seam::Parse(q) => q.len(),
        seams::Seam::Mp { body, .. } => body.len(),
        seams::Seam::Ws { msgs, .. } => msgs.iter().map(|m| m.len()).sum(),
        _ => 0,
    };
    Ok(json!({"largest size answered": lo, "smallest size seen to overflow a 2 MiB stack": hi, "input bytes at that size": bytes, "bracket": if hi - lo == 1 { "exact" } else { "3 %" }}))
}

fn family_key(name: &str) -> String {
    name.strip_prefix("nest/").unwrap_or(name).to_string()
}

pub fn run(cx: &Cx) {
    let thorough = !cx.quick();
    let tier = if thorough { "thorough" } else { "quick" };
    let n_shapes = gen::SHAPES.iter().filter(|s| s.judged).count();
    cx.rule(&format!(
        "case = one client input pushed through one seam of the real code inside a child process, on a worker thread with a 2 MiB stack. Families: (a) every token string of length <= 4 (quick) / 5 (thorough) over 18 GraphQL tokens, \
         and every single-token edit (thorough: also every pair of delete/substitute edits) of 4 exemplar documents over a 34-token alphabet, through Schema::execute on the strict and the fast-validation schema; \
         (b) {n_shapes} nesting/size shapes (recursive productions, unclosed brackets, long strings/comments/names/numbers, wide lists/objects, aliases, directive/argument/variable/operation/fragment chains and cycles; the same in JSON variables, \
         extensions, batches, query strings, WebSocket payloads and multipart operations/map/paths) at sizes 2^k, k <= 16 (quick) / 18 (thorough) (smaller caps where the work is polynomial, see per-shape ladder), plus every depth 1..130 of six JSON placements; \
         (c) every JSON value of depth <= 2 over 15 atoms and 13 wrappers as variable and as literal for 17 typed arguments (every built-in input type incl. Upload, oneOf, recursive input object, MaybeUndefined, JSON, Any), in query and mutation, strict and fast; \
         (d) operationName values x documents and request extensions shapes (persistedQuery with wrong types) on the strict/fast/persisted-queries schemas; (e) every query string of <= 6 (quick) / 7 (thorough) pieces over 12 pieces through parse_query_string; \
         (f) every prefix and every one-byte deletion of 4 JSON and 3 multipart exemplar bodies, read whole and split (quick: the intact body at every single split, mutants at one split; thorough: every pair / every single split), multipart under 4 limit settings, \
         and 2900+ `map` shapes x 5 operations shapes; (g) WebSocket sessions: every message sequence of length <= 2 (quick) / 3 (thorough) over a 39-message alphabet and every truncation of the 13 valid messages in 3 contexts, both protocols, client closing or staying silent. \
         Non-trivial = the input got past the first decoder it meets (decoded and executed; for document seams: executed without errors)."
    ));
    cx.assume("stack size 2 MiB (std default for spawned threads, the usual server worker); profile agv = release-like codegen (opt-level 2, no debug assertions): stack-depth thresholds depend on both");
    cx.assume("hang detection: 20 s of process CPU time per input (300 s wall) (robust against machine load), 1e6 polls of one future, 10^4 polls of one WebSocket, 20 s parked without a wake-up; timing is recorded, not judged otherwise");
    cx.assume("which inputs are answered with an error and which are accepted is not judged (other properties do); only panics, process deaths and exhausted budgets are violations");
    cx.assume("serde_json refuses JSON nested deeper than 128 on its own, so deep *variable* values reach validation/utils.rs and the InputType parsers only up to depth 127; programmatically built deeper values (families nest/prog-*) are recorded but not judged, no client can produce them");

    let exe = match std::env::current_exe() {
        Ok(p) => p,
        Err(e) => return cx.machinery_error(format!("current_exe: {e}")),
    };
    let mut fams = gen::families(thorough);
    // development aid (never set by ./check): AGV_C12_ONLY=multipart-map,nest/ restricts the run to families with these prefixes
    if let Ok(only) = std::env::var("AGV_C12_ONLY") {
        let pre: Vec<&str> = only.split(',').filter(|s| !s.is_empty()).collect();
        fams.retain(|f| pre.iter().any(|p| f.name.starts_with(p)));
        cx.extra("restricted_to_families(AGV_C12_ONLY)", json!(pre));
    }
    let par: usize = std::env::var("AGV_C12_PAR").ok().and_then(|s| s.parse().ok()).unwrap_or(16);

    // jobs, biggest families first
    struct Job {
        fi: usize,
        lo: usize,
        hi: usize,
    }
    let mut jobs: Vec<Job> = Vec::new();
    for (fi, f) in fams.iter().enumerate() {
        let shard = (f.len / (2 * par)).clamp(500, f.shard.max(500));
        let mut lo = 0;
        while lo < f.len {
            let hi = (lo + shard).min(f.len);
            jobs.push(Job { fi, lo, hi });
            lo = hi;
        }
    }
    jobs.sort_by_key(|j| std::cmp::Reverse((fams[j.fi].mode == Mode::Trace, j.hi - j.lo)));
    let next = AtomicUsize::new(0);
    let stats: Mutex<BTreeMap<usize, FamStats>> = Mutex::new(BTreeMap::new());
    let bisected: Mutex<BTreeMap<String, Value>> = Mutex::new(BTreeMap::new());
    std::thread::scope(|s| {
        for _ in 0..par {
            s.spawn(|| loop {
                let j = next.fetch_add(1, Ordering::SeqCst);
                let Some(job) = jobs.get(j) else { break };
                let fam = &fams[job.fi];
                match run_shard(&exe, fam, tier, job.lo, job.hi) {
                    Ok(st) => {
                        // a nesting ladder is one job: bisect its overflow threshold right away (overlaps with the big sweeps)
                        if fam.name.starts_with("nest/") && job.lo == 0 && job.hi == fam.len {
                            let first_bad = st.bad.iter().filter(|(_, b)| matches!(b, Bad::Crash { overflow: true, .. })).map(|(i, _)| *i).min();
                            if let Some(fb) = first_bad {
                                let ok_below = (0..fb).rev().find(|i| !st.bad.iter().any(|(b, _)| b == i));
                                let key = family_key(&fam.name);
                                match bisect(&exe, &key, ok_below.map(|k| 1usize << k).unwrap_or(0), 1usize << fb, thorough) {
                                    Ok(v) => {
                                        bisected.lock().unwrap().insert(key, v);
                                    }
                                    Err(e) => cx.machinery_error(e),
                                }
                            }
                        }
                        merge(stats.lock().unwrap().entry(job.fi).or_default(), st)
                    }
                    Err(e) => cx.machinery_error(e),
                }
            });
        }
    });
    let bisected = bisected.into_inner().unwrap();
    let stats = stats.into_inner().unwrap();

    // ---- judge
    let mut per_family = serde_json::Map::new();
    let mut per_group: BTreeMap<&str, (u64, u64)> = BTreeMap::new();
    let mut thresholds = serde_json::Map::new();
    let mut unjudged = serde_json::Map::new();
    let mut sites: BTreeMap<String, u64> = BTreeMap::new();
    let mut by_class_family: BTreeMap<String, BTreeMap<String, u64>> = BTreeMap::new();
    for (fi, f) in fams.iter().enumerate() {
        let Some(st) = stats.get(&fi) else { continue };
        let key = family_key(&f.name);
        if f.judged {
            cx.evals(st.inputs);
        }
        let g = per_group.entry(f.group).or_insert((0, 0));
        g.0 += st.inputs;
        g.1 += st.err2 + st.acc;
        if f.judged {
            if f.distinct {
                cx.nontrivial_count(st.err2 + st.acc);
            } else {
                for id in &st.pass_ids {
                    // identity = the seam and the input itself (two enumerations may produce the same text)
                    cx.nontrivial(agv_engine::hstr(&format!("{:?}", (f.make)(*id).seam)));
                }
            }
            for m in &f.must_pass {
                if !st.pass_ids.contains(m) {
                    let input = (f.make)(*m);
                    cx.machinery_error(format!("family {}: the well-formed exemplar #{m} ({}) did not get past the first decoder", f.name, input.desc));
                }
            }
            if f.expect_pass && st.err2 + st.acc == 0 {
                cx.machinery_error(format!("family {}: no input got past the first decoder (the family is designed to contain well-formed members)", f.name));
            }
        }
        let mut pass_sorted = st.pass_ids.clone();
        pass_sorted.sort_unstable();
        pass_sorted.dedup();
        if f.judged {
            for id in pass_sorted.iter().take(2) {
                let input = (f.make)(*id);
                cx.sample(agv_engine::h64(&(&f.name, *id)), json!({"family": f.name, "idx": id, "what": input.desc, "input": seams::render(&input), "outcome": "answered (decoded and executed)"}));
            }
        }
        let mut bad_sorted = st.bad.clone();
        bad_sorted.sort_by_key(|(i, _)| *i);
        let mut overflow_at: Vec<usize> = Vec::new();
        for (idx, b) in &bad_sorted {
            let input = (f.make)(*idx);
            let case = json!({"family": f.name, "tier": tier, "idx": idx, "what": input.desc, "input": seams::render(&input)});
            let (class, site, detail) = match b {
                Bad::Panic { site, msg } => {
                    *sites.entry(site.clone()).or_insert(0) += 1;
                    (format!("panic/{site}"), site.clone(), format!("panic at {site}: {msg} — input: {}", input.desc))
                }
                Bad::Budget { why } => (format!("hang/{key}"), why.clone(), format!("budget exhausted ({why}) — input: {}", input.desc)),
                Bad::Crash { signal, overflow: true, stderr } => {
                    overflow_at.push(*idx);
                    (format!("stack-overflow/{key}"), "stack".to_string(), format!("the process died by signal {signal} with a stack overflow on a 2 MiB stack ({stderr}) — input: {}", input.desc))
                }
                Bad::Crash { signal, overflow: false, stderr } => (format!("crash/{key}"), format!("signal-{signal}"), format!("the process died by signal {signal} ({stderr}) — input: {}", input.desc)),
            };
            if f.judged {
                *by_class_family.entry(class.clone()).or_default().entry(key.clone()).or_insert(0) += 1;
                cx.violation(Violation::new(class, detail, case).key("family", key.clone()).key("site", site));
            } else {
                let e = unjudged.entry(f.name.clone()).or_insert(json!([]));
                e.as_array_mut().unwrap().push(json!({"idx": idx, "what": input.desc, "observed": format!("{b:?}").chars().take(200).collect::<String>()}));
            }
        }
        if f.name.starts_with("nest/") {
            if overflow_at.is_empty() && bad_sorted.is_empty() {
                thresholds.insert(key.clone(), json!({"no failure up to size": 1u64 << (f.len - 1)}));
            }
        }
        per_family.insert(
            f.name.clone(),
            json!({"inputs": st.inputs, "rejected": st.err, "decoded_then_error": st.err2, "accepted": st.acc, "panics": st.panics, "budget_exhausted": st.budget, "process_deaths": st.crashes, "child_processes": st.children, "child_wall_s": (st.child_ms as f64 / 100.0).round() / 10.0,
                   "slowest_input_ms": (st.maxus as f64 / 100.0).round() / 10.0, "slowest_idx": st.maxi, "judged": f.judged}),
        );
    }
    for (k, v) in bisected {
        thresholds.insert(k, v);
    }

    cx.extra("per_family", Value::Object(per_family));
    cx.extra(
        "per_part",
        Value::Object(per_group.iter().map(|(g, (n, p))| (format!("({g})"), json!({"inputs": n, "past_first_decoder": p}))).collect()),
    );
    cx.extra("nesting_thresholds", Value::Object(thresholds));
    cx.extra("panic_sites", json!(sites));
    cx.extra("observed_defect_classes(class -> family -> inputs)", json!(by_class_family));
    cx.extra("not_client_reachable(recorded, not judged)", Value::Object(unjudged));
    cx.extra("bounds", json!({"token_string_length": if thorough { 5 } else { 4 }, "query_string_pieces": if thorough { 7 } else { 6 }, "websocket_session_length": if thorough { 3 } else { 2 }, "nesting_size_max": if thorough { 1u64 << 18 } else { 1u64 << 16 }, "stack_bytes": STACK_BYTES, "cpu_budget_s": CPU_BUDGET_S, "parallel_children": par}));
    cx.exhaustive(true);
}

pub fn replay(case: &Value) -> String {
    let fam = case["family"].as_str().unwrap_or("");
    let tier = case["tier"].as_str().unwrap_or("quick");
    let idx = case["idx"].as_u64().unwrap_or(0) as usize;
    let Ok(exe) = std::env::current_exe() else { return "cannot find own executable".into() };
    let Some(f) = gen::family(fam, tier == "thorough") else { return format!("unknown family {fam}") };
    let input = (f.make)(idx);
    let mut st = FamStats::default();
    let args: Vec<String> = vec!["--worker".into(), fam.into(), tier.into(), idx.to_string(), (idx + 1).to_string(), "--trace".into(), "--show".into()];
    match spawn_worker(&exe, &args, idx, &mut st) {
        Err(e) => format!("harness trouble: {e}"),
        Ok(r) => {
            let what = match (&r.exit, st.bad.first()) {
                (_, Some((_, Bad::Panic { site, msg }))) => format!("panic at {site}: {msg}"),
                (_, Some((_, Bad::Budget { why }))) => format!("budget exhausted ({why})"),
                (Err(sig), _) => format!("the child died by signal {sig}: {}", r.stderr_tail.trim()),
                (Ok(0), None) => format!("answered normally ({} rejected, {} decoded-then-error, {} accepted)\n  {}", st.err, st.err2, st.acc, r.stderr_tail.trim()),
                (Ok(c), None) => format!("child exit code {c}: {}", r.stderr_tail.trim()),
                (_, Some((_, b))) => format!("{b:?}"),
            };
            format!("input: {} {}\n  result: {what}", input.desc, seams::render(&input))
        }
    }
}

fn main() {
    let args: Vec<String> = std::env::args().skip(1).collect();
    if matches!(args.first().map(|s| s.as_str()), Some("--worker") | Some("--probe") | Some("--doc")) {
        worker_main(&args);
    }
    agv_engine::driver::main("C12", "exploration", run, Some(replay))
}
