//! The client-facing seams and how one input is pushed through them.

use crate::schema::{Kind, Schemas};
use async_graphql::http::{parse_query_string, receive_batch_body, receive_batch_json, receive_json, MultipartOptions, WebSocket, WebSocketProtocols, WsMessage};
use async_graphql::{BatchRequest, BatchResponse, Request, Variables};
use futures_util::io::AsyncRead;
use futures_util::stream::Stream;
use std::future::Future;
use std::pin::Pin;
use std::sync::atomic::{AtomicBool, Ordering};
use std::sync::Arc;
use std::task::{Context, Poll, Wake, Waker};

#[derive(Clone, Debug)]
pub enum Seam {
    /// `Schema::execute(Request::new(query).variables(..).operation_name(..))`
    Doc { kind: Kind, query: String, vars: Option<String> },
    /// JSON request text -> `receive_batch_json` -> `Schema::execute_batch`
    Req { kind: Kind, body: String },
    /// `parse_query_string` -> `Schema::execute`
    Qs(String),
    /// which: 0 receive_json, 1 receive_batch_json, 2 receive_batch_body(no content type), 3 receive_batch_body("application/json")
    Json { which: u8, body: Vec<u8>, cuts: Vec<usize> },
    /// `receive_batch_body("multipart/form-data; boundary=…")` -> `Schema::execute_batch`
    Mp { body: Vec<u8>, max_file_size: Option<usize>, max_num_files: Option<usize>, cuts: Vec<usize> },
    /// `WebSocket::new(schema, byte messages, protocol)` hand-polled; proto 0 = graphql-ws (legacy), 1 = graphql-transport-ws
    Ws { proto: u8, msgs: Vec<Vec<u8>>, eof: bool },
    /// `async_graphql::parser::parse_query` alone (attribution of overflows: parser vs later stages)
    Parse(String),
    /// programmatically built deep value -> `Variables::from_json` -> execute (NOT reachable through serde_json: depth cap 128)
    Prog { object: bool, depth: usize },
}

#[derive(Clone, Debug)]
pub struct Input {
    pub desc: String,
    pub seam: Seam,
}

#[derive(Clone, Debug, PartialEq)]
pub enum Out {
    /// rejected by the first decoder / request answered with errors
    Err,
    /// decoded, then execution answered with errors
    Err2,
    /// decoded and executed without error
    Acc,
    /// step budget exhausted (polls) or parked without a wake-up
    Budget(&'static str),
}

pub const MP_BOUNDARY: &str = "XBOUNDX";
/// triage aid (`--doc`, replay): print the response / decode error to stderr
pub static SHOW: AtomicBool = AtomicBool::new(false);
fn show(what: &str, v: &dyn std::fmt::Debug) {
    if SHOW.load(Ordering::Relaxed) {
        let s = format!("{v:?}");
        eprintln!("{what}: {}", s.chars().take(1500).collect::<String>());
    }
}
const POLL_CAP: u64 = 1_000_000;
const WS_POLL_CAP: usize = 10_000;

struct ThreadWaker {
    t: std::thread::Thread,
    woken: AtomicBool,
}
impl Wake for ThreadWaker {
    fn wake(self: Arc<Self>) {
        self.woken.store(true, Ordering::SeqCst);
        self.t.unpark();
    }
    fn wake_by_ref(self: &Arc<Self>) {
        self.woken.store(true, Ordering::SeqCst);
        self.t.unpark();
    }
}

/// Err("polls") = still not ready after POLL_CAP polls (spinning); Err("parked") = pending and no
/// wake-up for 20 s (only the tempfile path really parks: file I/O on the `blocking` pool).
fn block_on<T>(fut: impl Future<Output = T>) -> Result<T, &'static str> {
    let tw = Arc::new(ThreadWaker { t: std::thread::current(), woken: AtomicBool::new(true) });
    let waker = Waker::from(tw.clone());
    let mut cx = Context::from_waker(&waker);
    let mut fut = std::pin::pin!(fut);
    let mut polls = 0u64;
    loop {
        tw.woken.store(false, Ordering::SeqCst);
        if let Poll::Ready(v) = fut.as_mut().poll(&mut cx) {
            return Ok(v);
        }
        polls += 1;
        if polls > POLL_CAP {
            return Err("polls");
        }
        let start = std::time::Instant::now();
        while !tw.woken.load(Ordering::SeqCst) {
            std::thread::park_timeout(std::time::Duration::from_millis(200));
            if start.elapsed().as_secs() >= 20 {
                return Err("parked");
            }
        }
    }
}

pub struct ChunkReader {
    data: Vec<u8>,
    pos: usize,
    cuts: Vec<usize>,
}
impl ChunkReader {
    pub fn new(data: &[u8], cuts: &[usize]) -> Self {
        ChunkReader { data: data.to_vec(), pos: 0, cuts: cuts.to_vec() }
    }
}
impl AsyncRead for ChunkReader {
    fn poll_read(mut self: Pin<&mut Self>, _cx: &mut Context<'_>, buf: &mut [u8]) -> Poll<std::io::Result<usize>> {
        let this = &mut *self;
        let stop = this.cuts.iter().copied().find(|c| *c > this.pos && *c <= this.data.len()).unwrap_or(this.data.len());
        let n = buf.len().min(stop - this.pos);
        buf[..n].copy_from_slice(&this.data[this.pos..this.pos + n]);
        this.pos += n;
        Poll::Ready(Ok(n))
    }
}

fn resp_out(ok: bool, decoded_seam: bool) -> Out {
    if ok {
        Out::Acc
    } else if decoded_seam {
        Out::Err2
    } else {
        Out::Err
    }
}

fn exec_batch(s: &Schemas, kind: Kind, b: BatchRequest) -> Result<Out, &'static str> {
    let r: BatchResponse = block_on(s.get(kind).execute_batch(b))?;
    show("response", &r);
    // serializing the response is part of answering
    let _ = serde_json::to_string(&r);
    Ok(resp_out(r.is_ok(), true))
}

struct WsInput {
    msgs: std::collections::VecDeque<Vec<u8>>,
    eof: bool,
}
impl Stream for WsInput {
    type Item = Vec<u8>;
    fn poll_next(mut self: Pin<&mut Self>, _cx: &mut Context<'_>) -> Poll<Option<Vec<u8>>> {
        match self.msgs.pop_front() {
            Some(m) => Poll::Ready(Some(m)),
            None if self.eof => Poll::Ready(None),
            // the client stays silent: never woken again
            None => Poll::Pending,
        }
    }
}

struct FlagWaker(AtomicBool);
impl Wake for FlagWaker {
    fn wake(self: Arc<Self>) {
        self.0.store(true, Ordering::SeqCst);
    }
    fn wake_by_ref(self: &Arc<Self>) {
        self.0.store(true, Ordering::SeqCst);
    }
}

fn run_ws(s: &Schemas, proto: u8, msgs: &[Vec<u8>], eof: bool) -> Out {
    let p = if proto == 0 { WebSocketProtocols::SubscriptionsTransportWS } else { WebSocketProtocols::GraphQLWS };
    let input = WsInput { msgs: msgs.iter().cloned().collect(), eof };
    let sock = WebSocket::new(s.strict.clone(), input, p);
    let mut sock = Box::pin(sock);
    let flag = Arc::new(FlagWaker(AtomicBool::new(false)));
    let waker = Waker::from(flag.clone());
    let mut cx = Context::from_waker(&waker);
    let mut acked = false;
    let mut data_ok = false;
    let mut polls = 0usize;
    loop {
        polls += 1;
        if polls > WS_POLL_CAP {
            return Out::Budget("ws-polls");
        }
        flag.0.store(false, Ordering::SeqCst);
        match sock.as_mut().poll_next(&mut cx) {
            Poll::Ready(None) => break,
            Poll::Ready(Some(WsMessage::Close(_, _))) => {}
            Poll::Ready(Some(WsMessage::Text(t))) => {
                if let Ok(v) = serde_json::from_str::<serde_json::Value>(&t) {
                    match v["type"].as_str() {
                        Some("connection_ack") => acked = true,
                        Some("data") | Some("next") => {
                            if v["payload"]["errors"].is_null() {
                                data_ok = true;
                            }
                        }
                        _ => {}
                    }
                }
            }
            Poll::Pending => {
                if !flag.0.load(Ordering::SeqCst) {
                    // quiescent: pending and nobody woke us (all sources in this harness are synchronous)
                    break;
                }
            }
        }
    }
    if data_ok {
        Out::Acc
    } else if acked {
        Out::Err2
    } else {
        Out::Err
    }
}

fn deep_json(object: bool, depth: usize) -> serde_json::Value {
    let mut v = serde_json::Value::from(1);
    for _ in 0..depth {
        v = if object {
            let mut m = serde_json::Map::new();
            m.insert("a".into(), v);
            serde_json::Value::Object(m)
        } else {
            serde_json::Value::Array(vec![v])
        };
    }
    v
}

/// Push one input through its seam. Panics propagate to the caller (which catches them).
pub fn process(s: &Schemas, input: &Input) -> Out {
    let r: Result<Out, &'static str> = (|| match &input.seam {
        Seam::Doc { kind, query, vars } => {
            let mut req = Request::new(query.clone());
            if let Some(v) = vars {
                match serde_json::from_str::<Variables>(v) {
                    Ok(v) => req = req.variables(v),
                    Err(_) => return Ok(Out::Err),
                }
            }
            let resp = block_on(s.get(*kind).execute(req))?;
            let _ = serde_json::to_string(&resp);
            show("response", &resp);
            Ok(resp_out(resp.is_ok(), false))
        }
        Seam::Req { kind, body } => match block_on(receive_batch_json(body.as_bytes()))? {
            Err(e) => {
                let _ = e.to_string();
                show("decode error", &e);
                Ok(Out::Err)
            }
            Ok(b) => exec_batch(s, *kind, b),
        },
        Seam::Qs(q) => match parse_query_string(q) {
            Err(e) => {
                let _ = e.to_string();
                show("decode error", &e);
                Ok(Out::Err)
            }
            Ok(req) => {
                let resp = block_on(s.strict.execute(req))?;
                let _ = serde_json::to_string(&resp);
                Ok(resp_out(resp.is_ok(), true))
            }
        },
        Seam::Json { which, body, cuts } => {
            let rd = ChunkReader::new(body, cuts);
            let dec: Result<BatchRequest, async_graphql::ParseRequestError> = match which {
                0 => block_on(receive_json(rd))?.map(BatchRequest::Single),
                1 => block_on(receive_batch_json(rd))?,
                2 => block_on(receive_batch_body(None::<&str>, rd, MultipartOptions::default()))?,
                _ => block_on(receive_batch_body(Some("application/json"), rd, MultipartOptions::default()))?,
            };
            match dec {
                Err(e) => {
                    let _ = e.to_string();
                    Ok(Out::Err)
                }
                Ok(b) => exec_batch(s, Kind::Strict, b),
            }
        }
        Seam::Mp { body, max_file_size, max_num_files, cuts } => {
            let rd = ChunkReader::new(body, cuts);
            let mut opts = MultipartOptions::default();
            if let Some(m) = max_file_size {
                opts = opts.max_file_size(*m);
            }
            if let Some(m) = max_num_files {
                opts = opts.max_num_files(*m);
            }
            let ct = format!("multipart/form-data; boundary={MP_BOUNDARY}");
            match block_on(receive_batch_body(Some(ct.as_str()), rd, opts))? {
                Err(e) => {
                    let _ = e.to_string();
                    Ok(Out::Err)
                }
                Ok(b) => exec_batch(s, Kind::Strict, b),
            }
        }
        Seam::Ws { proto, msgs, eof } => Ok(run_ws(s, *proto, msgs, *eof)),
        Seam::Parse(q) => match async_graphql::parser::parse_query(q) {
            Ok(d) => {
                drop(d);
                Ok(Out::Acc)
            }
            Err(e) => {
                let _ = e.to_string();
                Ok(Out::Err)
            }
        },
        Seam::Prog { object, depth } => {
            let mut m = serde_json::Map::new();
            m.insert("v".into(), deep_json(*object, *depth));
            let vars = Variables::from_json(serde_json::Value::Object(m));
            let req = Request::new("query($v: Any){ any(v:$v) }").variables(vars);
            let resp = block_on(s.strict.execute(req))?;
            let _ = serde_json::to_string(&resp);
            Ok(resp_out(resp.is_ok(), false))
        }
    })();
    match r {
        Ok(o) => o,
        Err(why) => Out::Budget(why),
    }
}

/// A short, printable rendering of the input (for reports).
pub fn render(input: &Input) -> serde_json::Value {
    fn clip(s: &str) -> serde_json::Value {
        let n = s.chars().count();
        if n <= 400 {
            serde_json::json!(s)
        } else {
            let head: String = s.chars().take(160).collect();
            let tail: String = s.chars().skip(n - 60).collect();
            serde_json::json!({"len": s.len(), "head": head, "tail": tail})
        }
    }
    fn clipb(b: &[u8]) -> serde_json::Value {
        clip(&String::from_utf8_lossy(b))
    }
    use serde_json::json;
    match &input.seam {
        Seam::Doc { kind, query, vars } => json!({"seam": "Schema::execute", "schema": kind.name(), "query": clip(query), "variables": vars.as_deref().map(clip)}),
        Seam::Req { kind, body } => json!({"seam": "receive_batch_json+execute_batch", "schema": kind.name(), "body": clip(body)}),
        Seam::Qs(q) => json!({"seam": "parse_query_string+execute", "query_string": clip(q)}),
        Seam::Json { which, body, cuts } => json!({"seam": (["receive_json", "receive_batch_json", "receive_batch_body(no content type)", "receive_batch_body(application/json)"][*which as usize]), "body": clipb(body), "cuts": cuts}),
        Seam::Mp { body, max_file_size, max_num_files, cuts } => json!({"seam": "receive_batch_body(multipart/form-data)+execute_batch", "boundary": MP_BOUNDARY, "body": clipb(body), "max_file_size": max_file_size, "max_num_files": max_num_files, "cuts": cuts}),
        Seam::Ws { proto, msgs, eof } => json!({"seam": "http::WebSocket", "protocol": if *proto == 0 { "graphql-ws" } else { "graphql-transport-ws" }, "messages": msgs.iter().map(|m| clipb(m)).collect::<Vec<_>>(), "then": if *eof { "client closes" } else { "client stays silent" }}),
        Seam::Parse(q) => json!({"seam": "parser::parse_query", "query": clip(q)}),
        Seam::Prog { object, depth } => json!({"seam": "Variables::from_json(programmatic)+execute", "shape": if *object { "object" } else { "list" }, "depth": depth}),
    }
}
