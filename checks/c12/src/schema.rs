//! Harness schema S: a derive-built schema that uses every built-in input type
//! (Int, Float, String, Boolean, ID, enum, input object (recursive), oneOf, lists,
//! MaybeUndefined, Upload, JSON, Any). Resolvers touch their arguments the documented way
//! (`Upload::value(ctx)` for every upload they receive) and return a constant.

use async_graphql::extensions::apollo_persisted_queries::{ApolloPersistedQueries, LruCacheStorage};
use async_graphql::extensions::Analyzer;
use async_graphql::*;
use futures_util::stream::{self, Stream};

#[derive(Enum, Copy, Clone, Eq, PartialEq, Debug)]
pub enum Color {
    Red,
    Green,
}

#[derive(InputObject)]
pub struct Inp {
    i: i32,
    f: Option<f64>,
    s: Option<String>,
    b: Option<bool>,
    id: Option<ID>,
    e: Option<Color>,
    l: Option<Vec<i32>>,
    ll: Option<Vec<Vec<Option<i32>>>>,
    m: MaybeUndefined<i32>,
    n: Option<Box<Inp>>,
    u: Option<Upload>,
    j: Option<Json<serde_json::Value>>,
    #[graphql(default = 7)]
    d: i32,
}

#[derive(OneofObject)]
pub enum One {
    A(i32),
    B(String),
    C(Inp),
    U(Upload),
}

fn touch_upload(ctx: &Context<'_>, u: &Upload) -> Result<String> {
    let v = u.value(ctx)?;
    Ok(format!("{}:{}", v.filename, v.size().unwrap_or(0)))
}

fn touch_inp(ctx: &Context<'_>, v: &Inp) -> Result<String> {
    let mut n = 0;
    let mut cur = Some(v);
    let mut acc = v.i as i64 + v.d as i64;
    while let Some(x) = cur {
        n += 1;
        if let Some(u) = &x.u {
            touch_upload(ctx, u)?;
        }
        acc += x.l.as_ref().map(|l| l.len() as i64).unwrap_or(0);
        acc += x.ll.as_ref().map(|l| l.len() as i64).unwrap_or(0);
        acc += x.f.is_some() as i64 + x.s.is_some() as i64 + x.b.is_some() as i64 + x.id.is_some() as i64 + x.e.is_some() as i64 + x.j.is_some() as i64 + x.m.is_value() as i64;
        cur = x.n.as_deref();
    }
    Ok(format!("inp{n}/{acc}"))
}

pub struct Obj(pub u32);

#[Object]
impl Obj {
    async fn a(&self) -> i32 {
        1
    }
    async fn obj(&self) -> Obj {
        Obj(self.0 + 1)
    }
    async fn list(&self) -> Vec<Obj> {
        vec![Obj(self.0 + 1)]
    }
}

macro_rules! echo_root {
    ($t:ident) => {
        pub struct $t;
        #[Object]
        impl $t {
            async fn a(&self) -> i32 {
                1
            }
            async fn obj(&self) -> Obj {
                Obj(0)
            }
            async fn int(&self, v: Option<i32>) -> String {
                format!("{v:?}")
            }
            async fn nn(&self, v: i32) -> String {
                format!("{v:?}")
            }
            async fn float(&self, v: Option<f64>) -> String {
                format!("{v:?}")
            }
            async fn string(&self, v: Option<String>) -> String {
                format!("{}", v.map(|s| s.len()).unwrap_or(0))
            }
            async fn boolean(&self, v: Option<bool>) -> String {
                format!("{v:?}")
            }
            async fn id(&self, v: Option<ID>) -> String {
                format!("{}", v.map(|s| s.len()).unwrap_or(0))
            }
            async fn en(&self, v: Option<Color>) -> String {
                format!("{v:?}")
            }
            async fn inp(&self, ctx: &Context<'_>, v: Option<Inp>) -> Result<String> {
                match v {
                    Some(v) => touch_inp(ctx, &v),
                    None => Ok("none".into()),
                }
            }
            async fn one(&self, ctx: &Context<'_>, v: Option<One>) -> Result<String> {
                match v {
                    Some(One::A(i)) => Ok(format!("a{i}")),
                    Some(One::B(s)) => Ok(format!("b{}", s.len())),
                    Some(One::C(i)) => touch_inp(ctx, &i),
                    Some(One::U(u)) => touch_upload(ctx, &u),
                    None => Ok("none".into()),
                }
            }
            async fn list(&self, v: Option<Vec<i32>>) -> String {
                format!("{}", v.map(|l| l.len()).unwrap_or(0))
            }
            async fn list2(&self, v: Option<Vec<Vec<Option<i32>>>>) -> String {
                format!("{}", v.map(|l| l.len()).unwrap_or(0))
            }
            async fn nnlist(&self, v: Vec<i32>) -> String {
                format!("{}", v.len())
            }
            async fn mu(&self, v: MaybeUndefined<i32>) -> String {
                format!("{v:?}")
            }
            async fn json(&self, v: Option<Json<serde_json::Value>>) -> String {
                format!("{}", v.is_some())
            }
            async fn any(&self, v: Option<Any>) -> String {
                format!("{}", v.is_some())
            }
            async fn up(&self, ctx: &Context<'_>, v: Option<Upload>) -> Result<String> {
                match v {
                    Some(u) => touch_upload(ctx, &u),
                    None => Ok("none".into()),
                }
            }
            async fn ups(&self, ctx: &Context<'_>, v: Option<Vec<Upload>>) -> Result<String> {
                let mut out = String::new();
                for u in v.unwrap_or_default() {
                    out.push_str(&touch_upload(ctx, &u)?);
                }
                Ok(out)
            }
        }
    };
}

echo_root!(Query);
echo_root!(Mutation);

pub struct Subscription;

#[Subscription]
impl Subscription {
    async fn ticks(&self, v: Option<i32>) -> impl Stream<Item = i32> {
        stream::iter(vec![v.unwrap_or(1), 2])
    }
    async fn up(&self, ctx: &Context<'_>, v: Option<Upload>) -> Result<impl Stream<Item = String>> {
        let s = match v {
            Some(u) => touch_upload(ctx, &u)?,
            None => "none".to_string(),
        };
        Ok(stream::iter(vec![s]))
    }
    async fn inp(&self, ctx: &Context<'_>, v: Option<Inp>) -> Result<impl Stream<Item = String>> {
        let s = match v {
            Some(v) => touch_inp(ctx, &v)?,
            None => "none".to_string(),
        };
        Ok(stream::iter(vec![s]))
    }
}

pub type S = Schema<Query, Mutation, Subscription>;

#[derive(Clone, Copy, PartialEq, Eq, Debug)]
pub enum Kind {
    Strict,
    Fast,
    Apq,
}

impl Kind {
    pub fn name(self) -> &'static str {
        match self {
            Kind::Strict => "strict",
            Kind::Fast => "fast",
            Kind::Apq => "apq",
        }
    }
}

pub struct Schemas {
    pub strict: S,
    pub fast: S,
    pub apq: S,
}

impl Schemas {
    pub fn build() -> Schemas {
        Schemas {
            strict: Schema::build(Query, Mutation, Subscription).finish(),
            fast: Schema::build(Query, Mutation, Subscription).validation_mode(ValidationMode::Fast).finish(),
            apq: Schema::build(Query, Mutation, Subscription).extension(ApolloPersistedQueries::new(LruCacheStorage::new(8))).extension(Analyzer).finish(),
        }
    }
    pub fn get(&self, k: Kind) -> &S {
        match k {
            Kind::Strict => &self.strict,
            Kind::Fast => &self.fast,
            Kind::Apq => &self.apq,
        }
    }
}
