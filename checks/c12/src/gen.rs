//! Input families. Every family is an indexable, deterministic enumeration: `len` and `make(idx)`.
//! Parent and worker build the same enumeration, so an input is identified by (family, tier, idx).

use crate::schema::Kind;
use crate::seams::{Input, Seam, MP_BOUNDARY};

#[derive(Clone, Copy, PartialEq, Eq, Debug)]
pub enum Mode {
    /// the worker prints the index before every input (few inputs, crash-prone)
    Trace,
    /// the worker prints one line per chunk; a crashed chunk is re-run in trace mode
    Chunk,
}

pub struct Fam {
    pub name: String,
    /// letter of the part of the design the family belongs to (a–g, x = informational)
    pub group: &'static str,
    pub len: usize,
    pub mode: Mode,
    /// false: not reachable by a client; outcomes are recorded, never judged
    pub judged: bool,
    /// inputs per child process
    pub shard: usize,
    /// the family is designed to contain inputs that pass the first decoder
    pub expect_pass: bool,
    /// self-test: these indices must get past the first decoder (well-formed exemplars)
    pub must_pass: Vec<usize>,
    /// the enumeration yields pairwise distinct inputs by construction (the worker then reports counts, not indices)
    pub distinct: bool,
    pub make: Box<dyn Fn(usize) -> Input + Send + Sync>,
}

// ---------------------------------------------------------------------------------------------
// helpers

/// idx -> sequence over `base` symbols in length-lexicographic order (idx 0 = empty sequence)
pub fn decode_seq(mut t: usize, base: usize) -> Vec<usize> {
    let mut l = 0usize;
    let mut pow = 1usize;
    while t >= pow {
        t -= pow;
        pow *= base;
        l += 1;
    }
    let mut out = vec![0; l];
    for i in (0..l).rev() {
        out[i] = t % base;
        t /= base;
    }
    out
}

pub fn count_seqs(base: usize, maxlen: usize) -> usize {
    let mut n = 0;
    let mut p = 1;
    for _ in 0..=maxlen {
        n += p;
        p *= base;
    }
    n
}

/// Join tokens into document text: a space only where two word-like tokens would otherwise fuse
/// (the crate's grammar does not allow blanks inside a type such as `[Int!]`, and `$ a` is not a variable).
pub fn join_tokens(toks: &[&str]) -> String {
    fn wordish(c: char) -> bool {
        c.is_ascii_alphanumeric() || c == '_' || c == '"' || c == '-' || c == '.'
    }
    let mut out = String::new();
    for t in toks {
        if let (Some(a), Some(b)) = (out.chars().last(), t.chars().next()) {
            if wordish(a) && wordish(b) {
                out.push(' ');
            }
        }
        out.push_str(t);
    }
    out
}

fn doc(kind: Kind, q: String) -> Seam {
    Seam::Doc { kind, query: q, vars: None }
}

fn jstr(s: &str) -> String {
    serde_json::to_string(s).unwrap()
}

/// JSON request text with raw (spliced) variables / extensions text
fn req_body(query: &str, op: Option<&str>, vars: Option<&str>, ext: Option<&str>) -> String {
    let mut s = format!("{{\"query\":{}", jstr(query));
    if let Some(o) = op {
        s.push_str(",\"operationName\":");
        s.push_str(o);
    }
    if let Some(v) = vars {
        s.push_str(",\"variables\":");
        s.push_str(v);
    }
    if let Some(e) = ext {
        s.push_str(",\"extensions\":");
        s.push_str(e);
    }
    s.push('}');
    s
}

fn rep(s: &str, n: usize) -> String {
    s.repeat(n)
}

fn nest(open: &str, inner: &str, close: &str, n: usize) -> String {
    let mut s = String::with_capacity(n * (open.len() + close.len()) + inner.len());
    for _ in 0..n {
        s.push_str(open);
    }
    s.push_str(inner);
    for _ in 0..n {
        s.push_str(close);
    }
    s
}

pub fn mp_part(name: &str, filename: Option<&str>, ctype: Option<&str>, content: &[u8]) -> Vec<u8> {
    let mut s = format!("--{MP_BOUNDARY}\r\nContent-Disposition: form-data; name=\"{name}\"");
    if let Some(f) = filename {
        s.push_str(&format!("; filename=\"{f}\""));
    }
    s.push_str("\r\n");
    if let Some(c) = ctype {
        s.push_str(&format!("Content-Type: {c}\r\n"));
    }
    s.push_str("\r\n");
    let mut b = s.into_bytes();
    b.extend_from_slice(content);
    b.extend_from_slice(b"\r\n");
    b
}

pub fn mp_body(ops: &str, map: &str, files: &[(&str, &str, &[u8])]) -> Vec<u8> {
    let mut b = mp_part("operations", None, None, ops.as_bytes());
    b.extend(mp_part("map", None, None, map.as_bytes()));
    for (name, filename, content) in files {
        b.extend(mp_part(name, Some(filename), Some("text/plain"), content));
    }
    b.extend_from_slice(format!("--{MP_BOUNDARY}--\r\n").as_bytes());
    b
}

// ---------------------------------------------------------------------------------------------
// (a) token sweeps

pub const TOK: [&str; 18] = ["{", "}", "(", ")", "[", "]", ":", "!", "=", "$", "@", "...", "a", "on", "query", "fragment", "1", "\"s\""];

fn fam_tokens(thorough: bool) -> Fam {
    let maxlen = if thorough { 5 } else { 4 };
    let per = count_seqs(TOK.len(), maxlen);
    Fam {
        name: "tokens".into(),
        group: "a",
        len: 2 * per,
        mode: Mode::Chunk,
        judged: true,
        shard: 40_000,
        expect_pass: true,
        must_pass: vec![],
        distinct: true,
        make: Box::new(move |idx| {
            let kind = if idx % 2 == 0 { Kind::Strict } else { Kind::Fast };
            let seq = decode_seq(idx / 2, TOK.len());
            let q = join_tokens(&seq.iter().map(|i| TOK[*i]).collect::<Vec<_>>());
            Input { desc: format!("token string of length {} on the {} schema", seq.len(), kind.name()), seam: doc(kind, q) }
        }),
    }
}

// (a2) single-token edits (thorough: pairs) of exemplar documents

const EDIT_EXTRA: [&str; 16] =
    ["mutation", "subscription", "null", "Int", "Inp", "Upload", "$v", "v", "obj", "int", "true", "-1", "1.5", "\"#__graphql_file__:0\"", "\"#__graphql_file__:x\"", "RED"];

const EXEMPLARS: [(&str, Option<&str>); 4] = [
    (
        "query q ( $v : Int = 1 $w : [ Int ! ] = [ 1 ] ) { a x : int ( v : $v ) @skip ( if : false ) ... f ... on Query { nnlist ( v : $w ) } } fragment f on Query { obj { a } }",
        None,
    ),
    ("mutation m ( $u : Upload $i : Inp = { i : 1 n : { i : 2 } } $o : One ) { up ( v : $u ) inp ( v : $i ) one ( v : $o ) }", Some("{\"u\":null,\"o\":{\"a\":1}}")),
    (
        "{ inp ( v : { i : 1 l : [ 1 2 ] ll : [ [ 1 null ] ] e : RED m : null j : { k : [ 1 ] } u : null } ) one ( v : { b : \"s\" } ) en ( v : GREEN ) float ( v : 1.5 ) id ( v : \"x\" ) mu ( v : 1 ) any ( v : [ { a : 1 } ] ) }",
        None,
    ),
    ("subscription s ( $v : Int ) { ticks ( v : $v ) }", Some("{\"v\":3}")),
];

fn edit_alphabet() -> Vec<&'static str> {
    TOK.iter().chain(EDIT_EXTRA.iter()).copied().collect()
}

/// single edits of a token list with n tokens over an alphabet of size a: 1 (identity) + n deletions + n·a substitutions + (n+1)·a insertions
fn single_edits(n: usize, a: usize) -> usize {
    1 + n + n * a + (n + 1) * a
}

fn apply_single(toks: &[&'static str], alph: &[&'static str], mut e: usize) -> Vec<&'static str> {
    let n = toks.len();
    let a = alph.len();
    let mut v: Vec<&'static str> = toks.to_vec();
    if e == 0 {
        return v;
    }
    e -= 1;
    if e < n {
        v.remove(e);
        return v;
    }
    e -= n;
    if e < n * a {
        v[e / a] = alph[e % a];
        return v;
    }
    e -= n * a;
    v.insert(e / a, alph[e % a]);
    v
}

/// pair edits (thorough): positions i<j, each deleted or substituted by one of the 18 TOK tokens
fn pair_edits(n: usize) -> usize {
    let c = TOK.len() + 1;
    n * (n.saturating_sub(1)) / 2 * c * c
}

fn apply_pair(toks: &[&'static str], mut e: usize) -> Vec<&'static str> {
    let n = toks.len();
    let c = TOK.len() + 1;
    let cc = c * c;
    let pair = e / cc;
    e %= cc;
    // pair index -> (i, j), i < j
    let mut i = 0;
    let mut left = pair;
    while left >= n - 1 - i {
        left -= n - 1 - i;
        i += 1;
    }
    let j = i + 1 + left;
    let (ei, ej) = (e / c, e % c);
    let mut v: Vec<Option<&'static str>> = toks.iter().map(|t| Some(*t)).collect();
    v[i] = if ei == 0 { None } else { Some(TOK[ei - 1]) };
    v[j] = if ej == 0 { None } else { Some(TOK[ej - 1]) };
    v.into_iter().flatten().collect()
}

fn fam_token_edits(thorough: bool) -> Fam {
    let alph = edit_alphabet();
    let ex: Vec<(Vec<&'static str>, Option<&'static str>)> = EXEMPLARS.iter().map(|(s, v)| (s.split(' ').collect(), *v)).collect();
    // per exemplar: (single count, pair count)
    let counts: Vec<(usize, usize)> = ex.iter().map(|(t, _)| (single_edits(t.len(), alph.len()), if thorough { pair_edits(t.len()) } else { 0 })).collect();
    let per_kind: usize = counts.iter().map(|(a, b)| a + b).sum();
    // the unedited exemplars 0..2 are well-formed and must execute without error on both schemas
    let mut must = Vec::new();
    let mut off = 0;
    for (xi, (a, b)) in counts.iter().enumerate() {
        if xi < 3 {
            must.extend([2 * off, 2 * off + 1]);
        }
        off += a + b;
    }
    Fam {
        name: "token-edits".into(),
        group: "a",
        len: 2 * per_kind,
        mode: Mode::Chunk,
        judged: true,
        shard: 20_000,
        expect_pass: true,
        must_pass: must,
        distinct: false,
        make: Box::new(move |idx| {
            let kind = if idx % 2 == 0 { Kind::Strict } else { Kind::Fast };
            let mut e = idx / 2;
            for (xi, (toks, vars)) in ex.iter().enumerate() {
                let (s, p) = counts[xi];
                if e < s + p {
                    let edited = if e < s { apply_single(toks, &alph, e) } else { apply_pair(toks, e - s) };
                    return Input {
                        desc: format!("exemplar {xi} with {} edit #{e} on the {} schema", if e < s { "single-token" } else { "two-token" }, kind.name()),
                        seam: Seam::Doc { kind, query: join_tokens(&edited), vars: vars.map(|v| v.to_string()) },
                    };
                }
                e -= s + p;
            }
            unreachable!("token-edits index out of range")
        }),
    }
}

// ---------------------------------------------------------------------------------------------
// (b) nesting / size families: one family per shape, idx = k, size n = 2^k

pub struct Shape {
    pub name: &'static str,
    /// largest k in the quick / thorough ladder
    pub kq: u32,
    pub kt: u32,
    pub judged: bool,
}

const fn sh(name: &'static str, kq: u32, kt: u32) -> Shape {
    Shape { name, kq, kt, judged: true }
}

/// kq/kt below 16/18 = the shape does polynomial (not linear) work or is capped by a decoder limit; see `shape_input`
pub const SHAPES: &[Shape] = &[
    // documents: recursive productions
    sh("list-value", 16, 18),
    sh("object-value", 16, 18),
    sh("inp-value", 16, 18),
    sh("const-list-default", 16, 18),
    sh("const-object-default", 16, 18),
    sh("directive-arg-list", 16, 18),
    sh("selection", 16, 18),
    sh("inline-fragment", 16, 18),
    sh("list-type", 16, 18),
    sh("open-lists", 16, 18),
    sh("open-objects", 16, 18),
    sh("open-selections", 16, 18),
    sh("open-parens", 16, 18),
    sh("open-list-types", 16, 18),
    // documents: deep nesting AFTER a token on which a hand-written pre-scan and the grammar could disagree
    // (comment ended by a lone CR / CRLF, '#' and quotes inside strings and block strings, escapes before the
    // closing quote): a bracket pre-scan that loses its place would let the recursive parser overflow the stack
    sh("after-cr-comment-lists", 16, 18),
    sh("after-crlf-comment-lists", 16, 18),
    sh("after-quote-comment-cr-lists", 16, 18),
    sh("after-hash-string-lists", 16, 18),
    sh("after-escaped-quote-string-lists", 16, 18),
    sh("after-escaped-backslash-string-lists", 16, 18),
    sh("after-block-string-quote-hash-lists", 16, 18),
    sh("after-block-string-escaped-triple-lists", 16, 18),
    sh("after-empty-string-lists", 16, 18),
    sh("after-cr-comment-selections", 16, 18),
    // documents: long / wide
    sh("long-string", 16, 18),
    sh("escape-string", 16, 18),
    sh("block-string", 16, 18),
    sh("block-string-lines", 16, 18),
    sh("long-comment", 16, 18),
    sh("comment-lines", 16, 18),
    sh("commas", 16, 18),
    sh("long-name", 16, 18),
    sh("big-int", 16, 18),
    sh("big-exponent", 16, 18),
    sh("nonnull-chain", 16, 18),
    sh("minus-chain", 16, 18),
    sh("wide-list", 16, 18),
    sh("wide-object", 14, 15),
    sh("aliases", 12, 13),
    sh("same-field", 12, 13),
    sh("directive-chain", 12, 13),
    sh("arguments", 14, 15),
    sh("variable-defs", 13, 14),
    sh("operations", 12, 13),
    sh("fragment-defs", 11, 12),
    sh("fragment-chain", 12, 13),
    sh("fragment-cycle", 12, 13),
    // JSON placements (serde_json refuses depth > 128 on its own)
    sh("json-var-list", 16, 18),
    sh("json-var-object", 16, 18),
    sh("json-var-inp", 16, 18),
    sh("json-var-list-typed", 16, 18),
    sh("json-ext-list", 16, 18),
    sh("json-ext-object", 16, 18),
    sh("json-batch-nest", 16, 18),
    sh("json-open-lists", 16, 18),
    sh("json-long-query", 16, 18),
    sh("json-long-number", 16, 18),
    sh("json-wide-batch", 12, 13),
    sh("json-wide-vars", 14, 16),
    sh("qs-var-list", 16, 18),
    sh("qs-ext-object", 16, 18),
    sh("ws-init-payload-list", 16, 18),
    sh("ws-subscribe-var-list", 16, 18),
    sh("ws-long-id", 16, 18),
    sh("mp-ops-var-list", 16, 18),
    sh("mp-map-list", 16, 18),
    sh("mp-deep-path", 16, 18),
    sh("mp-many-paths", 12, 14),
    sh("mp-many-files", 10, 11),
    // programmatic values (not reachable through serde_json)
    // the parser alone on three of the document shapes (attribution only: parser vs later stages)
    Shape { name: "parse-only-list-value", kq: 16, kt: 18, judged: false },
    Shape { name: "parse-only-object-value", kq: 16, kt: 18, judged: false },
    Shape { name: "parse-only-selection", kq: 16, kt: 18, judged: false },
    Shape { name: "prog-var-list", kq: 16, kt: 18, judged: false },
    Shape { name: "prog-var-object", kq: 16, kt: 18, judged: false },
];

pub fn shape_input(shape: &str, n: usize) -> Input {
    let s = Kind::Strict;
    let any_var = "query($v:Any){any(v:$v)}";
    let ws_init = br#"{"type":"connection_init"}"#.to_vec();
    let seam = match shape {
        "list-value" => doc(s, format!("{{any(v:{})}}", nest("[", "1", "]", n))),
        "object-value" => doc(s, format!("{{any(v:{})}}", nest("{a:", "1", "}", n))),
        "inp-value" => doc(s, format!("{{inp(v:{})}}", nest("{i:1,n:", "{i:1}", "}", n))),
        "const-list-default" => doc(s, format!("query($v:Any={}){{any(v:$v)}}", nest("[", "1", "]", n))),
        "const-object-default" => doc(s, format!("query($v:Any={}){{any(v:$v)}}", nest("{a:", "1", "}", n))),
        "directive-arg-list" => doc(s, format!("{{a @skip(if:{})}}", nest("[", "false", "]", n))),
        "selection" => doc(s, format!("{{{}}}", nest("obj{", "a", "}", n))),
        "inline-fragment" => doc(s, format!("{{{}}}", nest("...{", "a", "}", n))),
        "list-type" => doc(s, format!("query($v:{}){{a}}", nest("[", "Int", "]", n))),
        "open-lists" => doc(s, format!("{{any(v:{}", rep("[", n))),
        "open-objects" => doc(s, format!("{{any(v:{}", rep("{a:", n))),
        "open-selections" => doc(s, rep("{a", n)),
        "open-parens" => doc(s, format!("query{}", rep("(", n))),
        "open-list-types" => doc(s, format!("query($v:{}", rep("[", n))),
        "after-cr-comment-lists" => doc(s, format!("{{any(v:#c\r{})}}", nest("[", "1", "]", n))),
        "after-crlf-comment-lists" => doc(s, format!("{{any(v:#c\r\n{})}}", nest("[", "1", "]", n))),
        "after-quote-comment-cr-lists" => doc(s, format!("{{any(v:#\"\r{})}}", nest("[", "1", "]", n))),
        "after-hash-string-lists" => doc(s, format!("{{s:string(v:\"#\")any(v:{})}}", nest("[", "1", "]", n))),
        "after-escaped-quote-string-lists" => doc(s, format!("{{s:string(v:\"\\\"#\")any(v:{})}}", nest("[", "1", "]", n))),
        "after-escaped-backslash-string-lists" => doc(s, format!("{{s:string(v:\"\\\\\")any(v:{})}}", nest("[", "1", "]", n))),
        "after-block-string-quote-hash-lists" => doc(s, format!("{{s:string(v:\"\"\"a\"#\"\"\")any(v:{})}}", nest("[", "1", "]", n))),
        "after-block-string-escaped-triple-lists" => doc(s, format!("{{s:string(v:\"\"\"\\\"\"\"#\"\"\")any(v:{})}}", nest("[", "1", "]", n))),
        "after-empty-string-lists" => doc(s, format!("{{s:string(v:\"\")any(v:{})}}", nest("[", "1", "]", n))),
        "after-cr-comment-selections" => doc(s, format!("{{#c\r{}}}", nest("obj{", "a", "}", n))),
        "long-string" => doc(s, format!("{{string(v:\"{}\")}}", rep("a", n))),
        "escape-string" => doc(s, format!("{{string(v:\"{}\")}}", rep("\\u0041", n))),
        "block-string" => doc(s, format!("{{string(v:\"\"\"{}\"\"\")}}", rep("a", n))),
        "block-string-lines" => doc(s, format!("{{string(v:\"\"\"{}\"\"\")}}", rep("  a\n", n))),
        "long-comment" => doc(s, format!("#{}\n{{a}}", rep("a", n))),
        "comment-lines" => doc(s, format!("{}{{a}}", rep("#a\n", n))),
        "commas" => doc(s, format!("{}{{a}}", rep(",", n))),
        "long-name" => doc(s, format!("{{{}}}", rep("a", n))),
        "big-int" => doc(s, format!("{{float(v:{})}}", rep("1", n))),
        "big-exponent" => doc(s, format!("{{float(v:1e{})}}", rep("9", n))),
        "nonnull-chain" => doc(s, format!("query($v:Int{}){{a}}", rep("!", n))),
        "minus-chain" => doc(s, format!("{{int(v:{}1)}}", rep("-", n))),
        "wide-list" => doc(s, format!("{{any(v:[{}])}}", rep("1,", n))),
        "wide-object" => doc(s, format!("{{any(v:{{{}}})}}", (0..n).map(|i| format!("k{i}:1,")).collect::<String>())),
        "aliases" => doc(s, format!("{{{}}}", (0..n).map(|i| format!("a{i}:a ")).collect::<String>())),
        "same-field" => doc(s, format!("{{{}}}", rep("a ", n))),
        "directive-chain" => doc(s, format!("{{a{}}}", rep(" @skip(if:false)", n))),
        "arguments" => doc(s, format!("{{a({})}}", (0..n).map(|i| format!("x{i}:1,")).collect::<String>())),
        "variable-defs" => doc(s, format!("query({}){{a}}", (0..n).map(|i| format!("$v{i}:Int ")).collect::<String>())),
        "operations" => Seam::Req { kind: s, body: req_body(&(0..n).map(|i| format!("query q{i}{{a}} ")).collect::<String>(), Some("\"q0\""), None, None) },
        "fragment-defs" => doc(s, format!("{{a}}{}", (0..n).map(|i| format!(" fragment f{i} on Query{{a}}")).collect::<String>())),
        "fragment-chain" => doc(s, format!("{{...f0}}{} fragment f{n} on Query{{a}}", (0..n).map(|i| format!(" fragment f{i} on Query{{...f{}}}", i + 1)).collect::<String>())),
        "fragment-cycle" => doc(s, format!("{{...f0}}{}", (0..n).map(|i| format!(" fragment f{i} on Query{{...f{}}}", (i + 1) % n)).collect::<String>())),
        "json-var-list" => Seam::Req { kind: s, body: req_body(any_var, None, Some(&format!("{{\"v\":{}}}", nest("[", "1", "]", n))), None) },
        "json-var-object" => Seam::Req { kind: s, body: req_body(any_var, None, Some(&format!("{{\"v\":{}}}", nest("{\"a\":", "1", "}", n))), None) },
        "json-var-inp" => Seam::Req { kind: s, body: req_body("query($v:Inp){inp(v:$v)}", None, Some(&format!("{{\"v\":{}}}", nest("{\"i\":1,\"n\":", "{\"i\":1}", "}", n))), None) },
        "json-var-list-typed" => {
            // the declared type nests as deep as the value (capped where the type text alone overflows: see list-type)
            let d = n.min(120);
            Seam::Req { kind: s, body: req_body(&format!("query($v:{}){{a}}", nest("[", "Int", "]", d)), None, Some(&format!("{{\"v\":{}}}", nest("[", "1", "]", n))), None) }
        }
        "json-ext-list" => Seam::Req { kind: Kind::Apq, body: req_body("{a}", None, None, Some(&format!("{{\"x\":{}}}", nest("[", "1", "]", n)))) },
        "json-ext-object" => Seam::Req { kind: Kind::Apq, body: req_body("{a}", None, None, Some(&format!("{{\"persistedQuery\":{}}}", nest("{\"a\":", "1", "}", n)))) },
        "json-batch-nest" => Seam::Req { kind: s, body: nest("[", "{\"query\":\"{a}\"}", "]", n) },
        "json-open-lists" => Seam::Req { kind: s, body: format!("{{\"query\":\"{{a}}\",\"variables\":{{\"v\":{}", rep("[", n)) },
        "json-long-query" => Seam::Req { kind: s, body: req_body(&format!("{{{}}}", rep("a", n)), None, None, None) },
        "json-long-number" => Seam::Req { kind: s, body: req_body(any_var, None, Some(&format!("{{\"v\":{}}}", rep("1", n))), None) },
        "json-wide-batch" => Seam::Req { kind: s, body: format!("[{}{{\"query\":\"{{a}}\"}}]", rep("{\"query\":\"{a}\"},", n.saturating_sub(1))) },
        "json-wide-vars" => Seam::Req { kind: s, body: req_body("{a}", None, Some(&format!("{{{}\"z\":1}}", (0..n).map(|i| format!("\"k{i}\":1,")).collect::<String>())), None) },
        "qs-var-list" => Seam::Qs(format!("query=%7Ba%7D&variables={}", nest("[", "1", "]", n))),
        "qs-ext-object" => Seam::Qs(format!("query=%7Ba%7D&extensions={}", nest("%7B%22a%22:", "1", "%7D", n))),
        "ws-init-payload-list" => Seam::Ws { proto: 1, msgs: vec![format!("{{\"type\":\"connection_init\",\"payload\":{}}}", nest("[", "1", "]", n)).into_bytes()], eof: true },
        "ws-subscribe-var-list" => Seam::Ws {
            proto: 1,
            msgs: vec![ws_init, format!("{{\"type\":\"subscribe\",\"id\":\"1\",\"payload\":{{\"query\":\"subscription{{ticks}}\",\"variables\":{{\"v\":{}}}}}}}", nest("[", "1", "]", n)).into_bytes()],
            eof: true,
        },
        "ws-long-id" => Seam::Ws { proto: 1, msgs: vec![ws_init, format!("{{\"type\":\"subscribe\",\"id\":\"{}\",\"payload\":{{\"query\":\"subscription{{ticks}}\"}}}}", rep("9", n)).into_bytes()], eof: true },
        "mp-ops-var-list" => Seam::Mp {
            body: mp_body(&req_body("mutation($f:Upload,$v:Any){up(v:$f) any(v:$v)}", None, Some(&format!("{{\"f\":null,\"v\":{}}}", nest("[", "1", "]", n))), None), "{\"0\":[\"variables.f\"]}", &[("0", "a.txt", b"abc")]),
            max_file_size: None,
            max_num_files: None,
            cuts: vec![],
        },
        "mp-map-list" => Seam::Mp {
            body: mp_body(&req_body("mutation($f:Upload){up(v:$f)}", None, Some("{\"f\":null}"), None), &format!("{{\"0\":{}}}", nest("[", "\"variables.f\"", "]", n)), &[("0", "a.txt", b"abc")]),
            max_file_size: None,
            max_num_files: None,
            cuts: vec![],
        },
        "mp-deep-path" => Seam::Mp {
            body: mp_body(&req_body("mutation($f:Any){any(v:$f)}", None, Some("{\"f\":[[[null]]]}"), None), &format!("{{\"0\":[\"variables.f{}\"]}}", rep(".0", n)), &[("0", "a.txt", b"abc")]),
            max_file_size: None,
            max_num_files: None,
            cuts: vec![],
        },
        "mp-many-paths" => Seam::Mp {
            body: mp_body(
                &req_body("mutation($l:[Upload!]){ups(v:$l)}", None, Some(&format!("{{\"l\":[{}null]}}", rep("null,", n.saturating_sub(1)))), None),
                &format!("{{\"0\":[{}]}}", (0..n).map(|i| format!("\"variables.l.{i}\"")).collect::<Vec<_>>().join(",")),
                &[("0", "a.txt", b"abc")],
            ),
            max_file_size: None,
            max_num_files: None,
            cuts: vec![],
        },
        "mp-many-files" => {
            let names: Vec<String> = (0..n).map(|i| i.to_string()).collect();
            let files: Vec<(&str, &str, &[u8])> = names.iter().map(|nm| (nm.as_str(), "a.txt", &b"abc"[..])).collect();
            Seam::Mp {
                body: mp_body(
                    &req_body("mutation($l:[Upload!]){ups(v:$l)}", None, Some(&format!("{{\"l\":[{}null]}}", rep("null,", n.saturating_sub(1)))), None),
                    &format!("{{{}}}", (0..n).map(|i| format!("\"{i}\":[\"variables.l.{i}\"]")).collect::<Vec<_>>().join(",")),
                    &files,
                ),
                max_file_size: None,
                max_num_files: None,
                cuts: vec![],
            }
        }
        "parse-only-list-value" => Seam::Parse(format!("{{any(v:{})}}", nest("[", "1", "]", n))),
        "parse-only-object-value" => Seam::Parse(format!("{{any(v:{})}}", nest("{a:", "1", "}", n))),
        "parse-only-selection" => Seam::Parse(format!("{{{}}}", nest("obj{", "a", "}", n))),
        "prog-var-list" => Seam::Prog { object: false, depth: n },
        "prog-var-object" => Seam::Prog { object: true, depth: n },
        other => panic!("unknown shape {other}"),
    };
    Input { desc: format!("shape {shape} at size {n}"), seam }
}

fn fam_shape(sp: &'static Shape, thorough: bool) -> Fam {
    let k = if thorough { sp.kt } else { sp.kq };
    let name = sp.name;
    Fam {
        name: format!("nest/{name}"),
        group: if sp.judged { "b" } else { "x" },
        len: k as usize + 1,
        mode: Mode::Trace,
        judged: sp.judged,
        shard: 64,
        expect_pass: false,
        must_pass: vec![],
        distinct: false,
        make: Box::new(move |idx| shape_input(name, 1usize << idx)),
    }
}

/// fine-grained depths below serde_json's own limit: every depth 1..=130 for the typed JSON placements
fn fam_json_depths() -> Fam {
    const SH: [&str; 6] = ["json-var-list", "json-var-object", "json-var-inp", "json-var-list-typed", "json-ext-object", "ws-subscribe-var-list"];
    Fam {
        name: "json-depths".into(),
        group: "b",
        len: SH.len() * 130,
        mode: Mode::Trace,
        judged: true,
        shard: 130,
        expect_pass: true,
        must_pass: vec![],
        distinct: false,
        make: Box::new(|idx| shape_input(SH[idx / 130], idx % 130 + 1)),
    }
}

// ---------------------------------------------------------------------------------------------
// (c) forged variable values for every input type

pub const ATOMS: [&str; 15] = [
    "null",
    "0",
    "-1",
    "18446744073709551616",
    "1e400",
    "\"\"",
    "\"x\"",
    "\"#__graphql_file__:0\"",
    "\"#__graphql_file__:x\"",
    "\"#__graphql_file__:99999999999999999999\"",
    "[]",
    "{}",
    "\"#__graphql_file__:\"",
    "\"#__graphql_file__:-1\"",
    "true",
];

/// unary wrappers: `@` is replaced by the wrapped value
const WRAPS: [&str; 13] = [
    "[@]",
    "[0,@]",
    "{\"i\":@}",
    "{\"i\":0,\"n\":@}",
    "{\"i\":0,\"u\":@}",
    "{\"i\":0,\"l\":@}",
    "{\"i\":0,\"m\":@}",
    "{\"i\":0,\"j\":@}",
    "{\"a\":@}",
    "{\"b\":@}",
    "{\"c\":@}",
    "{\"u\":@}",
    "{\"k\":@}",
];

pub const TYPES: [(&str, &str); 17] = [
    ("Int", "int"),
    ("Int!", "nn"),
    ("Float", "float"),
    ("String", "string"),
    ("Boolean", "boolean"),
    ("ID", "id"),
    ("Color", "en"),
    ("Inp", "inp"),
    ("One", "one"),
    ("[Int!]", "list"),
    ("[[Int]]", "list2"),
    ("[Int!]!", "nnlist"),
    ("Int", "mu"),
    ("JSON", "json"),
    ("Any", "any"),
    ("Upload", "up"),
    ("[Upload!]", "ups"),
];

fn forged_values(thorough: bool) -> Vec<String> {
    let v0: Vec<String> = ATOMS.iter().map(|s| s.to_string()).collect();
    let mut level1: Vec<String> = Vec::new();
    for w in WRAPS {
        for x in &v0 {
            level1.push(w.replace('@', x));
        }
    }
    if thorough {
        for x in &v0 {
            for y in &v0 {
                level1.push(format!("[{x},{y}]"));
                level1.push(format!("{{\"i\":{x},\"u\":{y}}}"));
            }
        }
    }
    let mut level2: Vec<String> = Vec::new();
    for w in WRAPS {
        for x in &level1 {
            level2.push(w.replace('@', x));
        }
    }
    let mut all = v0;
    all.extend(level1);
    all.extend(level2);
    all
}

/// JSON text -> GraphQL literal text (object keys unquoted); None when a key is not a name
fn json_to_literal(j: &str) -> String {
    // the generated JSON only has keys that are names and no escapes: strip the quotes of `"key":`
    let b = j.as_bytes();
    let mut out = String::with_capacity(j.len());
    let mut i = 0;
    while i < b.len() {
        if b[i] == b'"' {
            let mut e = i + 1;
            while b[e] != b'"' {
                e += 1;
            }
            if e + 1 < b.len() && b[e + 1] == b':' && !j[i + 1..e].starts_with('#') {
                out.push_str(&j[i + 1..e]);
                out.push(':');
                i = e + 2;
            } else {
                out.push_str(&j[i..=e]);
                i = e + 1;
            }
        } else {
            out.push(b[i] as char);
            i += 1;
        }
    }
    out
}

fn fam_forged(thorough: bool) -> Fam {
    let vals = forged_values(thorough);
    let nv = vals.len();
    // idx = (((value * TYPES + type) * 2 + form) * 2 + op) * 2 + kind
    let len = nv * TYPES.len() * 8;
    Fam {
        name: "forged-values".into(),
        group: "c",
        len,
        mode: Mode::Chunk,
        judged: true,
        shard: 12_000,
        expect_pass: true,
        must_pass: vec![],
        distinct: true,
        make: Box::new(move |idx| {
            let kind = if idx % 2 == 0 { Kind::Strict } else { Kind::Fast };
            let op = if (idx / 2) % 2 == 0 { "query" } else { "mutation" };
            let literal = (idx / 4) % 2 == 1;
            let (ty, field) = TYPES[(idx / 8) % TYPES.len()];
            let val = &vals[idx / 8 / TYPES.len()];
            let body = if literal {
                req_body(&format!("{op}{{{field}(v:{})}}", json_to_literal(val)), None, None, None)
            } else {
                req_body(&format!("{op}($v:{ty}){{{field}(v:$v)}}"), None, Some(&format!("{{\"v\":{val}}}")), None)
            };
            Input { desc: format!("{} {val} for `{field}(v: {ty})` in a {op} on the {} schema", if literal { "literal" } else { "variable" }, kind.name()), seam: Seam::Req { kind, body } }
        }),
    }
}

// ---------------------------------------------------------------------------------------------
// (d) operation names and request extensions

fn fam_opname_ext() -> Fam {
    let docs: Vec<&'static str> = vec!["{a}", "query q{a}", "query q{a} query r{a}", "", "fragment f on Query{a}", "mutation q{a}", "subscription q{ticks}", "query q{a} mutation r{a}"];
    let huge = format!("\"{}\"", "q".repeat(65536));
    let opnames: Vec<String> = vec![
        "".to_string(), // absent (handled below)
        "null".into(),
        "\"\"".into(),
        "\"q\"".into(),
        "\"r\"".into(),
        "\"zz\"".into(),
        huge.clone(),
        "\"q\\u0000\"".into(),
        "\"\\u0000\"".into(),
        "\"\\ud800\"".into(),
        "0".into(),
        "[]".into(),
        "{}".into(),
        "true".into(),
        "\" q\"".into(),
    ];
    let sha_a = "ff2e0a1c0c2ee3f3c5d3a52fd0e8b1e4d5f6a7b8c9d0e1f2a3b4c5d6e7f8a9b0"; // deliberately NOT the hash of {a}
    let versions = ["1", "0", "-1", "2", "\"1\"", "null", "1e400", "18446744073709551616", "1.0", "[]", "{}", "true"];
    let hashes: Vec<String> = vec!["\"\"".into(), "\"x\"".into(), format!("\"{sha_a}\""), "\"@SHA@\"".into(), "0".into(), "null".into(), huge, "[]".into(), "{}".into()];
    let mut exts: Vec<String> = Vec::new();
    for a in ATOMS {
        exts.push(a.to_string());
        exts.push(format!("{{\"persistedQuery\":{a}}}"));
        exts.push(format!("{{\"x\":{a}}}"));
        exts.push(format!("{{\"persistedQuery\":{{\"version\":1,\"sha256Hash\":{a}}}}}"));
        exts.push(format!("{{\"persistedQuery\":{{\"version\":{a},\"sha256Hash\":\"x\"}}}}"));
    }
    for v in versions {
        for h in &hashes {
            exts.push(format!("{{\"persistedQuery\":{{\"version\":{v},\"sha256Hash\":{h}}}}}"));
        }
    }
    exts.push("{\"persistedQuery\":{\"version\":1}}".into());
    exts.push("{\"persistedQuery\":{\"sha256Hash\":\"x\"}}".into());
    exts.push("{\"persistedQuery\":{\"version\":1,\"sha256Hash\":\"x\",\"extra\":[1]}}".into());
    exts.push("{\"persistedQuery\":{\"version\":1,\"version\":1,\"sha256Hash\":\"x\"}}".into());
    exts.push("{\"\":1,\"\\u0000\":2,\"a b\":3}".into());
    let kinds = [Kind::Strict, Kind::Apq, Kind::Fast];
    let n_op = docs.len() * opnames.len() * kinds.len();
    let ext_docs: Vec<&'static str> = vec!["{a}", "", "{"];
    let n_ext = ext_docs.len() * exts.len() * kinds.len();
    Fam {
        name: "opname-extensions".into(),
        group: "d",
        len: n_op + n_ext,
        mode: Mode::Chunk,
        judged: true,
        shard: 2_000,
        expect_pass: true,
        must_pass: vec![],
        distinct: false,
        make: Box::new(move |idx| {
            if idx < n_op {
                let kind = kinds[idx % kinds.len()];
                let on = &opnames[(idx / kinds.len()) % opnames.len()];
                let d = docs[idx / kinds.len() / opnames.len()];
                let body = req_body(d, if on.is_empty() { None } else { Some(on.as_str()) }, None, None);
                let shown: String = on.chars().take(24).collect();
                Input { desc: format!("operationName {} with document `{d}` on the {} schema", if on.is_empty() { "absent".to_string() } else { shown }, kind.name()), seam: Seam::Req { kind, body } }
            } else {
                let j = idx - n_op;
                let kind = kinds[j % kinds.len()];
                let e = &exts[(j / kinds.len()) % exts.len()];
                let d = ext_docs[j / kinds.len() / exts.len()];
                let e = e.replace("@SHA@", &crate::sha256_hex(d));
                let body = req_body(d, None, None, Some(&e));
                let shown: String = e.chars().take(80).collect();
                Input { desc: format!("extensions {shown} with document `{d}` on the {} schema", kind.name()), seam: Seam::Req { kind, body } }
            }
        }),
    }
}

// ---------------------------------------------------------------------------------------------
// (e) query strings

pub const QS: [&str; 12] = ["query=", "variables=", "extensions=", "operationName=", "%", "%7B", "%ZZ", "&", "=", "{", "a", "+"];

fn fam_query_string(thorough: bool) -> Fam {
    let maxlen = if thorough { 7 } else { 6 };
    Fam {
        name: "query-strings".into(),
        group: "e",
        len: count_seqs(QS.len(), maxlen),
        mode: Mode::Chunk,
        judged: true,
        shard: 400_000,
        expect_pass: true,
        must_pass: vec![],
        distinct: true,
        make: Box::new(|idx| {
            let seq = decode_seq(idx, QS.len());
            let q: String = seq.iter().map(|i| QS[*i]).collect();
            Input { desc: format!("query string of {} pieces", seq.len()), seam: Seam::Qs(q) }
        }),
    }
}

// ---------------------------------------------------------------------------------------------
// (f) JSON and multipart bodies: prefixes, one-byte deletions, chunkings, map shapes

fn json_exemplars() -> Vec<Vec<u8>> {
    vec![
        br#"{"query":"{a}"}"#.to_vec(),
        br#"{"query":"query q($v:Int){int(v:$v)}","operationName":"q","variables":{"v":1},"extensions":{"x":[1,{"y":null}]}}"#.to_vec(),
        br#"[{"query":"{a}"},{"query":"mutation{up(v:null)}","variables":{}}]"#.to_vec(),
        "{\"query\":\"{string(v:\\\"\\ud83d\\ude00é😀\\\")}\",\"variables\":{\"é\":\"\\u00e9\"}}".as_bytes().to_vec(),
    ]
}

const MP_OPS_SINGLE: &str = r#"{"query":"mutation($f:Upload,$l:[Upload!],$o:Inp,$s:String){up(v:$f) ups(v:$l) inp(v:$o) string(v:$s)}","variables":{"f":null,"l":[null,null],"o":{"i":1,"u":null},"s":"str"}}"#;

fn mp_exemplars() -> Vec<Vec<u8>> {
    vec![
        mp_body(r#"{"query":"mutation($f:Upload){up(v:$f)}","variables":{"f":null}}"#, r#"{"0":["variables.f"]}"#, &[("0", "a.txt", b"hello")]),
        mp_body(
            r#"[{"query":"mutation($f:Upload,$g:Upload){up(v:$f) g:up(v:$g)}","variables":{"f":null,"g":null}},{"query":"mutation($l:[Upload!]){ups(v:$l)}","variables":{"l":[null,null]}}]"#,
            r#"{"0":["0.variables.f","1.variables.l.0"],"1":["1.variables.l.1"]}"#,
            &[("0", "a.txt", b"hello"), ("1", "b.bin", b"\r\n--XBOUND")],
        ),
        // a forged marker next to a real upload: $g names upload 1, the request carries only upload 0
        mp_body(r##"{"query":"mutation($f:Upload,$g:Upload){up(v:$f) g:up(v:$g)}","variables":{"f":null,"g":"#__graphql_file__:1"}}"##, r#"{"0":["variables.f"]}"#, &[("0", "a.txt", b"hello")]),
    ]
}

/// mutants of one exemplar: (bytes, cuts)
struct Mutants {
    ex: Vec<u8>,
    thorough: bool,
}
impl Mutants {
    // layout: [intact × cut plans] [prefixes × plans2] [deletions × plans2]
    fn intact_plans(&self) -> usize {
        let l = self.ex.len();
        if self.thorough {
            1 + (l - 1) + (l - 1) * (l - 2) / 2
        } else {
            1 + (l - 1)
        }
    }
    fn plans2(&self, l: usize) -> usize {
        if self.thorough {
            l.max(1)
        } else {
            2
        }
    }
    fn len(&self) -> usize {
        let l = self.ex.len();
        let mut n = self.intact_plans();
        for p in 0..l {
            n += self.plans2(p);
        }
        n += l * self.plans2(l - 1);
        n
    }
    fn plan2(&self, l: usize, k: usize) -> Vec<usize> {
        if k == 0 || l < 2 {
            vec![]
        } else if self.thorough {
            vec![k]
        } else {
            vec![l / 2]
        }
    }
    fn get(&self, mut i: usize) -> (Vec<u8>, Vec<usize>, String) {
        let l = self.ex.len();
        let ip = self.intact_plans();
        if i < ip {
            let cuts = if i == 0 {
                vec![]
            } else if i < l {
                vec![i]
            } else {
                // pair index -> (c1 < c2) over 1..l
                let mut left = i - l;
                let mut c1 = 1;
                while left >= l - 1 - c1 {
                    left -= l - 1 - c1;
                    c1 += 1;
                }
                vec![c1, c1 + 1 + left]
            };
            return (self.ex.clone(), cuts.clone(), format!("intact, reads cut at {cuts:?}"));
        }
        i -= ip;
        for p in 0..l {
            let k = self.plans2(p);
            if i < k {
                return (self.ex[..p].to_vec(), self.plan2(p, i), format!("prefix of {p} bytes"));
            }
            i -= k;
        }
        let k = self.plans2(l - 1);
        let d = i / k;
        let mut b = self.ex.clone();
        b.remove(d);
        (b, self.plan2(l - 1, i % k), format!("byte {d} deleted"))
    }
}

fn fam_json_bodies(thorough: bool) -> Fam {
    let ms: Vec<Mutants> = json_exemplars().into_iter().map(|ex| Mutants { ex, thorough }).collect();
    let lens: Vec<usize> = ms.iter().map(|m| m.len()).collect();
    let total: usize = lens.iter().sum::<usize>() * 4;
    // the intact exemplars read whole must decode (exemplar 2 is a batch: not through receive_json)
    let mut must = Vec::new();
    let mut off = 0;
    for (x, l) in lens.iter().enumerate() {
        for which in 0..4 {
            if !(x == 2 && which == 0) {
                must.push(off * 4 + which);
            }
        }
        off += l;
    }
    Fam {
        name: "json-bodies".into(),
        group: "f",
        len: total,
        mode: Mode::Chunk,
        judged: true,
        shard: 20_000,
        expect_pass: true,
        must_pass: must,
        distinct: false,
        make: Box::new(move |idx| {
            let which = (idx % 4) as u8;
            let mut i = idx / 4;
            for (x, m) in ms.iter().enumerate() {
                if i < lens[x] {
                    let (body, cuts, what) = m.get(i);
                    return Input { desc: format!("JSON exemplar {x}: {what}, seam {which}"), seam: Seam::Json { which, body, cuts } };
                }
                i -= lens[x];
            }
            unreachable!()
        }),
    }
}

fn fam_mp_bodies(thorough: bool) -> Fam {
    let ms: Vec<Mutants> = mp_exemplars().into_iter().map(|ex| Mutants { ex, thorough }).collect();
    let lens: Vec<usize> = ms.iter().map(|m| m.len()).collect();
    const OPTS: [(Option<usize>, Option<usize>); 4] = [(None, None), (Some(1), None), (None, Some(0)), (Some(4), Some(1))];
    let total: usize = lens.iter().sum::<usize>() * OPTS.len();
    // intact exemplars 0 and 1, read whole, no limits
    let must = vec![0, lens[0] * OPTS.len()];
    Fam {
        name: "multipart-bodies".into(),
        group: "f",
        len: total,
        mode: Mode::Chunk,
        judged: true,
        shard: if thorough { 40_000 } else { 3_000 },
        expect_pass: true,
        must_pass: must,
        distinct: false,
        make: Box::new(move |idx| {
            let (mfs, mnf) = OPTS[idx % OPTS.len()];
            let mut i = idx / OPTS.len();
            for (x, m) in ms.iter().enumerate() {
                if i < lens[x] {
                    let (body, cuts, what) = m.get(i);
                    return Input { desc: format!("multipart exemplar {x}: {what}, max_file_size {mfs:?}, max_num_files {mnf:?}"), seam: Seam::Mp { body, max_file_size: mfs, max_num_files: mnf, cuts } };
                }
                i -= lens[x];
            }
            unreachable!()
        }),
    }
}

const MAP_PATHS: [&str; 38] = [
    "variables.f",
    "variables.l.0",
    "variables.l.1",
    "variables.l.2",
    "variables.l.999999999999999999999",
    "variables.l.4294967296",
    "variables.l.4294967295",
    "variables.l.-1",
    "variables.l.+1",
    "variables.l.x",
    "variables.l",
    "variables.o",
    "variables.o.u",
    "variables.o.i",
    "variables.o.i.x",
    "variables.s",
    "variables.s.0",
    "variables.f.0",
    "variables.zz",
    "variables",
    "variables.",
    "variables..f",
    "variables.f.",
    ".variables.f",
    "",
    "f",
    "query",
    "0.variables.f",
    "1.variables.f",
    "1.variables.l.1",
    "5.variables.f",
    "999999999999999999999.variables.f",
    "-1.variables.f",
    "0",
    "0.",
    "0..variables.f",
    "variables.l.0.0",
    "0.variables.o.u",
];

const MAP_RAW: [&str; 22] = [
    "[]",
    "\"x\"",
    "0",
    "null",
    "{}",
    "",
    "{",
    "{\"0\":\"variables.f\"}",
    "{\"0\":[]}",
    "{\"0\":[0]}",
    "{\"0\":[null]}",
    "{\"0\":[[\"variables.f\"]]}",
    "{\"0\":{\"0\":\"variables.f\"}}",
    "{\"0\":[\"variables.f\"],\"0\":[\"variables.l.0\"]}",
    "{\"1\":[\"variables.f\"]}",
    "{\"2\":[\"variables.f\"]}",
    "{\"\":[\"variables.f\"]}",
    "{\"operations\":[\"variables.f\"]}",
    "{\"map\":[\"variables.f\"]}",
    "{\"0\":[\"variables.f\"],\"1\":[\"variables.l.0\"],\"2\":[\"variables.l.1\"]}",
    "{\"0\":[\"variables.f\",\"variables.l.0\",\"variables.l.1\",\"variables.o.u\"]}",
    "{\"0\":[\"variables.\\u0000\"]}",
];

fn fam_mp_map() -> Fam {
    let np = MAP_PATHS.len();
    let mut maps: Vec<String> = MAP_RAW.iter().map(|s| s.to_string()).collect();
    for p in MAP_PATHS {
        maps.push(format!("{{\"0\":[{}]}}", jstr(p)));
    }
    for p in MAP_PATHS {
        for q in MAP_PATHS {
            maps.push(format!("{{\"0\":[{},{}]}}", jstr(p), jstr(q)));
            maps.push(format!("{{\"0\":[{}],\"1\":[{}]}}", jstr(p), jstr(q)));
        }
    }
    let _ = np;
    let ops: Vec<String> = vec![
        MP_OPS_SINGLE.to_string(),
        format!("[{MP_OPS_SINGLE},{MP_OPS_SINGLE}]"),
        r#"{"query":"mutation($f:Upload){up(v:$f)}"}"#.to_string(),
        r#"{"query":"mutation($f:Upload){up(v:$f)}","variables":null}"#.to_string(),
        "[]".to_string(),
    ];
    let len = ops.len() * maps.len();
    Fam {
        name: "multipart-map".into(),
        group: "f",
        len,
        mode: Mode::Chunk,
        judged: true,
        shard: 2_000,
        expect_pass: true,
        must_pass: vec![],
        distinct: false,
        make: Box::new(move |idx| {
            let o = &ops[idx % ops.len()];
            let m = &maps[idx / ops.len()];
            let body = mp_body(o, m, &[("0", "a.txt", b"hello"), ("1", "b.txt", b"world")]);
            Input { desc: format!("multipart map {m} with operations #{}", idx % ops.len()), seam: Seam::Mp { body, max_file_size: None, max_num_files: None, cuts: vec![] } }
        }),
    }
}

// ---------------------------------------------------------------------------------------------
// (g) WebSocket sessions

fn ws_alphabet() -> Vec<Vec<u8>> {
    let huge_id = format!("{{\"type\":\"subscribe\",\"id\":\"{}\",\"payload\":{{\"query\":\"subscription{{ticks}}\"}}}}", "9".repeat(65536));
    let mut v: Vec<Vec<u8>> = [
        // the first WS_VALID messages are well-formed; their truncations are enumerated too
        r#"{"type":"connection_init"}"#,
        r#"{"type":"connection_init","payload":{"k":[1,null]}}"#,
        r#"{"type":"subscribe","id":"1","payload":{"query":"subscription{ticks}"}}"#,
        r#"{"type":"start","id":"1","payload":{"query":"subscription($v:Int){ticks(v:$v)}","variables":{"v":5},"operationName":null}}"#,
        r#"{"type":"subscribe","id":"2","payload":{"query":"{a}"}}"#,
        r#"{"type":"complete","id":"1"}"#,
        r#"{"type":"stop","id":"1"}"#,
        r#"{"type":"ping","payload":{"a":1}}"#,
        r#"{"type":"pong"}"#,
        r#"{"type":"connection_terminate"}"#,
        r##"{"type":"subscribe","id":"3","payload":{"query":"mutation($v:Upload){up(v:$v)}","variables":{"v":"#__graphql_file__:0"}}}"##,
        r##"{"type":"subscribe","id":"4","payload":{"query":"subscription{up(v:\"#__graphql_file__:x\")}"}}"##,
        r##"{"type":"subscribe","id":"5","payload":{"query":"subscription($v:Inp){inp(v:$v)}","variables":{"v":{"i":1,"u":"#__graphql_file__:7"}}}}"##,
        // malformed
        r#"{"type":"connection_init","payload":0}"#,
        r#"{"type":"subscribe","id":"6","payload":{"query":"{"}}"#,
        r#"{"type":"subscribe","id":"7","payload":0}"#,
        r#"{"type":"subscribe","id":"7","payload":[]}"#,
        r#"{"type":"subscribe","id":"7","payload":"x"}"#,
        r#"{"type":"subscribe","id":"7","payload":null}"#,
        r#"{"type":"subscribe","id":"7"}"#,
        r#"{"type":"subscribe","id":7,"payload":{"query":"{a}"}}"#,
        r#"{"type":"subscribe","payload":{"query":"{a}"}}"#,
        r#"{"type":"subscribe","id":"","payload":{"query":"subscription{ticks}","variables":[],"extensions":0}}"#,
        r#"{"type":"complete","id":"zz"}"#,
        r#"{"type":"complete"}"#,
        r#"{"type":"ping"}"#,
        r#"{"type":"ping","payload":0}"#,
        r#"{"type":"zz"}"#,
        r#"{"type":0}"#,
        r#"{"type":"ping","type":"pong"}"#,
        r#"{}"#,
        r#"null"#,
        r#"[]"#,
        r#"0"#,
        r#""#,
    ]
    .iter()
    .map(|s| s.as_bytes().to_vec())
    .collect();
    v.push(vec![0xff, 0xfe]);
    v.push(b"{\"type\":\"ping\",\"payload\":\"\xff\"}".to_vec());
    v.push(b"\xef\xbb\xbf{\"type\":\"ping\"}".to_vec());
    v.push(huge_id.into_bytes());
    v
}
const WS_VALID: usize = 13;

fn fam_ws(thorough: bool) -> Fam {
    let al = ws_alphabet();
    let maxlen = if thorough { 3 } else { 2 };
    let nseq = count_seqs(al.len(), maxlen);
    // truncations: every proper non-empty prefix of each valid message, in three contexts
    let mut truncs: Vec<(usize, usize)> = Vec::new();
    for (m, msg) in al.iter().enumerate().take(WS_VALID) {
        for p in 1..msg.len() {
            truncs.push((m, p));
        }
    }
    let ntr = truncs.len() * 3;
    // idx = (case * 2 + proto) * 2 + eof
    let len = (nseq + ntr) * 4;
    // session [connection_init, subscribe ticks] must deliver data on both protocols, closing or not
    let c = 1 + al.len() + 2;
    let must: Vec<usize> = (0..4).map(|k| c * 4 + k).collect();
    Fam {
        name: "websocket".into(),
        group: "g",
        len,
        mode: Mode::Chunk,
        judged: true,
        shard: if thorough { 20_000 } else { 3_000 },
        expect_pass: true,
        must_pass: must,
        distinct: false,
        make: Box::new(move |idx| {
            let eof = idx % 2 == 0;
            let proto = ((idx / 2) % 2) as u8;
            let c = idx / 4;
            let (msgs, what): (Vec<Vec<u8>>, String) = if c < nseq {
                let seq = decode_seq(c, al.len());
                (seq.iter().map(|i| al[*i].clone()).collect(), format!("messages {seq:?} of the alphabet"))
            } else {
                let t = c - nseq;
                let (m, p) = truncs[t / 3];
                let cut = al[m][..p].to_vec();
                match t % 3 {
                    0 => (vec![cut], format!("message {m} truncated to {p} bytes")),
                    1 => (vec![al[0].clone(), cut], format!("init, then message {m} truncated to {p} bytes")),
                    _ => (vec![al[0].clone(), al[2].clone(), cut], format!("init, subscribe, then message {m} truncated to {p} bytes")),
                }
            };
            Input { desc: format!("{} session: {what}; then the client {}", if proto == 0 { "graphql-ws" } else { "graphql-transport-ws" }, if eof { "closes" } else { "stays silent" }), seam: Seam::Ws { proto, msgs, eof } }
        }),
    }
}

// ---------------------------------------------------------------------------------------------

pub fn families(thorough: bool) -> Vec<Fam> {
    let mut v = vec![fam_tokens(thorough), fam_token_edits(thorough)];
    for sp in SHAPES {
        v.push(fam_shape(sp, thorough));
    }
    v.push(fam_json_depths());
    v.push(fam_forged(thorough));
    v.push(fam_opname_ext());
    v.push(fam_query_string(thorough));
    v.push(fam_json_bodies(thorough));
    v.push(fam_mp_bodies(thorough));
    v.push(fam_mp_map());
    v.push(fam_ws(thorough));
    v
}

/// one family by name, without building the others (every child process calls this)
pub fn family(name: &str, thorough: bool) -> Option<Fam> {
    if let Some(shape) = name.strip_prefix("nest/") {
        return SHAPES.iter().find(|s| s.name == shape).map(|sp| fam_shape(sp, thorough));
    }
    Some(match name {
        "tokens" => fam_tokens(thorough),
        "token-edits" => fam_token_edits(thorough),
        "json-depths" => fam_json_depths(),
        "forged-values" => fam_forged(thorough),
        "opname-extensions" => fam_opname_ext(),
        "query-strings" => fam_query_string(thorough),
        "json-bodies" => fam_json_bodies(thorough),
        "multipart-bodies" => fam_mp_bodies(thorough),
        "multipart-map" => fam_mp_map(),
        "websocket" => fam_ws(thorough),
        _ => return None,
    })
}
