fn main() {}
