//! C16 — serde values convert to GraphQL values and back without loss.
//!
//! Seam: `async_graphql_value::to_value` / `from_value`.
//!
//! Space: a macro-generated family of concrete serde types — 19 leaf types under every
//! composition of 8 type constructors (Option, Vec, 2-tuple, BTreeMap<String,_>, newtype struct,
//! tuple struct, named struct, externally tagged enum with newtype / unit / tuple / struct
//! variants) to a fixed depth — plus hand-written extras (internally / adjacently tagged and
//! untagged enums, flatten, skipped fields, renames, zero-field variants, enum map keys, arrays,
//! `Result`). For every type the values are enumerated with `agv_engine::explore`: the exemplar
//! (every container populated, every leaf at the first entry of its boundary menu) and every way
//! of changing at most k positions of it (k = 3 quick, 5 thorough; class Dev(0)).
//!
//! Oracle: `from_value::<T>(to_value(&x)?)? == x`, equality taken on the `Debug` rendering so that
//! floats are compared exactly (−0.0 ≠ 0.0, NaN = NaN).

use agv_engine::explore::{explore, Chooser, ExploreCfg};
use agv_engine::record::{Cx, Violation};
use async_graphql_value::{from_value, to_value};
use rayon::prelude::*;
use serde::{de::DeserializeOwned, Deserialize, Serialize};
use serde_json::json;
use std::collections::BTreeMap;
use std::fmt::Debug;
use std::sync::atomic::{AtomicU64, Ordering};

// ------------------------------------------------------------------------------------------
// features of a generated value that pin where a known limitation applies

#[derive(Default, Clone, Copy)]
struct Feats(u8);
const NONFINITE: u8 = 1;
const SOME_OF_NULL: u8 = 2;
const BEYOND64: u8 = 4;

impl Feats {
    fn set(&mut self, f: u8) {
        self.0 |= f;
    }
    fn text(self) -> String {
        let mut v = Vec::new();
        if self.0 & BEYOND64 != 0 {
            v.push("beyond-64-bit");
        }
        if self.0 & NONFINITE != 0 {
            v.push("nonfinite-float");
        }
        if self.0 & SOME_OF_NULL != 0 {
            v.push("some-of-null");
        }
        if v.is_empty() {
            "-".to_string()
        } else {
            v.join("+")
        }
    }
}

trait Gen: Serialize + DeserializeOwned + Debug + 'static {
    fn name() -> String;
    /// The leaf type at the bottom of the composition (or the extra's own name).
    fn leaf() -> &'static str;
    fn gen(ch: &mut Chooser, path: &str, f: &mut Feats) -> Self;
    /// Does the value serialize to GraphQL `null` (None, (), unit struct, non-finite float, wrappers of those)?
    fn nullish(&self) -> bool {
        false
    }
}

// ------------------------------------------------------------------------------------------
// leaves

macro_rules! leaf {
    ($t:ty, $name:expr, [$($v:expr),* $(,)?]) => {
        impl Gen for $t {
            fn name() -> String { $name.to_string() }
            fn leaf() -> &'static str { $name }
            fn gen(ch: &mut Chooser, path: &str, _f: &mut Feats) -> Self {
                let menu: Vec<$t> = vec![$($v),*];
                let i = ch.dev(0, &format!("{path}:{}", $name), menu.len());
                menu.into_iter().nth(i).unwrap()
            }
        }
    };
}

leaf!(bool, "bool", [false, true]);
leaf!(i8, "i8", [0, -1, 1, i8::MIN, i8::MAX]);
leaf!(i16, "i16", [0, -1, 1, i16::MIN, i16::MAX]);
leaf!(i32, "i32", [0, -1, 1, i32::MIN, i32::MAX]);
leaf!(i64, "i64", [0, -1, 1, i64::MIN, i64::MAX, i32::MIN as i64 - 1, (1 << 53) + 1]);
leaf!(u8, "u8", [0, 1, u8::MAX]);
leaf!(u16, "u16", [0, 1, u16::MAX]);
leaf!(u32, "u32", [0, 1, u32::MAX]);
leaf!(u64, "u64", [0, 1, u64::MAX, i64::MAX as u64 + 1, (1 << 53) + 1]);
leaf!(char, "char", ['a', '\0', '"', '\\', '\n', 'é', '\u{ffff}', '😀']);
leaf!(String, "String", [String::new(), "a".into(), "\"\\\n\u{0}".into(), "é😀".into(), "$var".into(), "null".into(), "1".into()]);
leaf!(Ue, "unit_enum", [Ue::A, Ue::B]);

impl Gen for i128 {
    fn name() -> String {
        "i128".into()
    }
    fn leaf() -> &'static str {
        "i128"
    }
    fn gen(ch: &mut Chooser, path: &str, f: &mut Feats) -> Self {
        let menu = [0, -1, 1, i64::MIN as i128, u64::MAX as i128, u64::MAX as i128 + 1, i64::MIN as i128 - 1, i128::MIN, i128::MAX];
        let x = menu[ch.dev(0, &format!("{path}:i128"), menu.len())];
        if x > u64::MAX as i128 || x < i64::MIN as i128 {
            f.set(BEYOND64);
        }
        x
    }
}
impl Gen for u128 {
    fn name() -> String {
        "u128".into()
    }
    fn leaf() -> &'static str {
        "u128"
    }
    fn gen(ch: &mut Chooser, path: &str, f: &mut Feats) -> Self {
        let menu = [0, 1, u64::MAX as u128, u64::MAX as u128 + 1, u128::MAX];
        let x = menu[ch.dev(0, &format!("{path}:u128"), menu.len())];
        if x > u64::MAX as u128 {
            f.set(BEYOND64);
        }
        x
    }
}
impl Gen for f32 {
    fn name() -> String {
        "f32".into()
    }
    fn leaf() -> &'static str {
        "f32"
    }
    fn gen(ch: &mut Chooser, path: &str, f: &mut Feats) -> Self {
        let menu = [0.0, -0.0, 1.0, -1.5, 0.1, f32::MIN_POSITIVE, f32::from_bits(1), f32::MAX, f32::MIN, f32::EPSILON, 16777216.0, f32::INFINITY, f32::NEG_INFINITY, f32::NAN];
        let x = menu[ch.dev(0, &format!("{path}:f32"), menu.len())];
        if !x.is_finite() {
            f.set(NONFINITE);
        }
        x
    }
    fn nullish(&self) -> bool {
        !self.is_finite()
    }
}
impl Gen for f64 {
    fn name() -> String {
        "f64".into()
    }
    fn leaf() -> &'static str {
        "f64"
    }
    fn gen(ch: &mut Chooser, path: &str, f: &mut Feats) -> Self {
        let menu = [0.0, -0.0, 1.0, -1.5, 0.1, 1e-7, 1e21, 5e-324, f64::MIN_POSITIVE, f64::MAX, f64::MIN, 9007199254740993.0, 91625968981.33333, f64::INFINITY, f64::NEG_INFINITY, f64::NAN];
        let x = menu[ch.dev(0, &format!("{path}:f64"), menu.len())];
        if !x.is_finite() {
            f.set(NONFINITE);
        }
        x
    }
    fn nullish(&self) -> bool {
        !self.is_finite()
    }
}
impl Gen for () {
    fn name() -> String {
        "()".into()
    }
    fn leaf() -> &'static str {
        "unit"
    }
    fn gen(_: &mut Chooser, _: &str, _: &mut Feats) -> Self {}
    fn nullish(&self) -> bool {
        true
    }
}

#[derive(Serialize, Deserialize, Debug, PartialEq)]
struct Unit;
impl Gen for Unit {
    fn name() -> String {
        "Unit".into()
    }
    fn leaf() -> &'static str {
        "unit_struct"
    }
    fn gen(_: &mut Chooser, _: &str, _: &mut Feats) -> Self {
        Unit
    }
    fn nullish(&self) -> bool {
        true
    }
}

#[derive(Serialize, Deserialize, Debug, PartialEq, Eq, PartialOrd, Ord, Clone, Copy)]
enum Ue {
    A,
    B,
}

/// serde *bytes* (serialize_bytes / deserialize_byte_buf), like serde_bytes::ByteBuf.
#[derive(Debug, PartialEq)]
struct Bytes(Vec<u8>);
impl Serialize for Bytes {
    fn serialize<S: serde::Serializer>(&self, s: S) -> Result<S::Ok, S::Error> {
        s.serialize_bytes(&self.0)
    }
}
impl<'de> Deserialize<'de> for Bytes {
    fn deserialize<D: serde::Deserializer<'de>>(d: D) -> Result<Self, D::Error> {
        struct V;
        impl<'de> serde::de::Visitor<'de> for V {
            type Value = Bytes;
            fn expecting(&self, f: &mut std::fmt::Formatter) -> std::fmt::Result {
                f.write_str("bytes")
            }
            fn visit_bytes<E: serde::de::Error>(self, v: &[u8]) -> Result<Bytes, E> {
                Ok(Bytes(v.to_vec()))
            }
            fn visit_byte_buf<E: serde::de::Error>(self, v: Vec<u8>) -> Result<Bytes, E> {
                Ok(Bytes(v))
            }
        }
        d.deserialize_byte_buf(V)
    }
}
leaf!(Bytes, "bytes", [Bytes(vec![]), Bytes(vec![0]), Bytes(vec![255, 0, 127])]);

// ------------------------------------------------------------------------------------------
// constructors

type Opt<T> = Option<T>;
type VecT<T> = Vec<T>;
type Pair<T> = (T, T);
type Map<T> = BTreeMap<String, T>;

#[derive(Serialize, Deserialize, Debug, PartialEq)]
struct NewT<T>(T);
#[derive(Serialize, Deserialize, Debug, PartialEq)]
struct TupS<T>(T, bool);
#[derive(Serialize, Deserialize, Debug, PartialEq)]
struct Named<T> {
    a: T,
    b: u8,
}
#[derive(Serialize, Deserialize, Debug, PartialEq)]
enum En<T> {
    N(T),
    U,
    T(T, u8),
    S { x: T, y: bool },
}

impl<T: Gen> Gen for Option<T> {
    fn name() -> String {
        format!("Option<{}>", T::name())
    }
    fn leaf() -> &'static str {
        T::leaf()
    }
    fn gen(ch: &mut Chooser, path: &str, f: &mut Feats) -> Self {
        if ch.dev(0, &format!("{path}/Option"), 2) == 1 {
            None
        } else {
            let x = T::gen(ch, &format!("{path}/Some"), f);
            if x.nullish() {
                f.set(SOME_OF_NULL);
            }
            Some(x)
        }
    }
    fn nullish(&self) -> bool {
        match self {
            None => true,
            Some(x) => x.nullish(),
        }
    }
}
impl<T: Gen> Gen for Vec<T> {
    fn name() -> String {
        format!("Vec<{}>", T::name())
    }
    fn leaf() -> &'static str {
        T::leaf()
    }
    fn gen(ch: &mut Chooser, path: &str, f: &mut Feats) -> Self {
        let len = [1, 0, 2][ch.dev(0, &format!("{path}/Vec.len"), 3)];
        (0..len).map(|i| T::gen(ch, &format!("{path}/[{i}]"), f)).collect()
    }
}
impl<T: Gen> Gen for (T, T) {
    fn name() -> String {
        format!("({0}, {0})", T::name())
    }
    fn leaf() -> &'static str {
        T::leaf()
    }
    fn gen(ch: &mut Chooser, path: &str, f: &mut Feats) -> Self {
        let a = T::gen(ch, &format!("{path}/.0"), f);
        let b = T::gen(ch, &format!("{path}/.1"), f);
        (a, b)
    }
}
impl<T: Gen> Gen for BTreeMap<String, T> {
    fn name() -> String {
        format!("BTreeMap<String, {}>", T::name())
    }
    fn leaf() -> &'static str {
        T::leaf()
    }
    fn gen(ch: &mut Chooser, path: &str, f: &mut Feats) -> Self {
        let keys: &[&str] = [&["a"][..], &[][..], &["a", "é\"\n"][..], &[""][..], &["$var", "0"][..]][ch.dev(0, &format!("{path}/Map.keys"), 5)];
        keys.iter().enumerate().map(|(i, k)| (k.to_string(), T::gen(ch, &format!("{path}/{{{i}}}"), f))).collect()
    }
}
impl<T: Gen> Gen for NewT<T> {
    fn name() -> String {
        format!("NewT<{}>", T::name())
    }
    fn leaf() -> &'static str {
        T::leaf()
    }
    fn gen(ch: &mut Chooser, path: &str, f: &mut Feats) -> Self {
        NewT(T::gen(ch, &format!("{path}/NewT"), f))
    }
    fn nullish(&self) -> bool {
        self.0.nullish()
    }
}
impl<T: Gen> Gen for TupS<T> {
    fn name() -> String {
        format!("TupS<{}>", T::name())
    }
    fn leaf() -> &'static str {
        T::leaf()
    }
    fn gen(ch: &mut Chooser, path: &str, f: &mut Feats) -> Self {
        let a = T::gen(ch, &format!("{path}/TupS.0"), f);
        let b = bool::gen(ch, &format!("{path}/TupS.1"), f);
        TupS(a, b)
    }
}
impl<T: Gen> Gen for Named<T> {
    fn name() -> String {
        format!("Named<{}>", T::name())
    }
    fn leaf() -> &'static str {
        T::leaf()
    }
    fn gen(ch: &mut Chooser, path: &str, f: &mut Feats) -> Self {
        let a = T::gen(ch, &format!("{path}/Named.a"), f);
        let b = u8::gen(ch, &format!("{path}/Named.b"), f);
        Named { a, b }
    }
}
impl<T: Gen> Gen for En<T> {
    fn name() -> String {
        format!("En<{}>", T::name())
    }
    fn leaf() -> &'static str {
        T::leaf()
    }
    fn gen(ch: &mut Chooser, path: &str, f: &mut Feats) -> Self {
        match ch.dev(0, &format!("{path}/En.variant"), 4) {
            0 => En::N(T::gen(ch, &format!("{path}/En::N"), f)),
            1 => En::U,
            2 => {
                let a = T::gen(ch, &format!("{path}/En::T.0"), f);
                let b = u8::gen(ch, &format!("{path}/En::T.1"), f);
                En::T(a, b)
            }
            _ => {
                let x = T::gen(ch, &format!("{path}/En::S.x"), f);
                let y = bool::gen(ch, &format!("{path}/En::S.y"), f);
                En::S { x, y }
            }
        }
    }
}

// ------------------------------------------------------------------------------------------
// extras: other corners of the serde data model

macro_rules! extra {
    ($t:ty, $name:expr, |$ch:ident, $p:ident, $f:ident| $body:expr) => {
        impl Gen for $t {
            fn name() -> String {
                $name.to_string()
            }
            fn leaf() -> &'static str {
                $name
            }
            fn gen($ch: &mut Chooser, $p: &str, $f: &mut Feats) -> Self {
                $body
            }
        }
    };
}

#[derive(Serialize, Deserialize, Debug, PartialEq)]
#[serde(tag = "t")]
enum ITag {
    A { x: u8 },
    B { s: String, o: Option<i64> },
    C,
    D(Named<u8>),
}
extra!(ITag, "internally_tagged_enum", |ch, p, f| match ch.dev(0, &format!("{p}/ITag"), 4) {
    0 => ITag::A { x: u8::gen(ch, &format!("{p}/A.x"), f) },
    1 => ITag::B { s: String::gen(ch, &format!("{p}/B.s"), f), o: Option::<i64>::gen(ch, &format!("{p}/B.o"), f) },
    2 => ITag::C,
    _ => ITag::D(Named::<u8>::gen(ch, &format!("{p}/D"), f)),
});

#[derive(Serialize, Deserialize, Debug, PartialEq)]
#[serde(tag = "t", content = "c")]
enum ATag {
    A(u64),
    B { s: String },
    C,
    D(i8, String),
    E(Option<bool>),
}
extra!(ATag, "adjacently_tagged_enum", |ch, p, f| match ch.dev(0, &format!("{p}/ATag"), 5) {
    0 => ATag::A(u64::gen(ch, &format!("{p}/A"), f)),
    1 => ATag::B { s: String::gen(ch, &format!("{p}/B.s"), f) },
    2 => ATag::C,
    3 => ATag::D(i8::gen(ch, &format!("{p}/D.0"), f), String::gen(ch, &format!("{p}/D.1"), f)),
    _ => ATag::E(Option::<bool>::gen(ch, &format!("{p}/E"), f)),
});

#[derive(Serialize, Deserialize, Debug, PartialEq)]
#[serde(untagged)]
enum UTag {
    N(i64),
    S(String),
    L(Vec<u8>),
    M { k: bool },
    P(u8, String),
}
extra!(UTag, "untagged_enum", |ch, p, f| match ch.dev(0, &format!("{p}/UTag"), 5) {
    0 => UTag::N(i64::gen(ch, &format!("{p}/N"), f)),
    1 => UTag::S(String::gen(ch, &format!("{p}/S"), f)),
    2 => UTag::L(Vec::<u8>::gen(ch, &format!("{p}/L"), f)),
    3 => UTag::M { k: bool::gen(ch, &format!("{p}/M.k"), f) },
    _ => UTag::P(u8::gen(ch, &format!("{p}/P.0"), f), String::gen(ch, &format!("{p}/P.1"), f)),
});

#[derive(Serialize, Deserialize, Debug, PartialEq)]
struct FlatInner {
    x: String,
    y: u8,
}
#[derive(Serialize, Deserialize, Debug, PartialEq)]
struct Flat {
    a: u8,
    #[serde(flatten)]
    inner: FlatInner,
    #[serde(flatten)]
    rest: BTreeMap<String, String>,
}
extra!(Flat, "struct_with_flatten", |ch, p, f| Flat {
    a: u8::gen(ch, &format!("{p}/a"), f),
    inner: FlatInner { x: String::gen(ch, &format!("{p}/inner.x"), f), y: 7 },
    rest: [&[][..], &["z"][..], &["p", "é q"][..]][ch.dev(0, &format!("{p}/rest"), 3)].iter().map(|k| (k.to_string(), String::gen(ch, &format!("{p}/rest.{k}"), f))).collect(),
});

#[derive(Serialize, Deserialize, Debug, PartialEq)]
#[serde(rename_all = "camelCase")]
struct Skip {
    #[serde(rename = "type")]
    ty: u8,
    #[serde(default, skip_serializing_if = "Option::is_none")]
    opt_field: Option<String>,
    #[serde(default)]
    list_field: Vec<i16>,
}
extra!(Skip, "struct_with_rename_skip_default", |ch, p, f| Skip {
    ty: u8::gen(ch, &format!("{p}/ty"), f),
    opt_field: Option::<String>::gen(ch, &format!("{p}/opt"), f),
    list_field: Vec::<i16>::gen(ch, &format!("{p}/list"), f),
});

#[derive(Serialize, Deserialize, Debug, PartialEq)]
enum ZeroV {
    S0 {},
    T0(),
    N(()),
    NU(Unit),
}
extra!(ZeroV, "enum_with_zero_field_variants", |ch, p, _f| match ch.dev(0, &format!("{p}/ZeroV"), 4) {
    0 => ZeroV::S0 {},
    1 => ZeroV::T0(),
    2 => ZeroV::N(()),
    _ => ZeroV::NU(Unit),
});

#[derive(Serialize, Deserialize, Debug, PartialEq)]
struct TupS0();
#[derive(Serialize, Deserialize, Debug, PartialEq)]
struct Named0 {}
#[derive(Serialize, Deserialize, Debug, PartialEq)]
struct ZeroS(TupS0, Named0, Vec<TupS0>);
extra!(ZeroS, "zero_field_structs", |ch, p, _f| ZeroS(TupS0(), Named0 {}, (0..ch.dev(0, &format!("{p}/n"), 3)).map(|_| TupS0()).collect()));

#[derive(Serialize, Deserialize, Debug, PartialEq)]
struct EnumKeyMap(BTreeMap<Ue, u8>);
extra!(EnumKeyMap, "map_with_unit_variant_keys", |ch, p, f| EnumKeyMap(
    [&[Ue::A][..], &[][..], &[Ue::A, Ue::B][..]][ch.dev(0, &format!("{p}/keys"), 3)].iter().map(|k| (*k, u8::gen(ch, &format!("{p}/{k:?}"), f))).collect()
));

#[derive(Serialize, Deserialize, Debug, PartialEq)]
struct Mixed(u8, String, Option<bool>, (i8, i8), [u16; 3], Result<u8, String>, Box<i32>);
extra!(Mixed, "wide_tuple_array_result_box", |ch, p, f| Mixed(
    u8::gen(ch, &format!("{p}/0"), f),
    String::gen(ch, &format!("{p}/1"), f),
    Option::<bool>::gen(ch, &format!("{p}/2"), f),
    <(i8, i8)>::gen(ch, &format!("{p}/3"), f),
    [u16::gen(ch, &format!("{p}/4.0"), f), u16::gen(ch, &format!("{p}/4.1"), f), u16::gen(ch, &format!("{p}/4.2"), f)],
    if ch.dev(0, &format!("{p}/5"), 2) == 0 { Ok(u8::gen(ch, &format!("{p}/5.ok"), f)) } else { Err(String::gen(ch, &format!("{p}/5.err"), f)) },
    Box::new(i32::gen(ch, &format!("{p}/6"), f)),
));

// ------------------------------------------------------------------------------------------
// one type: enumerate, round-trip, judge

enum Obs {
    ToPanic(String),
    ToErr(String),
    FromPanic { value: String, msg: String },
    FromErr { value: String, msg: String },
    Back { value: String, back: String, null: bool },
}

fn trip<T: Gen>(x: &T) -> Obs {
    let v = match agv_engine::catch_quiet(|| to_value(x)) {
        Err(p) => return Obs::ToPanic(p),
        Ok(Err(e)) => return Obs::ToErr(e.to_string()),
        Ok(Ok(v)) => v,
    };
    let value = v.to_string();
    let null = matches!(v, async_graphql_value::ConstValue::Null);
    match agv_engine::catch_quiet(|| from_value::<T>(v)) {
        Err(p) => Obs::FromPanic { value, msg: p },
        Ok(Err(e)) => Obs::FromErr { value, msg: e.to_string() },
        Ok(Ok(y)) => Obs::Back { value, back: format!("{y:?}"), null },
    }
}

/// every (class, leaf, feature) seen, with case counts — goes into the evidence
static BREAKDOWN: std::sync::Mutex<BTreeMap<String, u64>> = std::sync::Mutex::new(BTreeMap::new());

struct TypeStats {
    executions: u64,
    nontrivial: u64,
    capped: bool,
}

/// Generate the value selected by the chooser, convert it there and back.
fn gen_trip<T: Gen>(ch: &mut Chooser) -> (String, Feats, Obs) {
    let mut f = Feats::default();
    let x = T::gen(ch, "", &mut f);
    (format!("{x:?}"), f, trip(&x))
}

struct Entry {
    name: String,
    leaf: &'static str,
    depth: u8,
    thorough_only: bool,
    gen_trip: fn(&mut Chooser) -> (String, Feats, Obs),
}

fn entry<T: Gen>(depth: u8, thorough_only: bool) -> Entry {
    Entry { name: T::name(), leaf: T::leaf(), depth, thorough_only, gen_trip: gen_trip::<T> }
}

fn run_entry(cx: &Cx, e: &Entry, budget: u32) -> TypeStats {
    let name = &e.name;
    let leaf = e.leaf;
    let nontrivial = AtomicU64::new(0);
    let cfg = ExploreCfg { bounds: [budget, 0, 0, 0], max_execs: 2_000_000, parallel: true };
    let st = explore(&cfg, &|ch: &mut Chooser| (e.gen_trip)(ch), &|ch: &Chooser, (shown, f, obs): (String, Feats, Obs)| {
        let case = || json!({"type": name, "choices": ch.choices(), "value": shown});
        let v = |class: &str, detail: String| {
            *BREAKDOWN.lock().unwrap().entry(format!("{class} leaf={leaf} feature={}", f.text())).or_insert(0) += 1;
            cx.violation(Violation::new(class, detail, case()).key("leaf", leaf).key("feature", f.text()).key("type", name.clone()));
        };
        match obs {
            Obs::ToPanic(p) => v("panic", format!("to_value({shown}) of type {name} panicked: {p}")),
            Obs::FromPanic { value, msg } => v("panic", format!("from_value::<{name}>({value}) panicked: {msg}")),
            Obs::ToErr(e) => v("to-value-fails", format!("to_value({shown}) of type {name} fails: {e}")),
            Obs::FromErr { value, msg } => v("from-value-fails", format!("{name}: {shown} converts to {value}, which from_value rejects: {msg}")),
            Obs::Back { value, back, null } => {
                if back != shown {
                    v("roundtrip-differs", format!("{name}: {shown} converts to {value} and comes back as {back}"));
                } else {
                    if !null {
                        nontrivial.fetch_add(1, Ordering::Relaxed);
                    }
                    let h = agv_engine::h64(&(name, &shown));
                    cx.sample_with(h, || json!({"type": name, "value": shown, "graphql": value}));
                }
            }
        }
    });
    if let Some(d) = &st.diverged {
        cx.machinery_error(format!("{name}: {d}"));
    }
    TypeStats { executions: st.executions, nontrivial: nontrivial.load(Ordering::Relaxed), capped: st.capped }
}

fn replay_entry(e: &Entry, choices: &[u32]) -> String {
    let mut ch = Chooser::from_choices(choices);
    let (shown, f, obs) = (e.gen_trip)(&mut ch);
    let head = format!("type {} value {shown} (features {})\n  ", e.name, f.text());
    head + &match obs {
        Obs::ToPanic(p) => format!("to_value panicked: {p}"),
        Obs::ToErr(e) => format!("to_value fails: {e}"),
        Obs::FromPanic { value, msg } => format!("to_value = {value}; from_value panicked: {msg}"),
        Obs::FromErr { value, msg } => format!("to_value = {value}; from_value fails: {msg}"),
        Obs::Back { value, back, .. } => format!("to_value = {value}; from_value = {back}; {}", if back == shown { "equal: property holds on this case" } else { "NOT equal" }),
    }
}

macro_rules! ctor_each {
    ($m:ident, $reg:ident, $d:expr, $th:expr, $t:ty) => {
        $m!($reg, $d, $th, Opt<$t>);
        $m!($reg, $d, $th, VecT<$t>);
        $m!($reg, $d, $th, Pair<$t>);
        $m!($reg, $d, $th, Map<$t>);
        $m!($reg, $d, $th, NewT<$t>);
        $m!($reg, $d, $th, TupS<$t>);
        $m!($reg, $d, $th, Named<$t>);
        $m!($reg, $d, $th, En<$t>);
    };
}
macro_rules! d1 {
    ($reg:ident, $d:expr, $th:expr, $t:ty) => {
        $reg.push(entry::<$t>($d, $th));
    };
}
/// all 8 types `C<t>`
macro_rules! d2 {
    ($reg:ident, $d:expr, $th:expr, $t:ty) => {
        ctor_each!(d1, $reg, $d, $th, $t);
    };
}
/// all 64 types `C<C<t>>`
macro_rules! d3 {
    ($reg:ident, $d:expr, $th:expr, $t:ty) => {
        ctor_each!(d2, $reg, $d, $th, $t);
    };
}
macro_rules! each_leaf {
    ($m:ident, $reg:ident, $d:expr, $th:expr, [$($t:ty),*]) => { $( $m!($reg, $d, $th, $t); )* };
}

/// the sub-family used at depth 4
macro_rules! ctor4_each {
    ($m:ident, $reg:ident, $d:expr, $th:expr, $t:ty) => {
        $m!($reg, $d, $th, Opt<$t>);
        $m!($reg, $d, $th, Map<$t>);
        $m!($reg, $d, $th, En<$t>);
    };
}
macro_rules! e2 {
    ($reg:ident, $d:expr, $th:expr, $t:ty) => {
        ctor4_each!(d1, $reg, $d, $th, $t);
    };
}
macro_rules! e3 {
    ($reg:ident, $d:expr, $th:expr, $t:ty) => {
        ctor4_each!(e2, $reg, $d, $th, $t);
    };
}
/// all 27 types `C<C<C<t>>>` with C in {Option, Map, En}
macro_rules! e4 {
    ($reg:ident, $d:expr, $th:expr, $t:ty) => {
        ctor4_each!(e3, $reg, $d, $th, $t);
    };
}

fn registry() -> Vec<Entry> {
    let mut r: Vec<Entry> = Vec::new();
    // depth 1: the leaves; depth 2: every constructor over every leaf
    each_leaf!(d1, r, 1, false, [bool, i8, i16, i32, i64, i128, u8, u16, u32, u64, u128, f32, f64, char, String, Bytes, (), Unit, Ue]);
    each_leaf!(d2, r, 2, false, [bool, i8, i16, i32, i64, i128, u8, u16, u32, u64, u128, f32, f64, char, String, Bytes, (), Unit, Ue]);
    // depth 3: every pair of constructors over u8 (thorough: also over the null-valued unit)
    each_leaf!(d3, r, 3, false, [u8]);
    // depth 4 (thorough): every triple over {Option, Map, En}
    each_leaf!(e4, r, 4, true, [u8]);
    // extras
    each_leaf!(d1, r, 0, false, [ITag, ATag, UTag, Flat, Skip, ZeroV, ZeroS, EnumKeyMap, Mixed]);
    r
}

pub fn run(cx: &Cx) {
    let thorough = !cx.quick();
    let budget: u32 = if thorough { 5 } else { 3 };
    cx.rule(
        "case = (concrete Rust type, value). Types: 19 leaves (bool, i8–i128, u8–u128, f32, f64, char, String, bytes, (), unit struct, unit-only enum) under every \
         composition of {Option, Vec, 2-tuple, BTreeMap<String,_>, newtype struct, tuple struct, named struct, enum with newtype/unit/tuple/struct variants}: all 8 \
         over every leaf, all 64 pairs over u8, thorough all 27 triples of {Option, Map, enum} over u8; plus 9 extras (internally/adjacently tagged and untagged enums, \
         flatten, rename/skip/default, zero-field variants and structs, unit-variant map keys, arrays/Result/Box). Values: the populated exemplar and every change of \
         ≤ k positions (k=3 quick, 5 thorough) among: leaf boundary menus (min, max, 0, ±1, 2^53+1, −0.0, denormals, NaN, ±inf, NUL/quote/non-BMP strings), \
         None, lengths 0/2, map key sets (incl. empty and non-identifier keys), every variant. Non-trivial = the value converted to a non-null GraphQL value and came \
         back equal; distinct by construction (each admissible choice sequence runs once).",
    );
    cx.assume("equality is the Debug rendering (exact for floats: −0.0 ≠ 0.0, all NaNs equal); map keys are Strings or unit variants (the statement's 'string map keys')");

    let reg = registry();
    let selected: Vec<&Entry> = reg.iter().filter(|e| thorough || !e.thorough_only).collect();
    let per: Vec<(u8, TypeStats)> = selected.par_iter().map(|e| (e.depth, run_entry(cx, e, budget))).collect();
    let mut by_depth: BTreeMap<u8, (u64, u64)> = BTreeMap::new();
    let mut capped = false;
    for (d, s) in &per {
        cx.evals(s.executions);
        cx.nontrivial_count(s.nontrivial);
        let e = by_depth.entry(*d).or_default();
        e.0 += 1;
        e.1 += s.executions;
        capped |= s.capped;
    }
    cx.extra("types", json!(selected.len()));
    cx.extra("types_compiled_in", json!(reg.len()));
    cx.extra("deviation_bound_completed", json!(budget));
    cx.extra(
        "by_depth",
        json!(by_depth.iter().map(|(d, (n, e))| json!({"depth": if *d == 0 { "extras".to_string() } else { d.to_string() }, "types": n, "executions": e})).collect::<Vec<_>>()),
    );
    cx.extra("capped", json!(capped));
    cx.extra("discrepancies_by_class_leaf_feature", json!(BREAKDOWN.lock().unwrap().clone()));
    cx.exhaustive(!capped);
}

pub fn replay(case: &serde_json::Value) -> String {
    let ty = case["type"].as_str().unwrap_or("");
    let choices: Vec<u32> = case["choices"].as_array().map(|a| a.iter().filter_map(|x| x.as_u64().map(|x| x as u32)).collect()).unwrap_or_default();
    match registry().into_iter().find(|e| e.name == ty) {
        Some(e) => replay_entry(&e, &choices),
        None => format!("no type named {ty} in the registry"),
    }
}

fn main() {
    agv_engine::driver::main("C16", "exploration", run, Some(replay))
}
