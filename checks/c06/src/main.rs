//! C06 — resolvers receive exactly the spec-coerced argument values.
//!
//! Space (complete product, nothing sampled): every single-argument declaration of S3
//! (17 Query fields: scalars, argument defaults, enum, lists, nested input objects with
//! field defaults, @oneOf, `MaybeUndefined`) × every way of supplying the argument —
//! omitted; each of 21 literals; `$v` declared `T` / `T!` / `T = default` / `T = null`
//! × runtime state {omitted, each of 21 JSON values incl. null}; `$v` nested inside 15
//! list / object literal templates × the 4 declared forms × runtime menus — plus the
//! full product of the top-level forms of both arguments on the two-argument fields
//! (quick: p1 in full, p2 on the diagonal; thorough: both in full). Every case runs on
//! the derive-built schema S3 and on its dynamic twin.
//!
//! Oracle: agv-refgql `coerce_variables` (§6.1.2) + `coerce_arguments` (§6.4.1).
//! It yields values ⇒ the resolver is invoked exactly once and echoes exactly those
//! values; it raises ⇒ the response has ≥ 1 error and the resolver is not invoked.
//! Every echoed value must belong to the declared type. The reference validator only
//! *labels* a case valid/invalid: for an invalid document a failed request without
//! invocation is what the specification demands and agrees.

mod s3;

use agv_common::dynamic::{const_value, type_ref};
use agv_engine::record::{Cx, Violation};
use agv_engine::sched::drive;
use agv_refgql::ast::{ExecDef, Selection, Type};
use agv_refgql::coerce::{coerce_arguments, coerce_variables, Val};
use agv_refgql::schema::{FieldT, Kind, Schema as Ir};
use async_graphql::dynamic as dy;
use rayon::prelude::*;
use serde_json::{json, Map, Value as J};
use std::collections::BTreeMap;
use std::sync::atomic::{AtomicU64, Ordering};
use std::sync::{Arc, Mutex};

// ------------------------------------------------------------------ flavours

#[derive(Clone, Copy, PartialEq, Eq, Debug, Hash, PartialOrd, Ord)]
enum Flavour {
    Static,
    Dynamic,
}
impl Flavour {
    fn name(self) -> &'static str {
        match self {
            Flavour::Static => "static",
            Flavour::Dynamic => "dynamic",
        }
    }
}

const UNDEF: &str = "undefined";

fn undef() -> J {
    J::String(UNDEF.into())
}

// ------------------------------------------------------------------ dynamic twin

fn generic(v: &async_graphql::Value) -> J {
    serde_json::to_value(v).unwrap_or(J::Null)
}

/// Echo what a dynamic resolver finds in its accessors, walking value and declared
/// type together. Anything the accessor of the declared kind refuses is shown as
/// `{"!raw": …}` (never equal to an expected value).
fn echo_dyn(ir: &Ir, ty: &Type, v: Option<dy::ValueAccessor<'_>>) -> J {
    let Some(v) = v else { return undef() };
    if v.is_null() {
        return J::Null;
    }
    let raw = |v: &dy::ValueAccessor<'_>| json!({"!raw": generic(v.as_value())});
    match ty.nullable() {
        Type::List(t) => match v.list() {
            Ok(l) => J::Array(l.iter().map(|x| echo_dyn(ir, t, Some(x))).collect()),
            Err(_) => raw(&v),
        },
        Type::Named(n) => match ir.ty(n).map(|t| &t.kind) {
            Some(Kind::Scalar) => match n.as_str() {
                "Int" => v.i64().map(|i| json!(i)).unwrap_or_else(|_| raw(&v)),
                "String" => v.string().map(|s| json!(s)).unwrap_or_else(|_| raw(&v)),
                "Boolean" => v.boolean().map(|s| json!(s)).unwrap_or_else(|_| raw(&v)),
                "Float" => v.f64().map(|s| json!(s)).unwrap_or_else(|_| raw(&v)),
                _ => generic(v.as_value()),
            },
            Some(Kind::Enum { .. }) => v.enum_name().map(|s| json!(s)).unwrap_or_else(|_| raw(&v)),
            Some(Kind::Input { fields, one_of }) => match v.object() {
                Ok(o) => {
                    let mut m = Map::new();
                    for f in fields {
                        match o.get(&f.name) {
                            Some(x) => {
                                m.insert(f.name.clone(), echo_dyn(ir, &f.ty, Some(x)));
                            }
                            None if *one_of => {}
                            None => {
                                m.insert(f.name.clone(), undef());
                            }
                        }
                    }
                    for (k, x) in o.iter() {
                        if !fields.iter().any(|f| f.name == k.as_str()) {
                            m.insert(format!("!unknown:{k}"), generic(x.as_value()));
                        }
                    }
                    J::Object(m)
                }
                Err(_) => raw(&v),
            },
            _ => raw(&v),
        },
        Type::NonNull(_) => unreachable!(),
    }
}

fn dyn_schema(ir: &Ir) -> Result<dy::Schema, String> {
    let irc = Arc::new(ir.clone());
    let mut b = dy::Schema::build(&ir.query, None, None);
    for (name, t) in &ir.types {
        if agv_refgql::schema::BUILTIN_SCALARS.contains(&name.as_str()) {
            continue;
        }
        match &t.kind {
            Kind::Enum { values } => {
                let mut e = dy::Enum::new(name.clone());
                for (v, _, _) in values {
                    e = e.item(dy::EnumItem::new(v.clone()));
                }
                b = b.register(e);
            }
            Kind::Input { fields, one_of } => {
                let mut io = dy::InputObject::new(name.clone());
                for a in fields {
                    let mut iv = dy::InputValue::new(a.name.clone(), type_ref(&a.ty));
                    if let Some(d) = &a.default {
                        iv = iv.default_value(const_value(d));
                    }
                    io = io.field(iv);
                }
                if *one_of {
                    io = io.oneof();
                }
                b = b.register(io);
            }
            Kind::Object { fields, .. } => {
                let mut o = dy::Object::new(name.clone());
                for f in fields {
                    let fdef = f.clone();
                    let ir2 = irc.clone();
                    let mut fld = dy::Field::new(f.name.clone(), type_ref(&f.ty), move |ctx| {
                        let fdef = fdef.clone();
                        let ir = ir2.clone();
                        dy::FieldFuture::new(async move {
                            let mut m = Map::new();
                            for a in &fdef.args {
                                m.insert(a.name.clone(), echo_dyn(&ir, &a.ty, ctx.args.get(&a.name)));
                            }
                            // the accessors agree with each other: try_get fails exactly when get is None
                            for a in &fdef.args {
                                if ctx.args.try_get(&a.name).is_ok() != ctx.args.get(&a.name).is_some() {
                                    m.insert("!accessor-mismatch".into(), json!(a.name));
                                }
                            }
                            for k in ctx.args.keys() {
                                if !fdef.args.iter().any(|a| a.name == k.as_str()) {
                                    m.insert(format!("!unknown:{k}"), J::Null);
                                }
                            }
                            ctx.data_unchecked::<s3::L>().push(&fdef.name, J::Object(m));
                            Ok(Some(dy::FieldValue::value(1)))
                        })
                    });
                    for a in &f.args {
                        let mut iv = dy::InputValue::new(a.name.clone(), type_ref(&a.ty));
                        if let Some(d) = &a.default {
                            iv = iv.default_value(const_value(d));
                        }
                        fld = fld.argument(iv);
                    }
                    o = o.field(fld);
                }
                b = b.register(o);
            }
            _ => return Err(format!("S3 has no type of the kind of {name}")),
        }
    }
    b.finish().map_err(|e| format!("{e:?}"))
}

// ------------------------------------------------------------------ supply forms

const LITS: &[&str] = &[
    "1",
    "null",
    "\"1\"",
    "1.5",
    "X",
    "[1]",
    "[1,null]",
    "[[1]]",
    "{r:1}",
    "{r:1,d:null}",
    "{r:1,n:null,m:null}",
    "{}",
    "{r:1,zz:1}",
    "{r:1,sub:{y:3}}",
    "{r:1,sub:{}}",
    "{r:1,sub:{x:null}}",
    "{r:1,sub:{y:[3,null]}}",
    "{a:1}",
    "{a:1,b:\"x\"}",
    "{a:null}",
    "{b:\"x\"}",
];

fn json_menu() -> Vec<J> {
    vec![
        json!(1),
        J::Null,
        json!("1"),
        json!(1.5),
        json!("X"),
        json!([1]),
        json!([1, null]),
        json!([[1]]),
        json!({"r":1}),
        json!({"r":1,"d":null}),
        json!({"r":1,"n":null,"m":null}),
        json!({}),
        json!({"r":1,"zz":1}),
        json!({"r":1,"sub":{"y":3}}),
        json!({"r":1,"sub":{}}),
        json!({"r":1,"sub":{"x":null}}),
        json!({"r":1,"sub":{"y":[3,null]}}),
        json!({"a":1}),
        json!({"a":1,"b":"x"}),
        json!({"a":null}),
        json!({"b":"x"}),
    ]
}

/// the literal used as the variable's own default in the `T = default` form
fn default_lit(ty: &Type) -> String {
    match ty {
        Type::NonNull(t) => default_lit(t),
        Type::List(t) => format!("[{}]", default_lit(t)),
        Type::Named(n) => match n.as_str() {
            "Int" => "9".into(),
            "String" => "\"s\"".into(),
            "E" => "Y".into(),
            "In" => "{r:2}".into(),
            "In2" => "{y:[2]}".into(),
            "One" => "{b:\"d\"}".into(),
            _ => "null".into(),
        },
    }
}

const VFORMS: &[&str] = &["T", "T!", "T=default", "T=null"];

fn var_decl(base: &Type, vform: &str) -> String {
    match vform {
        "T" => format!("{base}"),
        "T!" => format!("{base}!"),
        "T=default" => format!("{base} = {}", default_lit(base)),
        _ => format!("{base} = null"),
    }
}

#[derive(Clone, Debug)]
struct VarUse {
    /// `Int = 9`
    decl: String,
    vform: &'static str,
    /// None = omitted from the variables map
    runtime: Option<J>,
}
impl VarUse {
    fn runtime_label(&self) -> &'static str {
        match &self.runtime {
            None => "omitted",
            Some(J::Null) => "null",
            Some(_) => "value",
        }
    }
}

#[derive(Clone, Debug)]
struct Supply {
    /// argument text with `$v` as the variable; None = argument omitted
    arg: Option<String>,
    var: Option<VarUse>,
    class: &'static str,
}

fn top_supplies(ty: &Type) -> Vec<Supply> {
    let mut out = vec![Supply { arg: None, var: None, class: "omitted" }];
    for l in LITS {
        out.push(Supply { arg: Some(l.to_string()), var: None, class: "literal" });
    }
    let base = ty.nullable().clone();
    for vform in VFORMS {
        let decl = var_decl(&base, vform);
        out.push(Supply { arg: Some("$v".into()), var: Some(VarUse { decl: decl.clone(), vform, runtime: None }), class: "variable" });
        for j in json_menu() {
            out.push(Supply { arg: Some("$v".into()), var: Some(VarUse { decl: decl.clone(), vform, runtime: Some(j) }), class: "variable" });
        }
    }
    out
}

fn runtime_menu(base: &Type) -> Vec<Option<J>> {
    let t = format!("{base}");
    let vals: Vec<J> = match t.as_str() {
        "Int" => vec![J::Null, json!(1), json!("1"), json!([1])],
        "String" => vec![J::Null, json!("x"), json!(1)],
        "[Int]" => vec![J::Null, json!([3]), json!(3), json!([1, null]), json!([[1]]), json!("x")],
        "In2" => vec![J::Null, json!({}), json!({"y":3}), json!({"x":null}), json!(1)],
        "In" => vec![J::Null, json!({"r":1}), json!({}), json!(1)],
        _ => vec![J::Null, json!(1)],
    };
    std::iter::once(None).chain(vals.into_iter().map(Some)).collect()
}

/// `$v` nested inside list and object literals
fn nested_supplies(ty: &Type) -> Vec<Supply> {
    let int = Type::named("Int");
    // the item type of the declaration's list (Int for non-list declarations)
    let item = match ty.nullable() {
        Type::List(t) => t.nullable().clone(),
        _ => int.clone(),
    };
    let templates: Vec<(&str, Type, &'static str)> = vec![
        ("[$v]", item, "variable-in-list"),
        ("[1,$v]", int.clone(), "variable-in-list"),
        ("{r:$v}", int.clone(), "variable-in-object"),
        ("{r:1,d:$v}", int.clone(), "variable-in-object"),
        ("{r:1,n:$v}", int.clone(), "variable-in-object"),
        ("{r:1,m:$v}", int.clone(), "variable-in-object"),
        ("{r:1,sub:{x:$v}}", int.clone(), "variable-in-object"),
        ("{r:1,sub:{y:$v}}", int.clone().list(), "variable-in-object"),
        ("{r:1,sub:{y:[$v]}}", int.clone(), "variable-in-object"),
        ("{r:1,sub:$v}", Type::named("In2"), "variable-in-object"),
        ("[{r:$v}]", int.clone(), "variable-in-object"),
        ("[{r:1,d:$v}]", int.clone(), "variable-in-object"),
        ("{a:$v}", int.clone(), "variable-in-object"),
        ("{b:$v}", Type::named("String"), "variable-in-object"),
        ("{a:$v,b:\"x\"}", int.clone(), "variable-in-object"),
    ];
    let mut out = Vec::new();
    for (t, base, class) in templates {
        for vform in VFORMS {
            let decl = var_decl(&base, vform);
            for rt in runtime_menu(&base) {
                out.push(Supply { arg: Some(t.to_string()), var: Some(VarUse { decl: decl.clone(), vform, runtime: rt }), class });
            }
        }
    }
    out
}

#[derive(Clone, Debug)]
struct Case {
    field: String,
    query: String,
    vars: Map<String, J>,
    /// per argument: (supply class, template, vform, runtime label)
    forms: Vec<(&'static str, String, &'static str, &'static str)>,
}

fn make_case(field: &FieldT, supplies: &[&Supply]) -> Case {
    let names = ["v", "w"];
    let mut decls = Vec::new();
    let mut args = Vec::new();
    let mut vars = Map::new();
    let mut forms = Vec::new();
    for (i, (a, s)) in field.args.iter().zip(supplies).enumerate() {
        let vn = names[i];
        if let Some(t) = &s.arg {
            args.push(format!("{}: {}", a.name, t.replace("$v", &format!("${vn}"))));
        }
        if let Some(v) = &s.var {
            decls.push(format!("${vn}: {}", v.decl));
            if let Some(j) = &v.runtime {
                vars.insert(vn.to_string(), j.clone());
            }
        }
        forms.push((s.class, s.arg.clone().unwrap_or_else(|| "-".into()), s.var.as_ref().map(|v| v.vform).unwrap_or("-"), s.var.as_ref().map(|v| v.runtime_label()).unwrap_or("-")));
    }
    let head = if decls.is_empty() { String::new() } else { format!("query({}) ", decls.join(", ")) };
    let call = if args.is_empty() { field.name.clone() } else { format!("{}({})", field.name, args.join(", ")) };
    Case { field: field.name.clone(), query: format!("{head}{{ {call} }}"), vars, forms }
}

// ------------------------------------------------------------------ oracle

enum RefOut {
    Values(Vec<(String, Val)>),
    /// (which step of the specification raises, why, index of the argument whose coercion — or whose
    /// variable's coercion — raises first)
    Raises(&'static str, String, Option<usize>),
}

struct Reference {
    valid: bool,
    invalid_rules: Vec<&'static str>,
    out: RefOut,
    /// invalid document only: the coercion algorithms (which presume validation) produced a
    /// value outside the declared type, i.e. the specification defines no value here
    ill_typed: bool,
}

fn reference(ir: &Ir, query: &str, vars: &Map<String, J>) -> Result<Reference, String> {
    let doc = agv_refgql::parse::parse_exec(query).map_err(|e| format!("generated document does not parse: {query}: {}", e.msg))?;
    let verrs = agv_refgql::validate::validate(ir, &doc);
    let mut rules: Vec<&'static str> = verrs.iter().map(|e| e.rule).collect();
    rules.sort();
    rules.dedup();
    let Some(ExecDef::Op(op)) = doc.defs.first() else { return Err("no operation".into()) };
    let Some(Selection::Field(f)) = op.sel.first() else { return Err("no field".into()) };
    let fdef = ir.field(&ir.query, &f.name.s).ok_or("unknown field")?;
    let out = match coerce_variables(ir, &op.vars, vars) {
        Err(e) => {
            // §6.1.2 step 3.h (required variable without value / null) vs. 3.i (value not coercible)
            let required = op.vars.iter().any(|d| d.ty.is_non_null() && matches!(vars.get(&d.name.s), None | Some(J::Null)) && (d.default.is_none() || vars.contains_key(&d.name.s)));
            // the generated documents name the variable of the first argument $v, of the second $w
            let culprit = op.vars.iter().find(|d| coerce_variables(ir, std::slice::from_ref(*d), vars).is_err()).and_then(|d| ["v", "w"].iter().position(|n| *n == d.name.s));
            RefOut::Raises(if required { "required-variable-missing-or-null" } else { "variable-value-not-coercible" }, format!("CoerceVariableValues: {}", e.0), culprit)
        }
        Ok(vv) => match coerce_arguments(ir, &fdef.args, &f.args, &vv) {
            Err(e) => {
                let culprit = fdef.args.iter().position(|a| coerce_arguments(ir, std::slice::from_ref(a), &f.args, &vv).is_err());
                RefOut::Raises("argument-value-not-coercible", format!("CoerceArgumentValues: {}", e.0), culprit)
            }
            Ok(v) => RefOut::Values(v),
        },
    };
    let ill_typed = match &out {
        RefOut::Values(vals) => fdef.args.iter().any(|a| vals.iter().any(|(k, v)| *k == a.name && !val_in_type(ir, &a.ty, v))),
        _ => false,
    };
    Ok(Reference { valid: verrs.is_empty(), invalid_rules: rules, out, ill_typed })
}

fn absent(fl: Flavour, site: &str) -> J {
    if fl == Flavour::Dynamic || s3::MAYBE_UNDEFINED_SITES.contains(&site) {
        undef()
    } else {
        J::Null
    }
}

/// canonical JSON a resolver must echo for the reference value `v` of type `ty`
fn encode(ir: &Ir, ty: &Type, v: &Val, fl: Flavour) -> J {
    match (v, ty.nullable()) {
        (Val::Null, _) => J::Null,
        (Val::List(l), Type::List(t)) => J::Array(l.iter().map(|x| encode(ir, t, x, fl)).collect()),
        (Val::Obj(o), Type::Named(n)) => match ir.ty(n).map(|t| &t.kind) {
            Some(Kind::Input { fields, one_of }) => {
                let mut m = Map::new();
                for f in fields {
                    match o.iter().find(|(k, _)| *k == f.name) {
                        Some((_, x)) => {
                            m.insert(f.name.clone(), encode(ir, &f.ty, x, fl));
                        }
                        None if *one_of => {}
                        None => {
                            m.insert(f.name.clone(), absent(fl, &format!("{n}.{}", f.name)));
                        }
                    }
                }
                J::Object(m)
            }
            _ => v.to_json(),
        },
        _ => v.to_json(),
    }
}

fn expected_echo(ir: &Ir, fdef: &FieldT, vals: &[(String, Val)], fl: Flavour) -> J {
    let mut m = Map::new();
    for a in &fdef.args {
        match vals.iter().find(|(k, _)| *k == a.name) {
            Some((_, v)) => m.insert(a.name.clone(), encode(ir, &a.ty, v, fl)),
            None => m.insert(a.name.clone(), absent(fl, &format!("Query.{}.{}", fdef.name, a.name))),
        };
    }
    J::Object(m)
}

/// does the reference value belong to the type (a sanity check of the oracle itself)
fn val_in_type(ir: &Ir, ty: &Type, v: &Val) -> bool {
    match (v, ty) {
        (Val::Null, Type::NonNull(_)) => false,
        (Val::Null, _) => true,
        (_, Type::NonNull(t)) => val_in_type(ir, t, v),
        (Val::List(l), Type::List(t)) => l.iter().all(|x| val_in_type(ir, t, x)),
        (_, Type::List(_)) => false,
        (_, Type::Named(n)) => match (ir.ty(n).map(|t| &t.kind), v) {
            (Some(Kind::Scalar), Val::Int(_)) => n == "Int",
            (Some(Kind::Scalar), Val::Str(_)) => n == "String",
            (Some(Kind::Enum { values }), Val::Enum(e)) => values.iter().any(|(x, _, _)| x == e),
            (Some(Kind::Input { fields, one_of }), Val::Obj(o)) => {
                o.iter().all(|(k, x)| fields.iter().any(|f| &f.name == k && val_in_type(ir, &f.ty, x)))
                    && fields.iter().all(|f| o.iter().any(|(k, _)| *k == f.name) || (!f.ty.is_non_null() && f.default.is_none()))
                    && (!*one_of || (o.len() == 1 && o[0].1 != Val::Null))
            }
            _ => false,
        },
    }
}

/// does an echoed value belong to the declared type ("undefined" = absent)
fn echo_in_type(ir: &Ir, ty: &Type, j: &J) -> bool {
    if j.as_str() == Some(UNDEF) || j.is_null() {
        return !ty.is_non_null();
    }
    match ty.nullable() {
        Type::List(t) => j.as_array().map(|a| a.iter().all(|x| echo_in_type(ir, t, x))).unwrap_or(false),
        Type::Named(n) => match ir.ty(n).map(|t| &t.kind) {
            Some(Kind::Scalar) => match n.as_str() {
                "Int" => j.as_i64().map(|i| i >= i32::MIN as i64 && i <= i32::MAX as i64).unwrap_or(false),
                "String" => j.is_string(),
                _ => true,
            },
            Some(Kind::Enum { values }) => j.as_str().map(|s| values.iter().any(|(x, _, _)| x == s)).unwrap_or(false),
            Some(Kind::Input { fields, one_of }) => match j.as_object() {
                Some(o) => {
                    o.iter().all(|(k, x)| fields.iter().any(|f| &f.name == k && echo_in_type(ir, &f.ty, x)))
                        && (!*one_of || (o.len() == 1 && o.values().all(|x| !x.is_null() && x.as_str() != Some(UNDEF))))
                        && (*one_of || fields.iter().all(|f| o.contains_key(&f.name)))
                }
                None => false,
            },
            _ => false,
        },
        Type::NonNull(_) => unreachable!(),
    }
}

fn kind_of(j: Option<&J>) -> &'static str {
    match j {
        None => "missing",
        Some(J::Null) => "null",
        Some(J::String(s)) if s == UNDEF => "undefined",
        Some(J::Array(_)) => "list",
        Some(J::Object(o)) if o.contains_key("!raw") => "uncoerced",
        Some(J::Object(_)) => "object",
        Some(_) => "value",
    }
}

/// first difference between expected and echoed JSON: (path segments, expected kind, got kind);
/// a segment is an argument / input field name or "[]" for a list item
fn first_diff(exp: &J, got: &J, path: &[String]) -> Option<(Vec<String>, &'static str, &'static str)> {
    if exp == got {
        return None;
    }
    let with = |seg: &str| {
        let mut p = path.to_vec();
        p.push(seg.to_string());
        p
    };
    match (exp, got) {
        (J::Object(a), J::Object(b)) if !b.contains_key("!raw") => {
            for (k, x) in a {
                match b.get(k) {
                    Some(y) => {
                        if let Some(d) = first_diff(x, y, &with(k)) {
                            return Some(d);
                        }
                    }
                    None => return Some((with(k), kind_of(Some(x)), "missing")),
                }
            }
            for k in b.keys() {
                if !a.contains_key(k) {
                    return Some((with(k.split(':').next().unwrap_or(k)), "missing", "present"));
                }
            }
            None
        }
        (J::Array(a), J::Array(b)) => {
            if a.len() != b.len() {
                return Some((path.to_vec(), "list", "list-of-other-length"));
            }
            a.iter().zip(b).find_map(|(x, y)| first_diff(x, y, &with("[]")))
        }
        _ => Some((path.to_vec(), kind_of(Some(exp)), kind_of(Some(got)))),
    }
}

/// the declaration site a diff path points at: (site name, has a declared default, declared type)
fn site_of(ir: &Ir, fdef: &FieldT, segs: &[String]) -> Option<(String, bool, Type)> {
    let a = fdef.args.iter().find(|a| Some(&a.name) == segs.first())?;
    let mut site = format!("Query.{}.{}", fdef.name, a.name);
    let mut has_default = a.default.is_some();
    let mut ty = a.ty.clone();
    for s in &segs[1..] {
        if s == "[]" {
            let Type::List(t) = ty.nullable().clone() else { return None };
            ty = *t;
            has_default = false;
            site.push_str("[]");
        } else {
            let n = ty.base().to_string();
            let Some(Kind::Input { fields, .. }) = ir.ty(&n).map(|t| &t.kind) else { return None };
            let f = fields.iter().find(|f| &f.name == s)?;
            site = format!("{n}.{}", f.name);
            has_default = f.default.is_some();
            ty = f.ty.clone();
        }
    }
    Some((site, has_default, ty))
}

// ------------------------------------------------------------------ running

struct Observed {
    errors: Vec<String>,
    log: Vec<(String, J)>,
}

struct Targets {
    ir: Ir,
    st: s3::S3,
    dy: dy::Schema,
}

fn execute(t: &Targets, fl: Flavour, query: &str, vars: &Map<String, J>) -> Result<Observed, String> {
    let log: s3::L = Arc::new(s3::Log::default());
    let req = async_graphql::Request::new(query).variables(async_graphql::Variables::from_json(J::Object(vars.clone()))).data(log.clone());
    let resp = agv_engine::catch_quiet(|| match fl {
        Flavour::Static => drive(t.st.execute(req)),
        Flavour::Dynamic => drive(t.dy.execute(req)),
    })
    .map_err(|p| format!("panic: {p}"))?
    .ok_or_else(|| "machinery: execute future parked".to_string())?;
    Ok(Observed { errors: resp.errors.iter().map(|e| e.message.clone()).collect(), log: log.take() })
}

enum Verdict {
    /// invoked once with exactly the reference's values
    AgreeInvoked,
    /// the reference raises; request failed, resolver not invoked
    AgreeRejected,
    /// invalid document refused without invocation (the reference's coercion, which presumes validation, would have produced values)
    AgreeInvalidRefused,
    /// invalid document executed where the specification defines no coerced value (the algorithms, run
    /// without validation, give a value outside the declared type); the resolver received a value of
    /// the declared type. Whether such a document may run at all is C09's property, not this one.
    Unjudged,
    /// `culprit`: index of the argument the discrepancy points at (None = not attributable to one argument)
    Bad { class: &'static str, at: String, received: &'static str, culprit: Option<usize>, detail: String },
}

fn judge(ir: &Ir, fdef: &FieldT, r: &Reference, fl: Flavour, o: &Observed) -> Verdict {
    let mine: Vec<&(String, J)> = o.log.iter().filter(|(f, _)| *f == fdef.name).collect();
    let show = |o: &Observed| format!("errors {:?}, invocations {}", o.errors, serde_json::to_string(&o.log).unwrap());
    let out_of_type = |got: &J| fdef.args.iter().find(|a| !echo_in_type(ir, &a.ty, got.get(&a.name).unwrap_or(&J::Null))).map(|a| a.name.clone());
    let received = |got: &J| if out_of_type(got).is_some() { "outside-declared-type" } else { "in-declared-type" };
    if mine.len() > 1 {
        return Verdict::Bad { class: "invoked-more-than-once", at: String::new(), received: "-", culprit: None, detail: show(o) };
    }
    match (&r.out, mine.first()) {
        (RefOut::Values(vals), Some((_, got))) => {
            let exp = expected_echo(ir, fdef, vals, fl);
            if *got == exp {
                // (an invalid document may make the unvalidated reference produce an ill-typed value: equal is not enough)
                if let Some(a) = out_of_type(got) {
                    let k = fdef.args.iter().position(|x| x.name == a);
                    return Verdict::Bad { class: "resolver-got-value-outside-declared-type", at: format!("{a}:{}", kind_of(got.get(&a))), received: "outside-declared-type", culprit: k, detail: format!("resolver received {got}; {}", show(o)) };
                }
                return Verdict::AgreeInvoked;
            }
            if r.ill_typed && out_of_type(got).is_none() {
                return Verdict::Unjudged;
            }
            let (segs, ek, gk) = first_diff(&exp, got, &[]).unwrap_or((Vec::new(), "?", "?"));
            let site = site_of(ir, fdef, &segs);
            let class = match &site {
                Some((_, true, _)) if matches!(gk, "undefined" | "null" | "missing") && !matches!(ek, "undefined" | "null") => "declared-default-not-applied",
                Some((_, _, ty)) if matches!(ty.nullable(), Type::List(_)) && ek == "list" && matches!(gk, "uncoerced" | "value" | "object") => "single-value-not-coerced-to-list",
                _ if out_of_type(got).is_some() => "resolver-got-value-outside-declared-type",
                _ => "resolver-got-other-value",
            };
            let at = format!("{}:{ek}->{gk}", site.map(|s| s.0).unwrap_or_else(|| segs.join(".")));
            let culprit = fdef.args.iter().position(|a| Some(&a.name) == segs.first());
            Verdict::Bad { class, at, received: received(got), culprit, detail: format!("reference coerces to {exp}; resolver received {got}; {}", show(o)) }
        }
        (RefOut::Values(vals), None) => {
            if o.errors.is_empty() {
                return Verdict::Bad { class: "not-invoked-and-no-error", at: String::new(), received: "-", culprit: None, detail: show(o) };
            }
            if !r.valid {
                return Verdict::AgreeInvalidRefused;
            }
            let exp = expected_echo(ir, fdef, vals, fl);
            Verdict::Bad { class: "request-fails-though-coercion-succeeds", at: String::new(), received: "-", culprit: None, detail: format!("reference coerces to {exp}; request failed: {}", show(o)) }
        }
        (RefOut::Raises(kind, why, culprit), Some((_, got))) => {
            let class = match *kind {
                "required-variable-missing-or-null" => "invoked-despite-required-variable-missing-or-null",
                "variable-value-not-coercible" => "invoked-despite-variable-value-not-coercible",
                _ => "invoked-despite-argument-value-not-coercible",
            };
            let at = out_of_type(got).map(|a| format!("{a}:{}", kind_of(got.get(&a)))).unwrap_or_default();
            Verdict::Bad { class, at, received: received(got), culprit: *culprit, detail: format!("reference raises ({why}); resolver received {got}; {}", show(o)) }
        }
        (RefOut::Raises(_, why, culprit), None) => {
            if o.errors.is_empty() {
                Verdict::Bad { class: "coercion-fails-but-no-error", at: String::new(), received: "-", culprit: *culprit, detail: format!("reference raises ({why}); {}", show(o)) }
            } else {
                Verdict::AgreeRejected
            }
        }
    }
}

#[derive(Default)]
struct Cell {
    agreed: u64,
    disagreed: u64,
}

struct Tally {
    /// (flavour, field, supply class) → agreed / disagreed
    matrix: Mutex<BTreeMap<(Flavour, String, String), Cell>>,
    agree_invoked: [AtomicU64; 2],
    agree_rejected: AtomicU64,
    invalid_refused: AtomicU64,
    unjudged: AtomicU64,
    valid_docs: AtomicU64,
    invalid_docs: AtomicU64,
    ref_values: AtomicU64,
    ref_raises: AtomicU64,
    /// disagreement groups: (flavour, class, at, document, supply, declared, runtime) → (count, declarations, first example)
    groups: Mutex<BTreeMap<String, (u64, Vec<String>, String)>>,
    /// development aid (AGV_C06_DUMP=file): every distinct (class, keys) tuple of a disagreement
    dump: Option<Mutex<std::collections::BTreeSet<String>>>,
    violations: Mutex<Vec<(usize, Flavour, Violation)>>,
}

fn decl_text(f: &FieldT) -> String {
    let args: Vec<String> = f
        .args
        .iter()
        .map(|a| match &a.default {
            Some(d) => format!("{}: {} = {}", a.name, a.ty, agv_refgql::print::value(d)),
            None => format!("{}: {}", a.name, a.ty),
        })
        .collect();
    format!("{}({})", f.name, args.join(", "))
}

/// per-argument supply form as one structural key: `class/declared/runtime`, arguments joined by " + "
/// With `culprit` (the argument a discrepancy points at) only that argument's form.
fn form_key(c: &Case, culprit: Option<usize>) -> String {
    c.forms.iter().enumerate().filter(|(i, _)| culprit.map(|k| k == *i).unwrap_or(true)).map(|(_, f)| format!("{}/{}/{}", f.0, f.2, f.3)).collect::<Vec<_>>().join(" + ")
}

fn run_one(cx: &Cx, t: &Targets, idx: usize, c: &Case, tally: &Tally) {
    let fdef = t.ir.field(&t.ir.query, &c.field).unwrap();
    let r = match reference(&t.ir, &c.query, &c.vars) {
        Ok(r) => r,
        Err(e) => return cx.machinery_error(e),
    };
    if r.valid {
        tally.valid_docs.fetch_add(1, Ordering::Relaxed);
    } else {
        tally.invalid_docs.fetch_add(1, Ordering::Relaxed);
    }
    match &r.out {
        RefOut::Values(vals) => {
            tally.ref_values.fetch_add(1, Ordering::Relaxed);
            // oracle sanity: for a valid document, what the reference hands to a resolver is in the declared type
            if r.valid && r.ill_typed {
                cx.machinery_error(format!("reference coerced the arguments of a valid document to {vals:?}, outside the declared types ({} {})", c.query, J::Object(c.vars.clone())));
            }
        }
        RefOut::Raises(..) => {
            tally.ref_raises.fetch_add(1, Ordering::Relaxed);
        }
    }
    let class_label = c.forms.iter().map(|f| f.0).collect::<Vec<_>>().join("+");
    let document = if r.valid { "valid".to_string() } else { format!("invalid:{}", r.invalid_rules.join(",")) };
    for fl in [Flavour::Static, Flavour::Dynamic] {
        cx.eval();
        let case_json = || json!({"flavour": fl.name(), "field": c.field, "query": c.query, "variables": J::Object(c.vars.clone())});
        let h = agv_engine::h64(&(fl, &c.query, serde_json::to_string(&c.vars).unwrap()));
        let verdict = match execute(t, fl, &c.query, &c.vars) {
            Ok(o) => judge(&t.ir, fdef, &r, fl, &o),
            Err(e) if e.starts_with("machinery") => {
                cx.machinery_error(e);
                continue;
            }
            Err(e) => Verdict::Bad { class: "panic", at: String::new(), received: "-", culprit: None, detail: e },
        };
        let agreed = !matches!(verdict, Verdict::Bad { .. });
        {
            let mut m = tally.matrix.lock().unwrap();
            let cell = m.entry((fl, c.field.clone(), class_label.clone())).or_default();
            if agreed {
                cell.agreed += 1;
            } else {
                cell.disagreed += 1;
            }
        }
        match verdict {
            Verdict::AgreeInvoked => {
                tally.agree_invoked[fl as usize].fetch_add(1, Ordering::Relaxed);
                cx.nontrivial(h);
                cx.sample_with(h, || {
                    let mut j = case_json();
                    if let RefOut::Values(v) = &r.out {
                        j["resolver_received"] = expected_echo(&t.ir, fdef, v, fl);
                    }
                    j
                });
            }
            Verdict::AgreeRejected => {
                tally.agree_rejected.fetch_add(1, Ordering::Relaxed);
            }
            Verdict::AgreeInvalidRefused => {
                tally.invalid_refused.fetch_add(1, Ordering::Relaxed);
            }
            Verdict::Unjudged => {
                tally.unjudged.fetch_add(1, Ordering::Relaxed);
            }
            Verdict::Bad { class, at, received, culprit, detail } => {
                let culprit = if fdef.args.len() == 1 { Some(0) } else { culprit };
                let argument = match culprit {
                    Some(k) => fdef.args[k].name.clone(),
                    None => fdef.args.iter().map(|a| a.name.as_str()).collect::<Vec<_>>().join("+"),
                };
                {
                    let gk = format!("{} | {class} | at {at} | received {received} | document {document} | form {}", fl.name(), form_key(c, culprit));
                    let mut g = tally.groups.lock().unwrap();
                    let e = g.entry(gk).or_insert_with(|| (0, Vec::new(), String::new()));
                    e.0 += 1;
                    if !e.1.contains(&c.field) {
                        e.1.push(c.field.clone());
                        e.1.sort();
                    }
                    let ex = format!("{} {} => {detail}", c.query, J::Object(c.vars.clone()));
                    if e.2.is_empty() || (ex.len(), &ex) < (e.2.len(), &e.2) {
                        e.2 = ex;
                    }
                }
                if let Some(d) = &tally.dump {
                    d.lock().unwrap().insert(
                        json!({"class": class, "flavour": fl.name(), "declaration": decl_text(fdef), "argument": argument, "form": form_key(c, culprit), "document": document, "at": at, "received": received}).to_string(),
                    );
                }
                // reported after the parallel sweep, in case order (keeps the evidence identical from run to run)
                tally.violations.lock().unwrap().push((
                    idx,
                    fl,
                    Violation::new(class, format!("{} {}\n {detail}", c.query, J::Object(c.vars.clone())), case_json())
                        .key("flavour", fl.name())
                        .key("declaration", decl_text(fdef))
                        .key("argument", argument)
                        .key("form", form_key(c, culprit))
                        .key("document", document.clone())
                        .key("at", at)
                        .key("received", received),
                ));
            }
        }
    }
}

fn check_defaults(reference_sdl: &str, impl_sdl: &str) -> Result<(), String> {
    let a = Ir::from_sdl(reference_sdl)?;
    let b = Ir::from_sdl(impl_sdl)?;
    let show = |d: &Option<agv_refgql::ast::Value>| d.as_ref().map(agv_refgql::print::value).unwrap_or_else(|| "-".into());
    for (n, ta) in &a.types {
        let Some(tb) = b.types.get(n) else { continue };
        match (&ta.kind, &tb.kind) {
            (Kind::Object { fields: fa, .. }, Kind::Object { fields: fb, .. }) => {
                for f in fa {
                    let g = fb.iter().find(|g| g.name == f.name).ok_or(format!("{n}.{} missing", f.name))?;
                    for x in &f.args {
                        let y = g.args.iter().find(|y| y.name == x.name).ok_or(format!("{n}.{}.{} missing", f.name, x.name))?;
                        if show(&x.default) != show(&y.default) {
                            return Err(format!("default of {n}.{}({}) differs: reference {} / implementation {}", f.name, x.name, show(&x.default), show(&y.default)));
                        }
                    }
                }
            }
            (Kind::Input { fields: fa, one_of: oa }, Kind::Input { fields: fb, one_of: ob }) => {
                if oa != ob {
                    return Err(format!("@oneOf of {n} differs"));
                }
                for x in fa {
                    let y = fb.iter().find(|y| y.name == x.name).ok_or(format!("{n}.{} missing", x.name))?;
                    if show(&x.default) != show(&y.default) {
                        return Err(format!("default of {n}.{} differs: reference {} / implementation {}", x.name, show(&x.default), show(&y.default)));
                    }
                }
            }
            _ => {}
        }
    }
    Ok(())
}

fn targets() -> Result<Targets, String> {
    let ir = Ir::from_sdl(s3::SDL).map_err(|e| format!("S3 reference SDL: {e}"))?;
    let st = s3::schema();
    agv_common::glue::sdl_equiv(s3::SDL, &st.sdl()).map_err(|e| format!("S3's reference SDL and Schema::sdl() disagree: {e}"))?;
    check_defaults(s3::SDL, &st.sdl()).map_err(|e| format!("S3 static: {e}"))?;
    let dy = dyn_schema(&ir).map_err(|e| format!("dynamic twin of S3 does not build: {e}"))?;
    agv_common::glue::sdl_equiv(s3::SDL, &dy.sdl()).map_err(|e| format!("S3's reference SDL and the dynamic twin's sdl() disagree: {e}"))?;
    check_defaults(s3::SDL, &dy.sdl()).map_err(|e| format!("S3 dynamic: {e}"))?;
    Ok(Targets { ir, st, dy })
}

const PAIR_FIELDS: &[&str] = &["p1", "p2"];

fn run(cx: &Cx) {
    let t = match targets() {
        Ok(t) => t,
        Err(e) => return cx.machinery_error(e),
    };
    let fields: Vec<FieldT> = t.ir.fields_of(&t.ir.query).unwrap().to_vec();
    let mut cases: Vec<Case> = Vec::new();
    let mut per_class: BTreeMap<&'static str, u64> = BTreeMap::new();
    for f in fields.iter().filter(|f| f.args.len() == 1) {
        let ty = &f.args[0].ty;
        for s in top_supplies(ty).iter().chain(nested_supplies(ty).iter()) {
            *per_class.entry(s.class).or_default() += 1;
            cases.push(make_case(f, &[s]));
        }
    }
    let singles = cases.len();
    let mut pairs = 0usize;
    // two-argument fields: full product of the top-level supply forms of both arguments
    // (quick tier: full product on p1, p2 only with both arguments supplied the same way)
    for f in fields.iter().filter(|f| PAIR_FIELDS.contains(&f.name.as_str())) {
        let sa = top_supplies(&f.args[0].ty);
        let sb = top_supplies(&f.args[1].ty);
        if cx.quick() && f.name != "p1" {
            for (a, b) in sa.iter().zip(sb.iter()) {
                cases.push(make_case(f, &[a, b]));
                pairs += 1;
            }
        } else {
            for a in &sa {
                for b in &sb {
                    cases.push(make_case(f, &[a, b]));
                    pairs += 1;
                }
            }
        }
    }
    let tally = Tally {
        matrix: Mutex::new(BTreeMap::new()),
        agree_invoked: [AtomicU64::new(0), AtomicU64::new(0)],
        agree_rejected: AtomicU64::new(0),
        invalid_refused: AtomicU64::new(0),
        unjudged: AtomicU64::new(0),
        valid_docs: AtomicU64::new(0),
        invalid_docs: AtomicU64::new(0),
        ref_values: AtomicU64::new(0),
        ref_raises: AtomicU64::new(0),
        groups: Mutex::new(BTreeMap::new()),
        dump: std::env::var("AGV_C06_DUMP").ok().map(|_| Mutex::new(Default::default())),
        violations: Mutex::new(Vec::new()),
    };
    cases.par_iter().enumerate().for_each(|(i, c)| run_one(cx, &t, i, c, &tally));
    let mut vs = std::mem::take(&mut *tally.violations.lock().unwrap());
    vs.sort_by_key(|(i, fl, _)| (*i, *fl));
    for (_, _, v) in vs {
        cx.violation(v);
    }

    for fl in [Flavour::Static, Flavour::Dynamic] {
        if tally.agree_invoked[fl as usize].load(Ordering::Relaxed) == 0 {
            cx.machinery_error(format!("{}: reference and implementation never agreed on a resolver invocation (vacuous or systematically wrong)", fl.name()));
        }
    }
    if let (Some(d), Ok(path)) = (&tally.dump, std::env::var("AGV_C06_DUMP")) {
        let _ = std::fs::write(path, d.lock().unwrap().iter().cloned().collect::<Vec<_>>().join("\n"));
    }
    let matrix = tally.matrix.lock().unwrap();
    let mut mj = Map::new();
    for ((fl, field, class), cell) in matrix.iter() {
        let d = decl_text(fields.iter().find(|f| &f.name == field).unwrap());
        let e = mj.entry(format!("{} | {d}", fl.name())).or_insert_with(|| json!({}));
        e[class] = json!(format!("{} agreed / {} disagreed", cell.agreed, cell.disagreed));
    }
    cx.extra("matrix_declaration_x_supply", J::Object(mj));
    let groups = tally.groups.lock().unwrap();
    cx.extra("disagreement_groups", J::Object(groups.iter().map(|(k, (n, ds, ex))| (k.clone(), json!({"cases": n, "declarations": ds, "smallest": ex}))).collect()));
    cx.rule(&format!(
        "case = (argument declaration, supply form, variables JSON, flavour). {} single-argument declarations of S3 × complete product of supply forms: omitted; {} literals; `$v` declared as {:?} × runtime {{omitted, {} JSON values incl. null}}; `$v` inside 15 list/object literal templates × the 4 declared forms × runtime menus (3–6 values + omitted) = {singles} cases; plus {pairs} cases on the two-argument fields p1, p2 ({}). Each case runs on the derive-built S3 and on its dynamic twin. Non-trivial = cases in which the reference coercion yields values and the resolver was invoked once with exactly them (distinct by flavour, document, variables).",
        fields.iter().filter(|f| f.args.len() == 1).count(),
        LITS.len(),
        VFORMS,
        json_menu().len(),
        if cx.quick() { "full product of the top-level supply forms of both arguments on p1; on p2 both arguments supplied by the same form" } else { "full product of the top-level supply forms of both arguments" }
    ));
    cx.exhaustive(true);
    cx.extra(
        "declarations",
        J::Array(fields.iter().map(|f| json!({"graphql": decl_text(f), "rust": s3::RUST_TYPES.iter().find(|(n, _)| *n == f.name).map(|x| x.1).unwrap_or("?")})).collect()),
    );
    cx.extra("cases", json!(cases.len()));
    cx.extra("cases_single_argument", json!(singles));
    cx.extra("cases_argument_pairs", json!(pairs));
    cx.extra("supply_forms_per_declaration", json!(per_class.iter().map(|(k, v)| (k.to_string(), json!(v / fields.iter().filter(|f| f.args.len() == 1).count() as u64))).collect::<Map<_, _>>()));
    cx.extra("documents_valid_by_reference_validator", json!(tally.valid_docs.load(Ordering::Relaxed)));
    cx.extra("documents_invalid_by_reference_validator", json!(tally.invalid_docs.load(Ordering::Relaxed)));
    cx.extra("reference_yields_values", json!(tally.ref_values.load(Ordering::Relaxed)));
    cx.extra("reference_raises", json!(tally.ref_raises.load(Ordering::Relaxed)));
    cx.extra("agreed_invoked_with_reference_values_static", json!(tally.agree_invoked[0].load(Ordering::Relaxed)));
    cx.extra("agreed_invoked_with_reference_values_dynamic", json!(tally.agree_invoked[1].load(Ordering::Relaxed)));
    cx.extra("agreed_failed_without_invocation", json!(tally.agree_rejected.load(Ordering::Relaxed)));
    cx.extra("invalid_document_refused_without_invocation", json!(tally.invalid_refused.load(Ordering::Relaxed)));
    cx.extra("invalid_document_executed_where_spec_defines_no_value_unjudged", json!(tally.unjudged.load(Ordering::Relaxed)));
    cx.assume("the reference coercion (agv-refgql coerce.rs, unit-tested on the spec's §3.10/§3.11 tables) is the oracle; @oneOf follows the OneOf Input Objects RFC as merged into the specification draft (the October 2021 edition has no @oneOf)");
    cx.assume("an omitted variable inside a list literal coerces to a null item (graphql-js valueFromAST; the October 2021 text is silent), inside an object literal to an absent field (§3.10)");
    cx.assume("for documents the reference validator rejects, a failed request without invocation agrees with the statement (that is what strict validation must do); invocation is accepted only with exactly the reference's values. Where the coercion algorithms, run on an invalid document, give a value outside the declared type (they presume validation) and the resolver received some value of the declared type, the case is counted as unjudged: whether that document may run is C09's property");
    cx.assume("the dynamic resolver reads its arguments through ObjectAccessor/ValueAccessor by declared kind (get/try_get, i64, string, enum_name, list, object, is_null); enum_name accepting a string is the crate's documented representation of enums in variables");
}

fn replay(case: &J) -> String {
    let t = match targets() {
        Ok(t) => t,
        Err(e) => return e,
    };
    let q = case["query"].as_str().unwrap_or("");
    let vars = case["variables"].as_object().cloned().unwrap_or_default();
    let fl = if case["flavour"] == "dynamic" { Flavour::Dynamic } else { Flavour::Static };
    let r = match reference(&t.ir, q, &vars) {
        Ok(r) => r,
        Err(e) => return e,
    };
    let fdef = t.ir.field(&t.ir.query, case["field"].as_str().unwrap_or("")).unwrap();
    let exp = match &r.out {
        RefOut::Values(v) => format!("resolver invoked once with {}", expected_echo(&t.ir, fdef, v, fl)),
        RefOut::Raises(_, w, _) => format!("request fails, resolver not invoked ({w})"),
    };
    let got = match execute(&t, fl, q, &vars) {
        Ok(o) => {
            let v = match judge(&t.ir, fdef, &r, fl, &o) {
                Verdict::Bad { class, at, received, .. } => format!("DISAGREES class={class} at={at} received={received}"),
                Verdict::Unjudged => "not judged (invalid document for which the specification defines no coerced value; the resolver received a value of the declared type)".into(),
                _ => "agrees".into(),
            };
            format!("errors {:?}, invocations {} → {v}", o.errors, serde_json::to_string(&o.log).unwrap())
        }
        Err(e) => e,
    };
    format!("\n {} flavour, {q} variables {}\n document {} by the reference validator {:?}\n expected: {exp}\n got: {got}", fl.name(), J::Object(vars.clone()), if r.valid { "valid" } else { "invalid" }, r.invalid_rules)
}

fn main() {
    agv_engine::driver::main("C06", "exploration", run, Some(replay))
}
