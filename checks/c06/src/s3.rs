//! S3 "args": the derive-built harness schema of C06. Every Query field takes the
//! argument(s) of one declaration and echoes the Rust value(s) it received as
//! canonical JSON into the invocation log carried in request data.
//!
//! Canonical JSON of a received value: `MaybeUndefined` → the string "undefined" /
//! null / value; `Option` → null / value; enums → their GraphQL names; input objects →
//! objects listing every declared field in declaration order (an absent optional field
//! therefore shows as null or "undefined" according to its Rust type); @oneOf objects →
//! the one field that was given.

use async_graphql::*;
use serde_json::{json, Value as J};
use std::sync::{Arc, Mutex};

/// The reference's description of S3 (checked against `Schema::sdl()` at start-up,
/// types through `agv_common::glue::sdl_equiv`, defaults by this crate).
pub const SDL: &str = r#"
type Query {
  int(a: Int): Int!
  intnn(a: Int!): Int!
  intd(a: Int! = 5): Int!
  intdo(a: Int = 5): Int!
  str(a: String): Int!
  en(a: E): Int!
  li(a: [Int]): Int!
  linn(a: [Int!]!): Int!
  lili(a: [[Int]]): Int!
  inp(a: In): Int!
  inpnn(a: In!): Int!
  inpd(a: In! = {r: 3, d: 7, n: null, m: null, sub: null}): Int!
  linp(a: [In!]): Int!
  one(a: One!): Int!
  oneo(a: One): Int!
  mu(a: Int): Int!
  muin(a: In): Int!
  p1(a: Int! = 5, b: Int): Int!
  p2(a: [Int], b: In): Int!
}
enum E { X Y }
input In { r: Int!  d: Int = 7  n: Int  m: Int  sub: In2 }
input In2 { x: Int! = 1  y: [Int] }
input One @oneOf { a: Int  b: String }
"#;

/// (field, argument) sites whose Rust type is `MaybeUndefined` (absent ≠ null);
/// every other nullable site is an `Option` (absent = null). Input-object fields are
/// written `Type.field`.
pub const MAYBE_UNDEFINED_SITES: &[&str] = &["Query.mu.a", "Query.muin.a", "Query.p1.b", "In.m"];

/// Rust spelling of each declaration (for reports).
pub const RUST_TYPES: &[(&str, &str)] = &[
    ("int", "Option<i32>"),
    ("intnn", "i32"),
    ("intd", "#[graphql(default = 5)] i32"),
    ("intdo", "#[graphql(default = 5)] Option<i32>"),
    ("str", "Option<String>"),
    ("en", "Option<E>"),
    ("li", "Option<Vec<Option<i32>>>"),
    ("linn", "Vec<i32>"),
    ("lili", "Option<Vec<Option<Vec<Option<i32>>>>>"),
    ("inp", "Option<In>"),
    ("inpnn", "In"),
    ("inpd", "#[graphql(default_with = ..)] In"),
    ("linp", "Option<Vec<In>>"),
    ("one", "One (OneofObject)"),
    ("oneo", "Option<One>"),
    ("mu", "MaybeUndefined<i32>"),
    ("muin", "MaybeUndefined<In>"),
    ("p1", "(#[graphql(default = 5)] i32, MaybeUndefined<i32>)"),
    ("p2", "(Option<Vec<Option<i32>>>, Option<In>)"),
];

#[derive(Default)]
pub struct Log(pub Mutex<Vec<(String, J)>>);
impl Log {
    pub fn push(&self, field: &str, args: J) {
        self.0.lock().unwrap().push((field.to_string(), args));
    }
    pub fn take(&self) -> Vec<(String, J)> {
        std::mem::take(&mut self.0.lock().unwrap())
    }
}
pub type L = Arc<Log>;

#[derive(Enum, Copy, Clone, Eq, PartialEq)]
pub enum E {
    X,
    Y,
}

#[derive(InputObject)]
pub struct In2 {
    #[graphql(default = 1)]
    x: i32,
    y: Option<Vec<Option<i32>>>,
}

#[derive(InputObject)]
pub struct In {
    r: i32,
    #[graphql(default = 7)]
    d: Option<i32>,
    n: Option<i32>,
    m: MaybeUndefined<i32>,
    sub: Option<In2>,
}

#[derive(OneofObject)]
pub enum One {
    A(i32),
    B(String),
}

fn in_default() -> In {
    In { r: 3, d: Some(7), n: None, m: MaybeUndefined::Null, sub: None }
}

trait Echo {
    fn echo(&self) -> J;
}
impl Echo for i32 {
    fn echo(&self) -> J {
        json!(*self)
    }
}
impl Echo for String {
    fn echo(&self) -> J {
        json!(self)
    }
}
impl Echo for E {
    fn echo(&self) -> J {
        json!(match self {
            E::X => "X",
            E::Y => "Y",
        })
    }
}
impl<T: Echo> Echo for Option<T> {
    fn echo(&self) -> J {
        match self {
            Some(v) => v.echo(),
            None => J::Null,
        }
    }
}
impl<T: Echo> Echo for Vec<T> {
    fn echo(&self) -> J {
        J::Array(self.iter().map(|x| x.echo()).collect())
    }
}
impl<T: Echo> Echo for MaybeUndefined<T> {
    fn echo(&self) -> J {
        match self {
            MaybeUndefined::Undefined => json!("undefined"),
            MaybeUndefined::Null => J::Null,
            MaybeUndefined::Value(v) => v.echo(),
        }
    }
}
impl Echo for In2 {
    fn echo(&self) -> J {
        json!({"x": self.x.echo(), "y": self.y.echo()})
    }
}
impl Echo for In {
    fn echo(&self) -> J {
        json!({"r": self.r.echo(), "d": self.d.echo(), "n": self.n.echo(), "m": self.m.echo(), "sub": self.sub.echo()})
    }
}
impl Echo for One {
    fn echo(&self) -> J {
        match self {
            One::A(v) => json!({"a": v.echo()}),
            One::B(v) => json!({"b": v.echo()}),
        }
    }
}

fn log1(ctx: &Context<'_>, field: &str, a: &dyn Echo) -> i32 {
    ctx.data_unchecked::<L>().push(field, json!({"a": a.echo()}));
    1
}
fn log2(ctx: &Context<'_>, field: &str, a: &dyn Echo, b: &dyn Echo) -> i32 {
    ctx.data_unchecked::<L>().push(field, json!({"a": a.echo(), "b": b.echo()}));
    1
}

pub struct Query;

#[Object]
impl Query {
    async fn int(&self, ctx: &Context<'_>, a: Option<i32>) -> i32 {
        log1(ctx, "int", &a)
    }
    async fn intnn(&self, ctx: &Context<'_>, a: i32) -> i32 {
        log1(ctx, "intnn", &a)
    }
    async fn intd(&self, ctx: &Context<'_>, #[graphql(default = 5)] a: i32) -> i32 {
        log1(ctx, "intd", &a)
    }
    async fn intdo(&self, ctx: &Context<'_>, #[graphql(default = 5)] a: Option<i32>) -> i32 {
        log1(ctx, "intdo", &a)
    }
    async fn str(&self, ctx: &Context<'_>, a: Option<String>) -> i32 {
        log1(ctx, "str", &a)
    }
    async fn en(&self, ctx: &Context<'_>, a: Option<E>) -> i32 {
        log1(ctx, "en", &a)
    }
    async fn li(&self, ctx: &Context<'_>, a: Option<Vec<Option<i32>>>) -> i32 {
        log1(ctx, "li", &a)
    }
    async fn linn(&self, ctx: &Context<'_>, a: Vec<i32>) -> i32 {
        log1(ctx, "linn", &a)
    }
    async fn lili(&self, ctx: &Context<'_>, a: Option<Vec<Option<Vec<Option<i32>>>>>) -> i32 {
        log1(ctx, "lili", &a)
    }
    async fn inp(&self, ctx: &Context<'_>, a: Option<In>) -> i32 {
        log1(ctx, "inp", &a)
    }
    async fn inpnn(&self, ctx: &Context<'_>, a: In) -> i32 {
        log1(ctx, "inpnn", &a)
    }
    async fn inpd(&self, ctx: &Context<'_>, #[graphql(default_with = "in_default()")] a: In) -> i32 {
        log1(ctx, "inpd", &a)
    }
    async fn linp(&self, ctx: &Context<'_>, a: Option<Vec<In>>) -> i32 {
        log1(ctx, "linp", &a)
    }
    async fn one(&self, ctx: &Context<'_>, a: One) -> i32 {
        log1(ctx, "one", &a)
    }
    async fn oneo(&self, ctx: &Context<'_>, a: Option<One>) -> i32 {
        log1(ctx, "oneo", &a)
    }
    async fn mu(&self, ctx: &Context<'_>, a: MaybeUndefined<i32>) -> i32 {
        log1(ctx, "mu", &a)
    }
    async fn muin(&self, ctx: &Context<'_>, a: MaybeUndefined<In>) -> i32 {
        log1(ctx, "muin", &a)
    }
    async fn p1(&self, ctx: &Context<'_>, #[graphql(default = 5)] a: i32, b: MaybeUndefined<i32>) -> i32 {
        log2(ctx, "p1", &a, &b)
    }
    async fn p2(&self, ctx: &Context<'_>, a: Option<Vec<Option<i32>>>, b: Option<In>) -> i32 {
        log2(ctx, "p2", &a, &b)
    }
}

pub type S3 = Schema<Query, EmptyMutation, EmptySubscription>;

pub fn schema() -> S3 {
    Schema::build(Query, EmptyMutation, EmptySubscription).finish()
}
