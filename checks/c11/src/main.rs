//! C11 — request checking work is polynomial in the document size.
//!
//! Seam: `Schema::execute` on a small derive schema with all four limits
//! configured, driven by `agv_engine::sched::drive` (resolvers are trivial).
//! Work is measured deterministically: hook H1 (`async_graphql::verif_hooks`,
//! compiled only under `--cfg async_graphql_verif`) counts one unit per
//! selection visited in `check_recursive_depth`, `check_max_directives`, the
//! validation visitor (`visit_selection`, split by visit mode), the conflict
//! finder of OverlappingFieldsCanBeMerged, `visit_input_value`, and one unit
//! per node expanded by the spread-following rules. The pest parser is metered
//! with `pest::set_call_limit`: the smallest call limit under which the
//! document still parses.
//!
//! Space: (i) every fragment-spread DAG with ≤ K fragments and ≤ 2 spreads per
//! body (complete, mixed-radix enumeration); (ii) parametric families indexed
//! by n (see `families`). Every element runs under three configurations.
//!
//! Oracle (fixed in advance): every walker count ≤ 8·s² + 64 and parser calls
//! ≤ 64·s·(1 + log2 s), s = AST nodes of the document. Wall time is recorded
//! and decides nothing.

use agv_engine::record::{Cx, Violation};
use agv_engine::sched::drive;
use async_graphql::parser::types::{Directive, ExecutableDocument, Selection, SelectionSet};
use async_graphql::{verif_hooks as hooks, EmptyMutation, EmptySubscription, InputObject, Json, Object, Positioned, Request, Schema, ValidationMode};
use async_graphql_value::{ConstValue, Value};
use rayon::prelude::*;
use serde_json::{json, Value as J};
use std::collections::{BTreeMap, BTreeSet};
use std::num::NonZeroUsize;

// ---------------------------------------------------------------------------------------------
// harness schema

#[derive(InputObject)]
struct In {
    k: Option<Box<In>>,
    l: Option<Vec<In>>,
    v: Option<i32>,
}

struct Node;

#[Object]
impl Node {
    async fn a(&self) -> i32 {
        1
    }
    async fn b(&self) -> i32 {
        2
    }
    async fn o(&self) -> Node {
        Node
    }
    #[graphql(complexity = "2 * child_complexity + 1")]
    async fn c(&self) -> Node {
        Node
    }
    async fn arg(&self, x: Option<i32>) -> i32 {
        x.unwrap_or(0)
    }
    async fn j(&self, v: Option<Json<J>>) -> i32 {
        v.is_some() as i32
    }
    async fn inp(&self, v: Option<In>) -> i32 {
        v.map(|i| i.v.unwrap_or(0) + i.k.is_some() as i32 + i.l.map(|l| l.len() as i32).unwrap_or(0)).unwrap_or(0)
    }
    #[allow(clippy::too_many_arguments)]
    async fn m(
        &self,
        a1: Option<i32>,
        a2: Option<i32>,
        a3: Option<i32>,
        a4: Option<i32>,
        a5: Option<i32>,
        a6: Option<i32>,
        a7: Option<i32>,
        a8: Option<i32>,
        a9: Option<i32>,
        a10: Option<i32>,
        a11: Option<i32>,
        a12: Option<i32>,
        a13: Option<i32>,
        a14: Option<i32>,
        a15: Option<i32>,
        a16: Option<i32>,
        a17: Option<i32>,
        a18: Option<i32>,
        a19: Option<i32>,
        a20: Option<i32>,
        a21: Option<i32>,
        a22: Option<i32>,
        a23: Option<i32>,
        a24: Option<i32>,
    ) -> i32 {
        [a1, a2, a3, a4, a5, a6, a7, a8, a9, a10, a11, a12, a13, a14, a15, a16, a17, a18, a19, a20, a21, a22, a23, a24].iter().flatten().sum()
    }
}

type S = Schema<Node, EmptyMutation, EmptySubscription>;

#[derive(Clone, Copy)]
struct Config {
    name: &'static str,
    fast: bool,
    recursive: usize,
    directives: usize,
    depth: usize,
    complexity: usize,
}

/// loose: nothing in the space is rejected by a limit, so every walker runs to the end and the
/// request executes. tight: realistic small limits, so the expensive documents are *rejected* —
/// after the work has been done. fast: `ValidationMode::Fast` (a single Inline-mode pass).
const CONFIGS: [Config; 3] = [
    Config { name: "strict-loose", fast: false, recursive: 256, directives: 64, depth: 1024, complexity: usize::MAX >> 2 },
    Config { name: "strict-tight", fast: false, recursive: 40, directives: 4, depth: 16, complexity: 100 },
    Config { name: "fast-loose", fast: true, recursive: 256, directives: 64, depth: 1024, complexity: usize::MAX >> 2 },
];

fn build(c: &Config) -> S {
    Schema::build(Node, EmptyMutation, EmptySubscription)
        .limit_recursive_depth(c.recursive)
        .limit_directives(c.directives)
        .limit_depth(c.depth)
        .limit_complexity(c.complexity)
        .validation_mode(if c.fast { ValidationMode::Fast } else { ValidationMode::Strict })
        .finish()
}

// ---------------------------------------------------------------------------------------------
// document size s

fn value_nodes(v: &Value) -> u64 {
    1 + match v {
        Value::List(l) => l.iter().map(value_nodes).sum(),
        Value::Object(o) => o.values().map(value_nodes).sum(),
        _ => 0,
    }
}
fn const_nodes(v: &ConstValue) -> u64 {
    1 + match v {
        ConstValue::List(l) => l.iter().map(const_nodes).sum(),
        ConstValue::Object(o) => o.values().map(const_nodes).sum(),
        _ => 0,
    }
}
fn directive_nodes(ds: &[Positioned<Directive>]) -> u64 {
    ds.iter().map(|d| 1 + d.node.arguments.iter().map(|(_, v)| 1 + value_nodes(&v.node)).sum::<u64>()).sum()
}
fn selset_nodes(ss: &SelectionSet) -> u64 {
    ss.items
        .iter()
        .map(|sel| {
            1 + match &sel.node {
                Selection::Field(f) => f.node.arguments.iter().map(|(_, v)| 1 + value_nodes(&v.node)).sum::<u64>() + directive_nodes(&f.node.directives) + selset_nodes(&f.node.selection_set.node),
                Selection::FragmentSpread(s) => directive_nodes(&s.node.directives),
                Selection::InlineFragment(i) => directive_nodes(&i.node.directives) + selset_nodes(&i.node.selection_set.node),
            }
        })
        .sum()
}
/// s = definitions + variable definitions (+ the nodes of their default values) + directives +
/// selections (fields, spreads, inline fragments, every depth) + arguments + value nodes.
fn doc_size(doc: &ExecutableDocument) -> u64 {
    let mut s = 0;
    for (_, op) in doc.operations.iter() {
        s += 1;
        for vd in &op.node.variable_definitions {
            s += 1 + directive_nodes(&vd.node.directives) + vd.node.default_value.as_ref().map(|v| const_nodes(&v.node)).unwrap_or(0);
        }
        s += directive_nodes(&op.node.directives) + selset_nodes(&op.node.selection_set.node);
    }
    for f in doc.fragments.values() {
        s += 1 + directive_nodes(&f.node.directives) + selset_nodes(&f.node.selection_set.node);
    }
    s
}

fn walker_bound(s: u64) -> u64 {
    8 * s * s + 64
}
fn parser_bound(s: u64) -> u64 {
    (64.0 * s as f64 * (1.0 + (s.max(1) as f64).log2())).floor() as u64
}

// ---------------------------------------------------------------------------------------------
// measuring one execution

/// Last phase of `prepare_request` in which a site can be bumped. When a walker is cut by the
/// budget, only sites whose last phase is strictly earlier are complete (and therefore
/// independent of HashMap iteration order); the others are dropped for that element.
fn last_phase(site: &str, fast: bool) -> u8 {
    match site {
        "check_recursive_depth" => 0,
        "check_max_directives" => 1,
        "visit_selection/inline" | "visit_input_value" if !fast => 3,
        _ => 2,
    }
}

/// Operation name given with documents that hold one anonymous operation: parsing, both limit
/// walkers and the whole validation run exactly as without a name (no rule looks at the name of
/// an anonymous operation), then `prepare_request` answers "Unknown operation named …" instead of
/// executing. Execution is outside the statement and is itself exponential on the fan-out
/// families (2^n resolver calls), which would only burn time.
const NO_SUCH_OPERATION: &str = "AgvNoSuchOperation";

struct Meas {
    counts: BTreeMap<String, u64>,
    /// (site, count reached) when the budget cut the run
    cut: Option<(String, u64)>,
    outcome: String,
    wall_us: u64,
}

fn measure(schema: &S, cfg: &Config, doc: &str, op: Option<&str>, budget: u64) -> Result<Meas, String> {
    hooks::reset();
    hooks::set_budget(Some(budget));
    let mut req = Request::new(doc);
    if let Some(op) = op {
        req = req.operation_name(op);
    }
    let t = std::time::Instant::now();
    let r = agv_engine::catch_quiet(|| drive(schema.execute(req)));
    let wall_us = t.elapsed().as_micros() as u64;
    hooks::set_budget(None);
    let snap = hooks::snapshot();
    hooks::reset();
    let mut counts: BTreeMap<String, u64> = snap.iter().map(|(k, v)| (k.to_string(), *v)).collect();
    match r {
        Ok(Some(resp)) => {
            let outcome = match resp.errors.first() {
                None => "executed".to_string(),
                Some(e) if e.message.contains(NO_SUCH_OPERATION) => "checked".to_string(),
                Some(e) => format!("rejected: {}", e.message.chars().take(60).collect::<String>()),
            };
            Ok(Meas { counts, cut: None, outcome, wall_us })
        }
        Ok(None) => Err("execute parked although no resolver awaits anything".into()),
        Err(p) if p.starts_with(hooks::BUDGET_EXCEEDED) => {
            let site = p.split("site=").nth(1).and_then(|r| r.split(' ').next()).unwrap_or("?").to_string();
            let reached = counts.get(&site).copied().unwrap_or(0);
            let ph = last_phase(&site, cfg.fast);
            counts.retain(|k, _| last_phase(k, cfg.fast) < ph);
            Ok(Meas { counts, cut: Some((site, reached)), outcome: "budget".into(), wall_us })
        }
        Err(p) => Ok(Meas { counts: BTreeMap::new(), cut: None, outcome: format!("panic: {p}"), wall_us }),
    }
}

// ---------------------------------------------------------------------------------------------
// parser meter

fn parses_with_limit(doc: &str, limit: u64) -> bool {
    pest::set_call_limit(NonZeroUsize::new(limit.max(1) as usize));
    let ok = agv_engine::catch_quiet(|| async_graphql_parser::parse_query(doc).is_ok()).unwrap_or(false);
    pest::set_call_limit(None);
    ok
}

/// Smallest pest call limit under which `doc` parses (`None`: not even under `cap`). Serial only:
/// the limit is a process-wide static.
fn parser_calls(doc: &str, cap: u64) -> Option<u64> {
    if !parses_with_limit(doc, cap) {
        return None;
    }
    let (mut lo, mut hi) = (0u64, cap); // invariant: fails at lo (or lo = 0), parses at hi
    while hi - lo > 1 {
        let mid = lo + (hi - lo) / 2;
        if parses_with_limit(doc, mid) {
            hi = mid;
        } else {
            lo = mid;
        }
    }
    Some(hi)
}

// ---------------------------------------------------------------------------------------------
// part (ii): parametric families

struct Family {
    name: &'static str,
    sizes: Vec<u32>,
    gen: Box<dyn Fn(u32) -> (String, Option<String>) + Sync + Send>,
}

fn chain(n: u32, f: usize, nested: bool) -> String {
    let mut d = String::from("query { ...F1 }\n");
    for i in 1..=n {
        if i == n {
            d += &format!("fragment F{i} on Node {{ a }}\n");
        } else {
            let spreads = format!("...F{} ", i + 1).repeat(f);
            if nested {
                d += &format!("fragment F{i} on Node {{ o {{ {spreads}}} }}\n");
            } else {
                d += &format!("fragment F{i} on Node {{ a {spreads}}}\n");
            }
        }
    }
    d
}

fn nest(open: &str, leaf: &str, close: &str, d: u32) -> String {
    format!("{}{}{}", open.repeat(d as usize), leaf, close.repeat(d as usize))
}

fn deep_sizes(max: u32) -> Vec<u32> {
    let mut v: Vec<u32> = (1..=max.min(24)).collect();
    v.extend([32, 40, 48, 56, 60, 62, 63, 64, 65]);
    v
}

fn families(max_n: u32) -> Vec<Family> {
    let lin: Vec<u32> = (1..=max_n).collect();
    let to24: Vec<u32> = (1..=24).collect();
    let mut fams = vec![
        Family { name: "chain-f1", sizes: lin.clone(), gen: Box::new(|n| (chain(n, 1, false), None)) },
        Family { name: "chain-f2", sizes: lin.clone(), gen: Box::new(|n| (chain(n, 2, false), None)) },
        Family { name: "chain-f3", sizes: lin.clone(), gen: Box::new(|n| (chain(n, 3, false), None)) },
        Family { name: "nested-chain-f1", sizes: lin.clone(), gen: Box::new(|n| (chain(n, 1, true), None)) },
        Family { name: "nested-chain-f2", sizes: lin.clone(), gen: Box::new(|n| (chain(n, 2, true), None)) },
        Family {
            name: "diamond",
            sizes: lin.clone(),
            gen: Box::new(|n| {
                let mut d = String::from("query { ...A1 ...B1 }\n");
                for i in 1..=n {
                    let next = if i == n { String::new() } else { format!("...A{} ...B{} ", i + 1, i + 1) };
                    d += &format!("fragment A{i} on Node {{ a {next}}}\nfragment B{i} on Node {{ b {next}}}\n");
                }
                (d, None)
            }),
        },
        Family { name: "field-copies", sizes: lin.clone(), gen: Box::new(|n| (format!("{{ {}}}", "a ".repeat(16 * n as usize)), None)) },
        Family {
            name: "aliases-x-fragments",
            sizes: lin.clone(),
            gen: Box::new(|n| {
                let mut d = format!("query {{ {}}}\n", (1..=n).map(|i| format!("...F{i} ")).collect::<String>());
                let body: String = (1..=n).map(|j| format!("x{j}: a ")).collect();
                for i in 1..=n {
                    d += &format!("fragment F{i} on Node {{ {body}}}\n");
                }
                (d, None)
            }),
        },
        Family { name: "inline-nesting", sizes: deep_sizes(max_n), gen: Box::new(|d| (format!("{{ {} }}", nest("... on Node { ", "a", " }", d)), None)) },
        Family { name: "field-nesting", sizes: deep_sizes(max_n), gen: Box::new(|d| (format!("{{ {} }}", nest("o { ", "a", " }", d)), None)) },
        Family { name: "complexity-nesting", sizes: deep_sizes(max_n), gen: Box::new(|d| (format!("{{ {} }}", nest("c { ", "a", " }", d)), None)) },
        Family {
            name: "operations",
            sizes: lin.clone(),
            gen: Box::new(|n| ((1..=n).map(|i| format!("query Q{i} {{ a }}\n")).collect(), Some("Q1".into()))),
        },
        Family {
            name: "operations-x-chain",
            sizes: lin.clone(),
            gen: Box::new(|n| {
                let ops: String = (1..=n).map(|i| format!("query Q{i} {{ ...F1 }}\n")).collect();
                let c = chain(n, 1, false);
                (format!("{ops}{}", c.split_once('\n').unwrap().1), Some("Q1".into()))
            }),
        },
        Family { name: "list-nesting", sizes: lin.clone(), gen: Box::new(|n| (format!("{{ j(v: {}) }}", nest("[", "1", "]", n)), None)) },
        Family { name: "object-nesting", sizes: lin.clone(), gen: Box::new(|n| (format!("{{ j(v: {}) }}", nest("{k: ", "1", "}", n)), None)) },
        Family { name: "input-object-nesting", sizes: lin.clone(), gen: Box::new(|n| (format!("{{ inp(v: {}) }}", nest("{k: ", "{v: 1}", "}", n)), None)) },
        Family { name: "input-list-nesting", sizes: lin.clone(), gen: Box::new(|n| (format!("{{ inp(v: {}) }}", nest("{l: [", "{v: 1}", "]}", n)), None)) },
        Family { name: "list-width", sizes: lin.clone(), gen: Box::new(|n| (format!("{{ j(v: [{}]) }}", "1 ".repeat(16 * n as usize)), None)) },
        Family {
            name: "object-width",
            sizes: lin.clone(),
            gen: Box::new(|n| (format!("{{ j(v: {{{}}}) }}", (1..=16 * n).map(|i| format!("k{i}: 1 ")).collect::<String>()), None)),
        },
        Family {
            name: "arguments",
            sizes: to24.clone(),
            gen: Box::new(|n| (format!("{{ m({}) }}", (1..=n).map(|i| format!("a{i}: {i} ")).collect::<String>()), None)),
        },
        Family {
            name: "arguments-x-copies",
            sizes: to24.clone(),
            gen: Box::new(|n| {
                let call = format!("m({}) ", (1..=n).map(|i| format!("a{i}: {i} ")).collect::<String>());
                (format!("{{ {}}}", call.repeat(n as usize)), None)
            }),
        },
        Family {
            name: "overlap-wide",
            sizes: lin.clone(),
            gen: Box::new(|n| {
                let inner = format!("o {{ {}}} ", "a ".repeat(n as usize));
                (format!("{{ {}}}", inner.repeat(n as usize)), None)
            }),
        },
        Family {
            name: "overlap-nested",
            sizes: lin.clone(),
            gen: Box::new(|n| {
                let row = "a ".repeat(n as usize);
                (format!("{{ {} }}", nest(&format!("{row}o {{ "), &row, "}", n)), None)
            }),
        },
        Family {
            name: "directives",
            sizes: lin.clone(),
            gen: Box::new(|n| (format!("{{ {}}}", "a @skip(if: false) @include(if: true) ".repeat(n as usize)), None)),
        },
        Family {
            name: "variables-x-chain",
            sizes: lin.clone(),
            gen: Box::new(|n| {
                let vars: String = (1..=n).map(|i| format!("$v{i}: Int ")).collect();
                let mut d = format!("query Q({vars}) {{ ...F1 }}\n");
                for i in 1..=n {
                    let next = if i == n { String::new() } else { format!("...F{} ", i + 1) };
                    d += &format!("fragment F{i} on Node {{ x{i}: arg(x: $v{i}) {next}}}\n");
                }
                (d, None)
            }),
        },
    ];
    // pattern chains: every fragment spreads its successor once per letter of the pattern, `s` = directly in its
    // body, `d` = one level deeper (inside `o { }`); all patterns of length 1..=5. A walker that memoises per
    // fragment ("walked", "walked at depth d") must stay polynomial whatever the mix and order of depths.
    for len in 1..=5u32 {
        for bits in 0..(1u32 << len) {
            let pat: String = (0..len).map(|i| if bits >> i & 1 == 1 { 'd' } else { 's' }).collect();
            let name: &'static str = Box::leak(format!("pattern-chain/{pat}").into_boxed_str());
            fams.push(Family {
                name,
                sizes: lin.clone(),
                gen: Box::new(move |n| {
                    let mut d = String::from("query { ...F1 }\n");
                    for i in 1..=n {
                        if i == n {
                            d += &format!("fragment F{i} on Node {{ a }}\n");
                        } else {
                            let body: String = pat.chars().map(|c| if c == 'd' { format!("o {{ ...F{} }} ", i + 1) } else { format!("...F{} ", i + 1) }).collect();
                            d += &format!("fragment F{i} on Node {{ {body}}}\n");
                        }
                    }
                    (d, None)
                }),
            });
        }
    }
    fams
}

// ---------------------------------------------------------------------------------------------
// part (i): all fragment-spread DAGs

/// Multisets of size ≤ 2 over lo..=hi (spread targets of one body).
fn multisets(lo: usize, hi: usize) -> Vec<Vec<usize>> {
    let mut v = vec![vec![]];
    for x in lo..=hi {
        v.push(vec![x]);
    }
    for x in lo..=hi {
        for y in x..=hi {
            v.push(vec![x, y]);
        }
    }
    v
}

struct DagSpace {
    k: usize,
    /// choices[0] = operation body, choices[i] = body of fragment i (spreads only to later fragments)
    choices: Vec<Vec<Vec<usize>>>,
    total: u64,
}

impl DagSpace {
    fn new(k: usize) -> DagSpace {
        let mut choices = vec![multisets(1, k)];
        for i in 1..=k {
            choices.push(multisets(i + 1, k));
        }
        let total = choices.iter().map(|c| c.len() as u64).product();
        DagSpace { k, choices, total }
    }
    fn decode(&self, mut idx: u64) -> Vec<&Vec<usize>> {
        self.choices
            .iter()
            .map(|c| {
                let r = (idx % c.len() as u64) as usize;
                idx /= c.len() as u64;
                &c[r]
            })
            .collect()
    }
    /// s of document `idx`, from the generator alone: 1 operation + k fragments + one `a` per body + the spreads.
    fn size(&self, idx: u64) -> u64 {
        let bodies = self.decode(idx);
        1 + self.k as u64 + bodies.iter().map(|b| 1 + b.len() as u64).sum::<u64>()
    }
    fn doc(&self, idx: u64) -> (String, u64) {
        let bodies = self.decode(idx);
        let spreads = |b: &Vec<usize>| b.iter().map(|t| format!("...F{t} ")).collect::<String>();
        let mut d = format!("query {{ a {}}}\n", spreads(bodies[0]));
        let mut s = 1 + self.k as u64;
        for (i, b) in bodies.iter().enumerate() {
            s += 1 + b.len() as u64;
            if i > 0 {
                d += &format!("fragment F{i} on Node {{ a {}}}\n", spreads(b));
            }
        }
        (d, s)
    }
}

// ---------------------------------------------------------------------------------------------
// judging

#[derive(Clone)]
struct Row {
    family: String,
    n: u32,
    config: &'static str,
    s: u64,
    site: String,
    count: u64,
    cut: bool,
}

struct Judged {
    rows: Vec<Row>,
    nontrivial: bool,
    panic: Option<String>,
}

fn judge_rows(family: &str, n: u32, cfg: &Config, s: u64, m: &Meas) -> Judged {
    let mut rows: Vec<Row> = m.counts.iter().map(|(site, c)| Row { family: family.into(), n, config: cfg.name, s, site: site.clone(), count: *c, cut: false }).collect();
    if let Some((site, reached)) = &m.cut {
        rows.push(Row { family: family.into(), n, config: cfg.name, s, site: site.clone(), count: *reached, cut: true });
    }
    let walked = |k: &str| m.counts.get(k).copied().unwrap_or(0) > 0;
    let nontrivial = m.cut.is_none() && walked("check_recursive_depth") && walked("check_max_directives") && walked("visit_selection/inline");
    Judged { rows, nontrivial, panic: m.outcome.strip_prefix("panic: ").map(|s| s.to_string()) }
}

fn budget_for(base: u64, s: u64) -> u64 {
    base.max(walker_bound(s) + 1)
}

fn ratio(a: u64, b: u64) -> String {
    if a == 0 {
        "-".into()
    } else {
        format!("{:.2}", b as f64 / a as f64)
    }
}

pub fn run(cx: &Cx) {
    let thorough = !cx.quick();
    let k_max = if thorough { 6 } else { 5 };
    let max_n: u32 = if thorough { 32 } else { 24 };
    let base_budget: u64 = if thorough { 1 << 22 } else { 1 << 20 };

    cx.rule(
        "element = (document, configuration). Documents: (i) every fragment-spread DAG with ≤ K fragments F1..Fk (K = 5 quick, 6 thorough), the operation body and each \
         fragment body being `a` plus a multiset of ≤ 2 spreads (a fragment spreads only later fragments; unused fragments included), enumerated completely by mixed-radix index; \
         (ii) parametric families for n = 1..N (N = 24 quick, 32 thorough): chain-f{1,2,3} (Fi = `a` + f spreads of Fi+1), nested-chain-f{1,2} (the spreads sit inside `o { }`), \
         diamond (two fragments per level, each spreading both of the next level), field-copies (16n × `a`), aliases-x-fragments (n fragments × n aliased fields), inline-nesting / \
         field-nesting / complexity-nesting at depth 1..24,32,…,64 and 65 (one past the parser's limit), operations (n named operations), operations-x-chain, list / object / \
         input-object / input-list literal nesting at depth n, list-width / object-width (16n items), arguments (n ≤ 24 arguments), arguments-x-copies, overlap-wide (n × `o { n × a }`), \
         overlap-nested (n × `a` at each of n levels), directives, variables-x-chain. Configurations: strict-loose (Strict validation, limits so large that nothing is rejected), \
         strict-tight (recursive 40, directives 4, depth 16, complexity 100: expensive documents are rejected, after the work), fast-loose (ValidationMode::Fast). \
         s = number of AST nodes of the parsed document = operation and fragment definitions + variable definitions (+ value nodes of their defaults) + directives + selections \
         (fields, fragment spreads, inline fragments, at every depth) + arguments (of fields and directives) + value nodes (every literal/variable, list item and object field value, recursively). \
         Oracle: each hook counter (check_recursive_depth, check_max_directives, visit_selection/normal, visit_selection/inline, find_conflicts, visit_input_value, no_fragment_cycles, \
         no_unused_variables, no_undefined_variables, no_unused_fragments, variables_in_allowed_position) ≤ 8·s²+64, and the smallest pest call limit under which the document parses \
         ≤ floor(64·s·(1+log2 s)). A run cut by the per-counter budget (max(2^20 quick / 2^22 thorough, 8·s²+65)) is recorded as 'budget exceeded at count ≥ B' and is a violation of that \
         walker. Non-trivial = element whose run was not cut and in which check_recursive_depth, check_max_directives and the Inline-mode visitor each visited at least one selection; \
         distinct by (document, configuration).",
    );
    cx.assume("a bounded family cannot prove an asymptotic statement: the check decides the property on the stated documents and sizes only");
    cx.assume("work is what hook H1 counts (selection visits / graph nodes expanded per walker) and what pest counts as calls; per-visit cost is taken to be bounded by a polynomial in s (argument comparison in FindConflicts, variable lookup by linear search are not counted separately)");
    cx.assume("generated documents use O(1) bytes per AST node (single spaces, short names); parser work per byte of padding (whitespace, comments, long names) is not part of s and is not explored");
    cx.assume("execution after the checks is not judged (it is outside the statement): family documents with one anonymous operation are sent with an operation name that does not exist, so Schema::execute parses, runs both limit walkers and the complete validation and then answers 'Unknown operation named' instead of executing (execution of a fan-out document is itself 2^n resolver calls); DAG documents and the named-operation families execute. Wall time is recorded and decides nothing");
    cx.assume("the parser meter is the smallest call limit that lets the parse succeed, found by bisection (families) or decided by one parse under the bound (DAG documents); pest's limit is process-wide, so parser metering runs in phases separate from execution");

    let schemas: Vec<S> = CONFIGS.iter().map(build).collect();

    // ---- self-test of the meter: the hook must count, and the budget must cut
    {
        let m = measure(&schemas[0], &CONFIGS[0], "{ a }", None, 1 << 10).unwrap();
        if m.counts.get("check_recursive_depth") != Some(&1) || m.counts.get("visit_selection/inline") != Some(&1) || m.outcome != "executed" {
            cx.machinery_error(format!("hook self-test: `{{ a }}` gave {:?} / {}", m.counts, m.outcome));
            return;
        }
        let m = measure(&schemas[0], &CONFIGS[0], &chain(6, 2, false), None, 10).unwrap();
        if m.cut.as_ref().map(|c| c.0.as_str()) != Some("check_recursive_depth") {
            cx.machinery_error(format!("budget self-test: expected a cut in check_recursive_depth, got {:?} / {}", m.cut, m.outcome));
            return;
        }
        let calls = parser_calls("{ a }", 1 << 20);
        if calls.is_none() || calls == Some(1) || parses_with_limit("{ a }", calls.unwrap() - 1) || !async_graphql_parser::parse_query("{ a }").is_ok() {
            cx.machinery_error(format!("parser meter self-test: calls = {calls:?}"));
            return;
        }
    }

    let mut all_rows: Vec<Row> = Vec::new();
    let mut nontrivial: Vec<u64> = Vec::new();
    let mut phases: Vec<(String, f64)> = Vec::new();
    let mut t_phase = std::time::Instant::now();
    let mut lap = |name: &str, phases: &mut Vec<(String, f64)>| {
        phases.push((name.to_string(), (t_phase.elapsed().as_secs_f64() * 1000.0).round() / 1000.0));
        t_phase = std::time::Instant::now();
    };

    // ---- part (ii): families, executions in parallel
    let fams = families(max_n);
    struct FamElem {
        family: &'static str,
        n: u32,
        doc: String,
        op: Option<String>,
        s: Option<u64>,
    }
    let elems: Vec<FamElem> = fams
        .iter()
        .flat_map(|f| {
            f.sizes.iter().map(move |n| {
                let (doc, op) = (f.gen)(*n);
                let op = op.or_else(|| Some(NO_SUCH_OPERATION.to_string()));
                let s = async_graphql_parser::parse_query(&doc).ok().map(|d| doc_size(&d));
                FamElem { family: f.name, n: *n, doc, op, s }
            })
        })
        .collect();
    let fam_out: Vec<(usize, usize, Result<Meas, String>)> = (0..elems.len() * CONFIGS.len())
        .into_par_iter()
        .with_max_len(1)
        .filter_map(|i| {
            let (ei, ci) = (i / CONFIGS.len(), i % CONFIGS.len());
            let e = &elems[ei];
            let s = e.s?;
            Some((ei, ci, measure(&schemas[ci], &CONFIGS[ci], &e.doc, e.op.as_deref(), budget_for(base_budget, s))))
        })
        .collect();
    let mut wall_by_elem: BTreeMap<(usize, usize), u64> = BTreeMap::new();
    let mut outcome_by_elem: BTreeMap<(usize, usize), String> = BTreeMap::new();
    for (ei, ci, m) in fam_out {
        let e = &elems[ei];
        cx.eval();
        let m = match m {
            Ok(m) => m,
            Err(err) => {
                cx.machinery_error(format!("{} n={} {}: {err}", e.family, e.n, CONFIGS[ci].name));
                continue;
            }
        };
        let j = judge_rows(e.family, e.n, &CONFIGS[ci], e.s.unwrap(), &m);
        if let Some(p) = j.panic {
            cx.violation(
                Violation::new("panic", format!("{} n={} under {}: {p}", e.family, e.n, CONFIGS[ci].name), json!({"family": e.family, "n": e.n, "config": CONFIGS[ci].name, "document": e.doc, "operation": e.op}))
                    .key("walker", "panic")
                    .key("family", e.family),
            );
        }
        if j.nontrivial {
            nontrivial.push(agv_engine::h64(&(&e.doc, CONFIGS[ci].name)));
        }
        let expected_outcome = matches!(m.outcome.as_str(), "checked" | "executed" | "budget") || CONFIGS[ci].name == "strict-tight" || (e.family == "complexity-nesting" && m.outcome.contains("too complex"));
        if !expected_outcome {
            cx.machinery_error(format!("{} n={} under {}: the generated document should pass every check, got `{}`", e.family, e.n, CONFIGS[ci].name, m.outcome));
        }
        wall_by_elem.insert((ei, ci), m.wall_us);
        outcome_by_elem.insert((ei, ci), m.outcome.clone());
        all_rows.extend(j.rows);
    }

    lap("family executions (parallel)", &mut phases);
    // ---- part (ii): parser meter, serial
    let mut parser_rows: Vec<(usize, u64, Option<u64>)> = Vec::new(); // (elem, bound, calls)
    let mut unparsed: Vec<J> = Vec::new();
    for (ei, e) in elems.iter().enumerate() {
        cx.eval();
        match e.s {
            Some(s) => {
                let pb = parser_bound(s);
                let calls = parser_calls(&e.doc, pb).or_else(|| parser_calls(&e.doc, pb.saturating_mul(1 << 10)));
                parser_rows.push((ei, pb, calls));
                all_rows.push(Row { family: e.family.into(), n: e.n, config: "parser", s, site: "parser".into(), count: calls.unwrap_or(u64::MAX), cut: calls.is_none() });
            }
            None => {
                // not a document for this parser (nesting one past the limit): work to *reject* it, no s to relate it to
                let calls = parser_calls_to_reject(&e.doc);
                unparsed.push(json!({"family": e.family, "n": e.n, "parser_calls_to_reject": calls}));
            }
        }
    }

    lap("family parser meter (serial)", &mut phases);
    // ---- part (i): every DAG, executions in parallel
    let mut dag_summary = Vec::new();
    let mut dag_rows: Vec<Row> = Vec::new();
    let mut dag_total = 0u64;
    for k in 0..=k_max {
        let space = DagSpace::new(k);
        dag_total += space.total;
        #[derive(Default)]
        struct Acc {
            viol: Vec<(u64, Row)>,
            max: BTreeMap<(String, &'static str), (u64, u64, u64)>, // (site, config) -> (count, s, idx) at the largest count/bound
            nontrivial: u64,
            errors: Vec<String>,
            sizes: BTreeSet<u64>,
        }
        let acc = (0..space.total)
            .into_par_iter()
            .fold(Acc::default, |mut acc, idx| {
                let (doc, s_gen) = space.doc(idx);
                match async_graphql_parser::parse_query(&doc) {
                    Ok(d) if doc_size(&d) == s_gen && space.size(idx) == s_gen => {}
                    other => {
                        acc.errors.push(format!("dag k={k} idx={idx}: generator size {s_gen} vs parsed {:?}", other.map(|d| doc_size(&d)).map_err(|e| e.to_string())));
                        return acc;
                    }
                }
                acc.sizes.insert(s_gen);
                for (ci, cfg) in CONFIGS.iter().enumerate() {
                    match measure(&schemas[ci], cfg, &doc, None, budget_for(base_budget, s_gen)) {
                        Err(e) => acc.errors.push(format!("dag k={k} idx={idx} {}: {e}", cfg.name)),
                        Ok(m) => {
                            let j = judge_rows("dag", k as u32, cfg, s_gen, &m);
                            if let Some(p) = j.panic {
                                acc.errors.push(format!("dag k={k} idx={idx} {}: panic {p}", cfg.name));
                            }
                            if j.nontrivial {
                                acc.nontrivial += 1;
                            }
                            for r in j.rows {
                                let b = walker_bound(r.s);
                                if r.cut || r.count > b {
                                    acc.viol.push((idx, r.clone()));
                                }
                                let e = acc.max.entry((r.site.clone(), cfg.name)).or_insert((0, 1, 0));
                                // compare count/bound as cross products
                                if (r.count as u128) * (walker_bound(e.1) as u128) > (e.0 as u128) * (b as u128) {
                                    *e = (r.count, r.s, idx);
                                }
                            }
                        }
                    }
                }
                acc
            })
            .reduce(Acc::default, |mut a, b| {
                a.viol.extend(b.viol);
                a.nontrivial += b.nontrivial;
                a.errors.extend(b.errors);
                a.sizes.extend(b.sizes);
                for (key, v) in b.max {
                    let e = a.max.entry(key).or_insert((0, 1, 0));
                    let (l, r) = ((v.0 as u128) * (walker_bound(e.1) as u128), (e.0 as u128) * (walker_bound(v.1) as u128));
                    if l > r || (l == r && v.2 < e.2 && v.0 > 0) {
                        *e = v;
                    }
                }
                a
            });
        cx.evals(space.total * CONFIGS.len() as u64);
        cx.nontrivial_count(acc.nontrivial);
        lap(&format!("dag k={k} executions (parallel)"), &mut phases);
        for e in acc.errors.iter().take(5) {
            cx.machinery_error(e.clone());
        }
        let mut viol = acc.viol;
        viol.sort_by(|a, b| (a.0, &a.1.site, a.1.config).cmp(&(b.0, &b.1.site, b.1.config)));
        for (idx, r) in viol.iter().take(50) {
            let mut r = r.clone();
            r.family = format!("dag/k={k}/idx={idx}");
            dag_rows.push(r);
        }
        // parser: one parse under the bound decides; all documents of one size share the limit
        let mut parser_over = Vec::new();
        for s in &acc.sizes {
            let pb = parser_bound(*s);
            pest::set_call_limit(NonZeroUsize::new(pb.max(1) as usize));
            let over: Vec<u64> = (0..space.total)
                .into_par_iter()
                .filter(|idx| space.size(*idx) == *s && async_graphql_parser::parse_query(&space.doc(*idx).0).is_err())
                .collect();
            pest::set_call_limit(None);
            parser_over.extend(over.into_iter().map(|i| (i, *s, pb)));
        }
        cx.evals(space.total);
        parser_over.sort();
        lap(&format!("dag k={k} parser (parallel per size class)"), &mut phases);
        for (idx, s, pb) in parser_over.iter().take(3) {
            let (doc, _) = space.doc(*idx);
            let calls = parser_calls(&doc, pb.saturating_mul(1 << 10));
            dag_rows.push(Row { family: format!("dag/k={k}/idx={idx}"), n: k as u32, config: "parser", s: *s, site: "parser".into(), count: calls.unwrap_or(u64::MAX), cut: calls.is_none() });
        }
        dag_summary.push(json!({
            "fragments": k, "documents": space.total, "executions": space.total * CONFIGS.len() as u64, "sizes_s": [acc.sizes.iter().next(), acc.sizes.iter().last()],
            "over_walker_bound": viol.len(), "over_parser_bound": parser_over.len(),
            "largest_count_over_bound": acc.max.iter().map(|((site, cfg), (c, s, idx))| json!({"walker": site, "config": cfg, "count": c, "s": s, "bound": walker_bound(*s), "idx": idx})).collect::<Vec<_>>(),
        }));
    }

    cx.nontrivial_many(nontrivial);

    // ---- violations: one per (walker, family)
    let mut groups: BTreeMap<(String, String), Vec<&Row>> = BTreeMap::new();
    for r in &all_rows {
        groups.entry((r.site.clone(), r.family.clone())).or_default().push(r);
    }
    let bound_of = |r: &Row| if r.site == "parser" { parser_bound(r.s) } else { walker_bound(r.s) };
    let cfg_rank = |c: &str| CONFIGS.iter().position(|x| x.name == c).unwrap_or(9);
    let mut growth_tables = serde_json::Map::new();
    for ((site, family), rows) in &groups {
        let mut bad: Vec<&&Row> = rows.iter().filter(|r| r.cut || r.count > bound_of(r)).collect();
        if bad.is_empty() {
            continue;
        }
        bad.sort_by_key(|r| (cfg_rank(r.config), r.n));
        let first: &Row = bad[0];
        // the series of that configuration
        let mut series: Vec<&&Row> = rows.iter().filter(|r| r.config == first.config).collect();
        series.sort_by_key(|r| r.n);
        let measured: Vec<(u32, u64, u64)> = series.iter().filter(|r| !r.cut).map(|r| (r.n, r.s, r.count)).collect();
        let first_cut = series.iter().find(|r| r.cut).map(|r| (r.n, r.count));
        // three consecutive measured points starting at the first violating n (or the last three measured)
        let start = measured.iter().position(|(n, _, _)| *n >= first.n).unwrap_or(measured.len());
        let start = start.min(measured.len().saturating_sub(3));
        let tri: Vec<(u32, u64, u64)> = measured[start..].iter().take(3).cloned().collect();
        let growth = tri.windows(2).map(|w| ratio(w[0].2, w[1].2)).collect::<Vec<_>>().join(", ");
        let tri_txt = tri.iter().map(|(n, s, c)| format!("n={n}: count {c} (s={s}, bound {})", if site == "parser" { parser_bound(*s) } else { walker_bound(*s) })).collect::<Vec<_>>().join("; ");
        let configs_bad: BTreeSet<&str> = bad.iter().map(|r| r.config).collect();
        let detail = format!(
            "walker {site} on family {family}: work exceeds {} first at n={} under {} (s={}, {} > {}). Consecutive sizes: {tri_txt}; growth ratio per step: {growth}.{} Violating configurations: {}.",
            if site == "parser" { "64·s·(1+log2 s)" } else { "8·s²+64" },
            first.n,
            first.config,
            first.s,
            if first.cut { format!("budget exceeded at count ≥ {}", first.count) } else { format!("count {}", first.count) },
            bound_of(first),
            match first_cut {
                Some((n, c)) => format!(" Budget exceeded (count ≥ {c}) from n={n}."),
                None => String::new(),
            },
            configs_bad.iter().cloned().collect::<Vec<_>>().join(", "),
        );
        let elem = elems.iter().find(|e| e.family == family && e.n == first.n);
        let case = json!({
            "family": family, "n": first.n, "config": if first.config == "parser" { "strict-loose" } else { first.config }, "walker": site,
            "document": elem.map(|e| e.doc.clone()), "operation": elem.and_then(|e| e.op.clone()),
        });
        growth_tables.insert(
            format!("{site} × {family}"),
            json!({"config": first.config, "measured": measured.iter().map(|(n, s, c)| json!([n, s, c])).collect::<Vec<_>>(), "columns": ["n", "s", "count"], "budget_cut_from_n": first_cut.map(|c| c.0)}),
        );
        cx.violation(Violation::new(format!("superpolynomial/{site}"), detail, case).key("walker", site.clone()).key("family", family.clone()));
    }
    for r in &dag_rows {
        // family key "dag": any DAG document over the bound
        let (k, idx) = {
            let mut it = r.family.split('/').skip(1);
            (it.next().and_then(|x| x[2..].parse::<usize>().ok()).unwrap_or(0), it.next().and_then(|x| x[4..].parse::<u64>().ok()).unwrap_or(0))
        };
        let (doc, _) = DagSpace::new(k).doc(idx);
        cx.violation(
            Violation::new(
                format!("superpolynomial/{}", r.site),
                format!("walker {} on DAG document k={k} idx={idx} under {}: {} (s={}, bound {})", r.site, r.config, if r.cut { format!("budget exceeded at count ≥ {}", r.count) } else { format!("count {}", r.count) }, r.s, bound_of(r)),
                json!({"family": "dag", "n": k, "config": if r.config == "parser" { "strict-loose" } else { r.config }, "walker": r.site, "document": doc, "operation": J::Null}),
            )
            .key("walker", r.site.clone())
            .key("family", "dag"),
        );
    }

    // ---- evidence
    // per (family, walker): the largest count/bound over all n and configurations
    let mut summary = serde_json::Map::new();
    for f in &fams {
        let mut per_site: BTreeMap<&str, &Row> = BTreeMap::new();
        for r in all_rows.iter().filter(|r| r.family == f.name) {
            let e = per_site.entry(r.site.as_str()).or_insert(r);
            if (r.count as u128) * (bound_of(e) as u128) > (e.count as u128) * (bound_of(r) as u128) {
                *e = r;
            }
        }
        summary.insert(
            f.name.to_string(),
            J::Object(
                per_site
                    .iter()
                    .map(|(site, r)| {
                        (site.to_string(), json!({"n": r.n, "config": r.config, "s": r.s, "count": if r.cut { json!(format!("≥{}", r.count)) } else { json!(r.count) }, "bound": bound_of(r), "over": r.cut || r.count > bound_of(r)}))
                    })
                    .collect(),
            ),
        );
    }
    cx.extra("bounds", json!({"dag_fragments_max": k_max, "family_n_max": max_n, "budget_base": base_budget, "configurations": CONFIGS.iter().map(|c| c.name).collect::<Vec<_>>()}));
    cx.extra("dag", json!({"documents": dag_total, "per_fragment_count": dag_summary}));
    cx.extra("families", json!({"count": fams.len(), "documents": elems.len(), "executions": elems.iter().filter(|e| e.s.is_some()).count() * CONFIGS.len(), "largest_count_over_bound": summary}));
    cx.extra("growth_of_violating_pairs", J::Object(growth_tables));
    cx.extra("not_a_document", json!(unparsed));
    cx.extra("phase_wall_s_not_judged", json!(phases));
    // outcomes (what the server answered) and wall time: recorded, not judged
    let mut outcomes: BTreeMap<String, u64> = BTreeMap::new();
    for ((_, ci), o) in &outcome_by_elem {
        let o = if o.starts_with("rejected") { o.split(|c: char| c.is_ascii_digit() || c == '`').next().unwrap_or(o).trim().to_string() } else { o.clone() };
        *outcomes.entry(format!("{}: {o}", CONFIGS[*ci].name)).or_insert(0) += 1;
    }
    cx.extra("family_outcomes_not_judged", json!(outcomes));
    let slowest = wall_by_elem.iter().max_by_key(|(_, w)| **w).map(|((ei, ci), w)| json!({"family": elems[*ei].family, "n": elems[*ei].n, "config": CONFIGS[*ci].name, "wall_ms": *w / 1000}));
    cx.extra("slowest_family_execution_wall_not_judged", json!(slowest));
    // samples: a few family elements with their full counter snapshot
    for (ei, e) in elems.iter().enumerate() {
        let h = agv_engine::h64(&(e.family, e.n));
        cx.sample_with(h, || {
            let counts: BTreeMap<String, J> = all_rows.iter().filter(|r| r.family == e.family && r.n == e.n).map(|r| (format!("{}/{}", r.config, r.site), if r.cut { json!(format!("≥{}", r.count)) } else { json!(r.count) })).collect();
            json!({"family": e.family, "n": e.n, "s": e.s, "document": if e.doc.len() > 400 { format!("{}…", &e.doc[..400]) } else { e.doc.clone() }, "operation": e.op,
                   "parser_calls": parser_rows.iter().find(|p| p.0 == ei).map(|p| json!({"calls": p.2, "bound": p.1})), "counts": counts})
        });
    }
    cx.exhaustive(true);
}

/// Calls pest makes before it gives up on a text that is not a document (smallest limit at which
/// the outcome no longer changes is not observable; report the calls of the unlimited failing
/// parse as the smallest limit whose error is not "call limit reached").
fn parser_calls_to_reject(doc: &str) -> Option<u64> {
    let fails_by_limit = |limit: u64| {
        pest::set_call_limit(NonZeroUsize::new(limit as usize));
        let r = async_graphql_parser::parse_query(doc);
        pest::set_call_limit(None);
        matches!(r, Err(e) if e.to_string().contains("call limit reached"))
    };
    let cap = 1u64 << 24;
    if fails_by_limit(cap) {
        return None;
    }
    let (mut lo, mut hi) = (0u64, cap);
    while hi - lo > 1 {
        let mid = lo + (hi - lo) / 2;
        if fails_by_limit(mid) {
            lo = mid;
        } else {
            hi = mid;
        }
    }
    Some(hi)
}

pub fn replay(case: &J) -> String {
    let doc = case["document"].as_str().unwrap_or("{ a }").to_string();
    let op = case["operation"].as_str();
    let cfg = CONFIGS.iter().find(|c| Some(c.name) == case["config"].as_str()).unwrap_or(&CONFIGS[0]);
    let s = match async_graphql_parser::parse_query(&doc) {
        Ok(d) => doc_size(&d),
        Err(e) => return format!("document does not parse: {e}"),
    };
    let m = match measure(&build(cfg), cfg, &doc, op, budget_for(1 << 20, s)) {
        Ok(m) => m,
        Err(e) => return format!("machinery: {e}"),
    };
    let calls = parser_calls(&doc, parser_bound(s).saturating_mul(1 << 10));
    format!(
        "family {} n={} under {}: s={s}, walker bound 8·s²+64 = {}, parser bound = {}; counts {:?}; {}; parser calls {:?}; outcome {}; wall {} ms (not judged)",
        case["family"],
        case["n"],
        cfg.name,
        walker_bound(s),
        parser_bound(s),
        m.counts,
        match &m.cut {
            Some((site, c)) => format!("budget exceeded in {site} at count ≥ {c}"),
            None => "no budget cut".into(),
        },
        calls,
        m.outcome,
        m.wall_us / 1000
    )
}

fn main() {
    agv_engine::driver::main("C11", "exploration", run, Some(replay))
}
