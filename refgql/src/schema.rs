//! Type-system IR of the reference model, built from an SDL document.

use crate::ast::*;
use std::collections::BTreeMap;

#[derive(Clone, Debug, PartialEq)]
pub struct Arg {
    pub name: String,
    pub ty: Type,
    pub default: Option<Value>,
    pub desc: Option<String>,
    pub deprecated: Option<Option<String>>,
}

#[derive(Clone, Debug, PartialEq)]
pub struct FieldT {
    pub name: String,
    pub args: Vec<Arg>,
    pub ty: Type,
    pub desc: Option<String>,
    pub deprecated: Option<Option<String>>,
}

#[derive(Clone, Debug, PartialEq)]
pub enum Kind {
    Scalar,
    Object { interfaces: Vec<String>, fields: Vec<FieldT> },
    Interface { interfaces: Vec<String>, fields: Vec<FieldT> },
    Union { members: Vec<String> },
    Enum { values: Vec<(String, Option<String>, Option<Option<String>>)> },
    Input { fields: Vec<Arg>, one_of: bool },
}

#[derive(Clone, Debug, PartialEq)]
pub struct TypeT {
    pub name: String,
    pub desc: Option<String>,
    pub kind: Kind,
}

#[derive(Clone, Debug, PartialEq)]
pub struct DirectiveT {
    pub name: String,
    pub args: Vec<Arg>,
    pub repeatable: bool,
    pub locations: Vec<String>,
}

#[derive(Clone, Debug, PartialEq, Default)]
pub struct Schema {
    pub types: BTreeMap<String, TypeT>,
    pub query: String,
    pub mutation: Option<String>,
    pub subscription: Option<String>,
    pub directives: BTreeMap<String, DirectiveT>,
}

fn deprecated(ds: &[Directive]) -> Option<Option<String>> {
    ds.iter().find(|d| d.name.s == "deprecated").map(|d| {
        d.args.iter().find(|(k, _)| k.s == "reason").and_then(|(_, v)| if let Value::Str(s) = &v.v { Some(s.clone()) } else { None })
    })
}

fn arg_of(a: &InputValueDef) -> Arg {
    Arg { name: a.name.s.clone(), ty: a.ty.clone(), default: a.default.as_ref().map(|d| d.v.clone()), desc: a.desc.clone(), deprecated: deprecated(&a.directives) }
}
fn field_of(f: &FieldDef) -> FieldT {
    FieldT { name: f.name.s.clone(), args: f.args.iter().map(arg_of).collect(), ty: f.ty.clone(), desc: f.desc.clone(), deprecated: deprecated(&f.directives) }
}

pub const BUILTIN_SCALARS: [&str; 5] = ["Int", "Float", "String", "Boolean", "ID"];

impl Schema {
    /// Build from a type-system document. Root names default to Query / Mutation / Subscription.
    pub fn from_doc(doc: &TsDoc) -> Result<Schema, String> {
        Schema::build(doc, false)
    }

    /// Like `from_doc`, but never fails: a type defined twice keeps its *last* definition and
    /// extensions are skipped. The result may be an invalid type system (missing root, dangling
    /// references, empty types …) — it is the input of `schema_validate::validate_schema`.
    pub fn from_doc_tolerant(doc: &TsDoc) -> Schema {
        Schema::build(doc, true).expect("tolerant build does not fail")
    }

    /// The built-in scalars and directives only; no root types (`query` is the default name "Query").
    pub fn builtins() -> Schema {
        let mut s = Schema::build(&TsDoc::default(), true).expect("tolerant build does not fail");
        s.query = "Query".into();
        s
    }

    fn build(doc: &TsDoc, tolerant: bool) -> Result<Schema, String> {
        let mut s = Schema::default();
        for b in BUILTIN_SCALARS {
            s.types.insert(b.to_string(), TypeT { name: b.to_string(), desc: None, kind: Kind::Scalar });
        }
        let b = |n: &str| Type::named(n);
        s.directives.insert(
            "skip".into(),
            DirectiveT { name: "skip".into(), args: vec![Arg { name: "if".into(), ty: b("Boolean").nn(), default: None, desc: None, deprecated: None }], repeatable: false, locations: vec!["FIELD".into(), "FRAGMENT_SPREAD".into(), "INLINE_FRAGMENT".into()] },
        );
        s.directives.insert(
            "include".into(),
            DirectiveT { name: "include".into(), args: vec![Arg { name: "if".into(), ty: b("Boolean").nn(), default: None, desc: None, deprecated: None }], repeatable: false, locations: vec!["FIELD".into(), "FRAGMENT_SPREAD".into(), "INLINE_FRAGMENT".into()] },
        );
        s.directives.insert(
            "deprecated".into(),
            DirectiveT {
                name: "deprecated".into(),
                args: vec![Arg { name: "reason".into(), ty: b("String"), default: Some(Value::Str("No longer supported".into())), desc: None, deprecated: None }],
                repeatable: false,
                locations: vec!["FIELD_DEFINITION".into(), "ARGUMENT_DEFINITION".into(), "INPUT_FIELD_DEFINITION".into(), "ENUM_VALUE".into()],
            },
        );
        s.directives.insert(
            "specifiedBy".into(),
            DirectiveT { name: "specifiedBy".into(), args: vec![Arg { name: "url".into(), ty: b("String").nn(), default: None, desc: None, deprecated: None }], repeatable: false, locations: vec!["SCALAR".into()] },
        );
        s.directives.insert("oneOf".into(), DirectiveT { name: "oneOf".into(), args: vec![], repeatable: false, locations: vec!["INPUT_OBJECT".into()] });
        let mut roots: Vec<(OpKind, String)> = Vec::new();
        let mut saw_schema = false;
        for d in &doc.defs {
            match d {
                TsDef::Schema(sd) => {
                    saw_schema = true;
                    for (k, n) in &sd.roots {
                        roots.push((*k, n.s.clone()));
                    }
                }
                TsDef::Directive(dd) => {
                    s.directives.insert(
                        dd.name.s.clone(),
                        DirectiveT { name: dd.name.s.clone(), args: dd.args.iter().map(arg_of).collect(), repeatable: dd.repeatable, locations: dd.locations.iter().map(|l| l.s.clone()).collect() },
                    );
                }
                TsDef::Type(td) => {
                    let kind = match &td.kind {
                        TypeDefKind::Scalar => Kind::Scalar,
                        TypeDefKind::Object { interfaces, fields } => Kind::Object { interfaces: interfaces.iter().map(|i| i.s.clone()).collect(), fields: fields.iter().map(field_of).collect() },
                        TypeDefKind::Interface { interfaces, fields } => Kind::Interface { interfaces: interfaces.iter().map(|i| i.s.clone()).collect(), fields: fields.iter().map(field_of).collect() },
                        TypeDefKind::Union { members } => Kind::Union { members: members.iter().map(|m| m.s.clone()).collect() },
                        TypeDefKind::Enum { values } => Kind::Enum { values: values.iter().map(|v| (v.name.s.clone(), v.desc.clone(), deprecated(&v.directives))).collect() },
                        TypeDefKind::Input { fields } => Kind::Input { fields: fields.iter().map(arg_of).collect(), one_of: td.directives.iter().any(|d| d.name.s == "oneOf") },
                    };
                    if td.extend {
                        if tolerant {
                            continue;
                        }
                        return Err("extensions are not supported by the IR".into());
                    }
                    if s.types.insert(td.name.s.clone(), TypeT { name: td.name.s.clone(), desc: td.desc.clone(), kind }).is_some() && !BUILTIN_SCALARS.contains(&td.name.s.as_str()) && !tolerant {
                        return Err(format!("duplicate type {}", td.name.s));
                    }
                }
            }
        }
        if saw_schema {
            for (k, n) in roots {
                match k {
                    OpKind::Query => s.query = n,
                    OpKind::Mutation => s.mutation = Some(n),
                    OpKind::Subscription => s.subscription = Some(n),
                }
            }
        } else {
            s.query = "Query".into();
            if s.types.contains_key("Mutation") {
                s.mutation = Some("Mutation".into());
            }
            if s.types.contains_key("Subscription") {
                s.subscription = Some("Subscription".into());
            }
        }
        Ok(s)
    }

    pub fn from_sdl(sdl: &str) -> Result<Schema, String> {
        let doc = crate::parse::parse_ts(sdl).map_err(|e| format!("SDL parse error at {}:{}: {}", e.pos.line, e.pos.col, e.msg))?;
        Schema::from_doc(&doc)
    }

    pub fn ty(&self, n: &str) -> Option<&TypeT> {
        self.types.get(n)
    }
    pub fn root(&self, k: OpKind) -> Option<&str> {
        match k {
            OpKind::Query => Some(self.query.as_str()),
            OpKind::Mutation => self.mutation.as_deref(),
            OpKind::Subscription => self.subscription.as_deref(),
        }
    }
    pub fn fields_of(&self, n: &str) -> Option<&[FieldT]> {
        match &self.types.get(n)?.kind {
            Kind::Object { fields, .. } | Kind::Interface { fields, .. } => Some(fields),
            _ => None,
        }
    }
    pub fn field(&self, ty: &str, f: &str) -> Option<&FieldT> {
        self.fields_of(ty)?.iter().find(|x| x.name == f)
    }
    pub fn is_composite(&self, n: &str) -> bool {
        matches!(self.types.get(n).map(|t| &t.kind), Some(Kind::Object { .. } | Kind::Interface { .. } | Kind::Union { .. }))
    }
    pub fn is_leaf(&self, n: &str) -> bool {
        matches!(self.types.get(n).map(|t| &t.kind), Some(Kind::Scalar | Kind::Enum { .. }))
    }
    pub fn is_input(&self, n: &str) -> bool {
        matches!(self.types.get(n).map(|t| &t.kind), Some(Kind::Scalar | Kind::Enum { .. } | Kind::Input { .. }))
    }
    pub fn is_output(&self, n: &str) -> bool {
        matches!(self.types.get(n).map(|t| &t.kind), Some(Kind::Scalar | Kind::Enum { .. } | Kind::Object { .. } | Kind::Interface { .. } | Kind::Union { .. }))
    }
    pub fn is_object(&self, n: &str) -> bool {
        matches!(self.types.get(n).map(|t| &t.kind), Some(Kind::Object { .. }))
    }
    pub fn is_abstract(&self, n: &str) -> bool {
        matches!(self.types.get(n).map(|t| &t.kind), Some(Kind::Interface { .. } | Kind::Union { .. }))
    }

    /// Interfaces a type declares, transitively closed.
    pub fn all_interfaces(&self, n: &str) -> Vec<String> {
        let mut out: Vec<String> = Vec::new();
        let mut stack = vec![n.to_string()];
        while let Some(t) = stack.pop() {
            if let Some(TypeT { kind: Kind::Object { interfaces, .. } | Kind::Interface { interfaces, .. }, .. }) = self.types.get(&t) {
                for i in interfaces {
                    if !out.contains(i) {
                        out.push(i.clone());
                        stack.push(i.clone());
                    }
                }
            }
        }
        out
    }

    /// GetPossibleTypes: the object types an (object | interface | union) can be at run time.
    pub fn possible_types(&self, n: &str) -> Vec<String> {
        match self.types.get(n).map(|t| &t.kind) {
            Some(Kind::Object { .. }) => vec![n.to_string()],
            Some(Kind::Union { members }) => members.clone(),
            Some(Kind::Interface { .. }) => self
                .types
                .values()
                .filter(|t| matches!(t.kind, Kind::Object { .. }) && self.all_interfaces(&t.name).iter().any(|i| i == n))
                .map(|t| t.name.clone())
                .collect(),
            _ => vec![],
        }
    }

    /// §6.3.2 DoesFragmentTypeApply(objectType, fragmentType)
    pub fn fragment_applies(&self, object: &str, cond: &str) -> bool {
        match self.types.get(cond).map(|t| &t.kind) {
            Some(Kind::Object { .. }) => object == cond,
            Some(Kind::Interface { .. }) => self.all_interfaces(object).iter().any(|i| i == cond),
            Some(Kind::Union { members }) => members.iter().any(|m| m == object),
            _ => false,
        }
    }
}
