//! Type-system validation of the reference model: the "Type Validation" rule
//! lists of the October 2021 specification, §3.3 (schema / root operation
//! types), §3.6 (objects, incl. `IsValidImplementation`), §3.7 (interfaces),
//! §3.8 (unions), §3.9 (enums), §3.10 (input objects) and §3.13 (directive
//! definitions), plus the two OneOf Input Object rules that later editions add
//! to §3.10. One function per rule; every error carries the rule's tag so that a
//! disagreement with an implementation can be attributed.
//!
//! The validator works on the IR (`schema::Schema`), which may describe an
//! *invalid* type system (missing roots, dangling references, empty types …).
//! What the IR cannot represent — two types with one name — is checked on the
//! document by `duplicate_type_names`.
//!
//! Not covered: "a directive definition must not reference itself" (§3.13,
//! the IR does not retain directives applied to argument definitions) and
//! default-value coercibility (not part of the October 2021 rule lists).

use crate::ast::{TsDef, TsDoc, Type};
use crate::schema::{Arg, FieldT, Kind, Schema, TypeT, BUILTIN_SCALARS};
use std::collections::BTreeSet;

#[derive(Clone, Debug, PartialEq, Eq)]
pub struct SError {
    pub rule: &'static str,
    pub msg: String,
    /// Name of the type definition the error is about ("" for errors of the schema definition itself).
    pub at: String,
}

/// Every rule tag this module can emit, in reporting order.
pub const RULES: &[&str] = &[
    "ReservedTypeName",
    "RootQuery",
    "RootMutation",
    "RootSubscription",
    "RootTypesDistinct",
    "KnownType",
    "KnownInterface",
    "ObjectHasFields",
    "InterfaceHasFields",
    "UniqueFieldNames",
    "ReservedFieldName",
    "FieldOutputType",
    "UniqueArgNames",
    "ReservedArgName",
    "ArgInputType",
    "UniqueInterfaces",
    "ImplementsInterfaceKind",
    "InterfaceImplementsSelf",
    "ImplementsTransitive",
    "ImplementsField",
    "ImplementsArg",
    "ImplementsArgType",
    "ImplementsExtraArgRequired",
    "ImplementsFieldType",
    "UnionHasMembers",
    "UniqueUnionMembers",
    "UnionMemberObject",
    "EnumHasValues",
    "UniqueEnumValues",
    "InputHasFields",
    "UniqueInputFieldNames",
    "ReservedInputFieldName",
    "InputFieldInputType",
    "InputCycle",
    "OneOfNullable",
    "OneOfNoDefault",
    "DirectiveReservedName",
    "DirectiveArgs",
];

type Out = Vec<SError>;

fn err_at(out: &mut Out, rule: &'static str, at: &str, msg: String) {
    debug_assert!(RULES.contains(&rule));
    out.push(SError { rule, msg, at: at.to_string() });
}

/// Error of the schema definition or of a directive definition (no type to attribute it to).
fn err(out: &mut Out, rule: &'static str, msg: String) {
    err_at(out, rule, "", msg);
}

fn user_types(s: &Schema) -> impl Iterator<Item = &TypeT> {
    s.types.values().filter(|t| !(BUILTIN_SCALARS.contains(&t.name.as_str()) && t.kind == Kind::Scalar))
}

fn dups<'a>(names: impl Iterator<Item = &'a str>) -> Vec<&'a str> {
    let mut seen = BTreeSet::new();
    let mut d = Vec::new();
    for n in names {
        if !seen.insert(n) && !d.contains(&n) {
            d.push(n);
        }
    }
    d
}

// ------------------------------------------------------------------ §3.3 Schema

/// §3.3: "All types and directives defined within a schema must not have a name
/// which begins with "__" (two underscores)".
pub fn reserved_type_names(s: &Schema, out: &mut Out) {
    for t in user_types(s) {
        if t.name.starts_with("__") {
            err_at(out, "ReservedTypeName", &t.name, format!("type {} has a reserved name", t.name));
        }
    }
}

/// §3.3.1: "The query root operation type must be provided and must be an Object type."
pub fn root_query(s: &Schema, out: &mut Out) {
    match s.types.get(&s.query).map(|t| &t.kind) {
        None => err(out, "RootQuery", format!("query root type {} is not defined", s.query)),
        Some(Kind::Object { .. }) => {}
        Some(_) => err(out, "RootQuery", format!("query root type {} is not an Object type", s.query)),
    }
}

/// §3.3.1: "The mutation root operation type is optional; … if it is provided, it must be an Object type."
pub fn root_mutation(s: &Schema, out: &mut Out) {
    if let Some(m) = &s.mutation {
        match s.types.get(m).map(|t| &t.kind) {
            None => err(out, "RootMutation", format!("mutation root type {m} is not defined")),
            Some(Kind::Object { .. }) => {}
            Some(_) => err(out, "RootMutation", format!("mutation root type {m} is not an Object type")),
        }
    }
}

/// §3.3.1: "Similarly, the subscription root operation type is also optional; … if it is provided, it must be an Object type."
pub fn root_subscription(s: &Schema, out: &mut Out) {
    if let Some(m) = &s.subscription {
        match s.types.get(m).map(|t| &t.kind) {
            None => err(out, "RootSubscription", format!("subscription root type {m} is not defined")),
            Some(Kind::Object { .. }) => {}
            Some(_) => err(out, "RootSubscription", format!("subscription root type {m} is not an Object type")),
        }
    }
}

/// §3.3.1: "The query, mutation, and subscription root types must all be different types if provided."
pub fn root_types_distinct(s: &Schema, out: &mut Out) {
    let roots: Vec<&str> = std::iter::once(s.query.as_str()).chain(s.mutation.as_deref()).chain(s.subscription.as_deref()).collect();
    for d in dups(roots.into_iter()) {
        err(out, "RootTypesDistinct", format!("type {d} is the root of more than one operation type"));
    }
}

// ------------------------------------------------- named references (all sections)

/// Every named type a definition refers to must be defined (the rule lists
/// apply `IsOutputType` / `IsInputType` / "must be an Object type" … to the
/// referenced type, which presupposes that it exists).
pub fn known_types(s: &Schema, out: &mut Out) {
    let need = |at: &str, what: String, n: &str, out: &mut Out| {
        if !s.types.contains_key(n) {
            err_at(out, "KnownType", at, format!("{what} refers to the undefined type {n}"));
        }
    };
    for t in user_types(s) {
        match &t.kind {
            Kind::Scalar | Kind::Enum { .. } => {}
            Kind::Object { interfaces, fields } | Kind::Interface { interfaces, fields } => {
                for i in interfaces {
                    if !s.types.contains_key(i) {
                        err_at(out, "KnownInterface", &t.name, format!("{} implements the undefined type {i}", t.name));
                    }
                }
                for f in fields {
                    need(&t.name, format!("field {}.{}", t.name, f.name), f.ty.base(), out);
                    for a in &f.args {
                        need(&t.name, format!("argument {}.{}({}:)", t.name, f.name, a.name), a.ty.base(), out);
                    }
                }
            }
            Kind::Union { members } => {
                for m in members {
                    need(&t.name, format!("union {}", t.name), m, out);
                }
            }
            Kind::Input { fields, .. } => {
                for f in fields {
                    need(&t.name, format!("input field {}.{}", t.name, f.name), f.ty.base(), out);
                }
            }
        }
    }
    for d in s.directives.values() {
        for a in &d.args {
            need("", format!("argument @{}({}:)", d.name, a.name), a.ty.base(), out);
        }
    }
}

// ------------------------------------------------- §3.6 Objects / §3.7 Interfaces

fn composite<'a>(t: &'a TypeT) -> Option<(bool, &'a [String], &'a [FieldT])> {
    match &t.kind {
        Kind::Object { interfaces, fields } => Some((true, interfaces.as_slice(), fields.as_slice())),
        Kind::Interface { interfaces, fields } => Some((false, interfaces.as_slice(), fields.as_slice())),
        _ => None,
    }
}

/// §3.6 rule 1 "An Object type must define one or more fields." / §3.7 rule 1 (same for interfaces).
pub fn has_fields(s: &Schema, out: &mut Out) {
    for t in user_types(s) {
        if let Some((is_obj, _, fields)) = composite(t) {
            if fields.is_empty() {
                if is_obj {
                    err_at(out, "ObjectHasFields", &t.name, format!("object type {} defines no fields", t.name));
                } else {
                    err_at(out, "InterfaceHasFields", &t.name, format!("interface type {} defines no fields", t.name));
                }
            }
        }
    }
}

/// §3.6 / §3.7 rule 2.1: "The field must have a unique name within that … type".
pub fn unique_field_names(s: &Schema, out: &mut Out) {
    for t in user_types(s) {
        if let Some((_, _, fields)) = composite(t) {
            for d in dups(fields.iter().map(|f| f.name.as_str())) {
                err_at(out, "UniqueFieldNames", &t.name, format!("{} defines field {d} more than once", t.name));
            }
        }
    }
}

/// §3.6 / §3.7 rule 2.2: "The field must not have a name which begins with the characters "__"".
pub fn reserved_field_names(s: &Schema, out: &mut Out) {
    for t in user_types(s) {
        if let Some((_, _, fields)) = composite(t) {
            for f in fields.iter().filter(|f| f.name.starts_with("__")) {
                err_at(out, "ReservedFieldName", &t.name, format!("field {}.{} has a reserved name", t.name, f.name));
            }
        }
    }
}

/// §3.6 / §3.7 rule 2.3: "The field must return a type where IsOutputType(fieldType) returns true."
pub fn field_output_types(s: &Schema, out: &mut Out) {
    for t in user_types(s) {
        if let Some((_, _, fields)) = composite(t) {
            for f in fields {
                if s.types.contains_key(f.ty.base()) && !s.is_output(f.ty.base()) {
                    err_at(out, "FieldOutputType", &t.name, format!("field {}.{}: {} is not an output type", t.name, f.name, f.ty));
                }
            }
        }
    }
}

/// Later editions, §3.6 rule 2.4.1: "The argument must have a unique name within that field".
/// (October 2021 gets the same from the grammar's uniqueness of names in a definition list.)
pub fn unique_arg_names(s: &Schema, out: &mut Out) {
    for t in user_types(s) {
        if let Some((_, _, fields)) = composite(t) {
            for f in fields {
                for d in dups(f.args.iter().map(|a| a.name.as_str())) {
                    err_at(out, "UniqueArgNames", &t.name, format!("field {}.{} defines argument {d} more than once", t.name, f.name));
                }
            }
        }
    }
}

/// §3.6 / §3.7 rule 2.4.1: "The argument must not have a name which begins with the characters "__"".
pub fn reserved_arg_names(s: &Schema, out: &mut Out) {
    for t in user_types(s) {
        if let Some((_, _, fields)) = composite(t) {
            for f in fields {
                for a in f.args.iter().filter(|a| a.name.starts_with("__")) {
                    err_at(out, "ReservedArgName", &t.name, format!("argument {}.{}({}:) has a reserved name", t.name, f.name, a.name));
                }
            }
        }
    }
}

/// §3.6 / §3.7 rule 2.4.2: "The argument must accept a type where IsInputType(argumentType) returns true."
pub fn arg_input_types(s: &Schema, out: &mut Out) {
    for t in user_types(s) {
        if let Some((_, _, fields)) = composite(t) {
            for f in fields {
                for a in &f.args {
                    if s.types.contains_key(a.ty.base()) && !s.is_input(a.ty.base()) {
                        err_at(out, "ArgInputType", &t.name, format!("argument {}.{}({}: {}) is not of an input type", t.name, f.name, a.name, a.ty));
                    }
                }
            }
        }
    }
}

/// §3.6 rule 3 / §3.7 rule 3: "may declare that it implements one or more unique interfaces".
pub fn unique_interfaces(s: &Schema, out: &mut Out) {
    for t in user_types(s) {
        if let Some((_, interfaces, _)) = composite(t) {
            for d in dups(interfaces.iter().map(|i| i.as_str())) {
                err_at(out, "UniqueInterfaces", &t.name, format!("{} declares interface {d} more than once", t.name));
            }
        }
    }
}

/// §3.6 rule 3–4 / §3.7 rule 3–4: what is declared after `implements` must be an Interface type.
pub fn implements_interface_kind(s: &Schema, out: &mut Out) {
    for t in user_types(s) {
        if let Some((_, interfaces, _)) = composite(t) {
            for i in interfaces {
                if let Some(it) = s.types.get(i) {
                    if !matches!(it.kind, Kind::Interface { .. }) {
                        err_at(out, "ImplementsInterfaceKind", &t.name, format!("{} implements {i}, which is not an Interface type", t.name));
                    }
                }
            }
        }
    }
}

/// §3.7 rule 3: "An interface type … may not implement itself."
pub fn interface_implements_self(s: &Schema, out: &mut Out) {
    for t in user_types(s) {
        if let Kind::Interface { interfaces, .. } = &t.kind {
            if interfaces.iter().any(|i| *i == t.name) {
                err_at(out, "InterfaceImplementsSelf", &t.name, format!("interface {} implements itself", t.name));
            }
        }
    }
}

/// §3.6 `IsValidImplementationFieldType(fieldType, implementedFieldType)`.
pub fn is_valid_implementation_field_type(s: &Schema, field: &Type, implemented: &Type) -> bool {
    // 1. If fieldType is a Non-Null type: unwrap it, and unwrap implementedFieldType if that is Non-Null too.
    if let Type::NonNull(inner) = field {
        let imp = match implemented {
            Type::NonNull(i) => i,
            other => other,
        };
        return is_valid_implementation_field_type(s, inner, imp);
    }
    // 2. If fieldType is a List type and implementedFieldType is also a List type: compare item types.
    if let (Type::List(a), Type::List(b)) = (field, implemented) {
        return is_valid_implementation_field_type(s, a, b);
    }
    // 3. If fieldType is the same type as implementedFieldType then return true.
    if field == implemented {
        return true;
    }
    if let (Type::Named(f), Type::Named(i)) = (field, implemented) {
        // 4. Object type that is a possible type of the implemented Union type.
        if let (Some(Kind::Object { .. }), Some(Kind::Union { members })) = (s.types.get(f).map(|t| &t.kind), s.types.get(i).map(|t| &t.kind)) {
            if members.iter().any(|m| m == f) {
                return true;
            }
        }
        // 5. Object or Interface type that is a declared implementation of the implemented Interface type.
        if let (Some(Kind::Object { interfaces, .. } | Kind::Interface { interfaces, .. }), Some(Kind::Interface { .. })) = (s.types.get(f).map(|t| &t.kind), s.types.get(i).map(|t| &t.kind)) {
            if interfaces.iter().any(|x| x == i) {
                return true;
            }
        }
    }
    // 6. Otherwise return false.
    false
}

/// §3.6 rule 4 / §3.7 rule 4: `IsValidImplementation(type, implementedType)` for every declared interface.
pub fn valid_implementations(s: &Schema, out: &mut Out) {
    for t in user_types(s) {
        let Some((_, interfaces, fields)) = composite(t) else { continue };
        for iname in interfaces {
            let Some(Kind::Interface { interfaces: inherited, fields: ifields }) = s.types.get(iname).map(|x| &x.kind) else { continue };
            // 1. If implementedType declares it implements any interfaces, type must also declare it implements those interfaces.
            for need in inherited {
                if !interfaces.iter().any(|x| x == need) {
                    err_at(out, "ImplementsTransitive", &t.name, format!("{} implements {iname} but not {need}, which {iname} implements", t.name));
                }
            }
            // 2. type must include a field of the same name for every field defined in implementedType.
            for ifield in ifields {
                let Some(field) = fields.iter().find(|f| f.name == ifield.name) else {
                    err_at(out, "ImplementsField", &t.name, format!("{} lacks field {} of interface {iname}", t.name, ifield.name));
                    continue;
                };
                // 2.3 field must include an argument of the same name for every argument defined in implementedField;
                // 2.3.1 that named argument must accept the same type (invariant).
                for iarg in &ifield.args {
                    match field.args.iter().find(|a| a.name == iarg.name) {
                        None => err_at(out, "ImplementsArg", &t.name, format!("{}.{} lacks argument {} of {iname}.{}", t.name, field.name, iarg.name, ifield.name)),
                        Some(a) if a.ty != iarg.ty => err_at(
                            out,
                            "ImplementsArgType",
                            &t.name,
                            format!("{}.{}({}: {}) differs from {iname}.{}({}: {})", t.name, field.name, a.name, a.ty, ifield.name, iarg.name, iarg.ty),
                        ),
                        Some(_) => {}
                    }
                }
                // 2.4 additional arguments must not be required, e.g. must not be of a non-nullable type.
                for a in &field.args {
                    if !ifield.args.iter().any(|x| x.name == a.name) && a.ty.is_non_null() && a.default.is_none() {
                        err_at(out, "ImplementsExtraArgRequired", &t.name, format!("{}.{}({}: {}) is an additional required argument not defined by {iname}.{}", t.name, field.name, a.name, a.ty, ifield.name));
                    }
                }
                // 2.5 field must return a type which is equal to or a sub-type of (covariant) the implemented field's type.
                if !is_valid_implementation_field_type(s, &field.ty, &ifield.ty) {
                    err_at(out, "ImplementsFieldType", &t.name, format!("{}.{}: {} is not a valid implementation of {iname}.{}: {}", t.name, field.name, field.ty, ifield.name, ifield.ty));
                }
            }
        }
    }
}

// ------------------------------------------------------------------ §3.8 Unions

/// §3.8 rule 1: "A Union type must include one or more unique member types."
pub fn union_members(s: &Schema, out: &mut Out) {
    for t in user_types(s) {
        if let Kind::Union { members } = &t.kind {
            if members.is_empty() {
                err_at(out, "UnionHasMembers", &t.name, format!("union {} has no member types", t.name));
            }
            for d in dups(members.iter().map(|m| m.as_str())) {
                err_at(out, "UniqueUnionMembers", &t.name, format!("union {} lists member {d} more than once", t.name));
            }
        }
    }
}

/// §3.8 rule 2: "The member types of a Union type must all be Object base types; Scalar, Interface and Union
/// types must not be member types of a Union."
pub fn union_member_objects(s: &Schema, out: &mut Out) {
    for t in user_types(s) {
        if let Kind::Union { members } = &t.kind {
            for m in members {
                if s.types.contains_key(m) && !s.is_object(m) {
                    err_at(out, "UnionMemberObject", &t.name, format!("member {m} of union {} is not an Object type", t.name));
                }
            }
        }
    }
}

// ------------------------------------------------------------------- §3.9 Enums

/// §3.9 rule 1: "An Enum type must define one or more unique enum values."
pub fn enum_values(s: &Schema, out: &mut Out) {
    for t in user_types(s) {
        if let Kind::Enum { values } = &t.kind {
            if values.is_empty() {
                err_at(out, "EnumHasValues", &t.name, format!("enum {} defines no values", t.name));
            }
            for d in dups(values.iter().map(|v| v.0.as_str())) {
                err_at(out, "UniqueEnumValues", &t.name, format!("enum {} defines value {d} more than once", t.name));
            }
        }
    }
}

// ----------------------------------------------------------- §3.10 Input Objects

fn inputs(s: &Schema) -> impl Iterator<Item = (&TypeT, &[Arg], bool)> {
    user_types(s).filter_map(|t| if let Kind::Input { fields, one_of } = &t.kind { Some((t, fields.as_slice(), *one_of)) } else { None })
}

/// §3.10 rule 1: "An Input Object type must define one or more input fields."
pub fn input_has_fields(s: &Schema, out: &mut Out) {
    for (t, fields, _) in inputs(s) {
        if fields.is_empty() {
            err_at(out, "InputHasFields", &t.name, format!("input object {} defines no input fields", t.name));
        }
    }
}

/// §3.10 rule 2.1: "The input field must have a unique name within that Input Object type".
pub fn unique_input_field_names(s: &Schema, out: &mut Out) {
    for (t, fields, _) in inputs(s) {
        for d in dups(fields.iter().map(|f| f.name.as_str())) {
            err_at(out, "UniqueInputFieldNames", &t.name, format!("input object {} defines field {d} more than once", t.name));
        }
    }
}

/// §3.10 rule 2.2: "The input field must not have a name which begins with the characters "__"".
pub fn reserved_input_field_names(s: &Schema, out: &mut Out) {
    for (t, fields, _) in inputs(s) {
        for f in fields.iter().filter(|f| f.name.starts_with("__")) {
            err_at(out, "ReservedInputFieldName", &t.name, format!("input field {}.{} has a reserved name", t.name, f.name));
        }
    }
}

/// §3.10 rule 2.3: "The input field must accept a type where IsInputType(inputFieldType) returns true."
pub fn input_field_input_types(s: &Schema, out: &mut Out) {
    for (t, fields, _) in inputs(s) {
        for f in fields {
            if s.types.contains_key(f.ty.base()) && !s.is_input(f.ty.base()) {
                err_at(out, "InputFieldInputType", &t.name, format!("input field {}.{}: {} is not an input type", t.name, f.name, f.ty));
            }
        }
    }
}

/// The input object named by a field of type `Name!` (a reference that is neither nullable nor a list).
fn required_input_ref<'a>(s: &'a Schema, ty: &'a Type) -> Option<&'a str> {
    if let Type::NonNull(inner) = ty {
        if let Type::Named(n) = inner.as_ref() {
            if matches!(s.types.get(n).map(|t| &t.kind), Some(Kind::Input { .. })) {
                return Some(n);
            }
        }
    }
    None
}

/// §3.10 rule 3: "If an Input Object references itself either directly or through referenced Input Objects,
/// at least one of the fields in the chain of references must be either a nullable or a List type."
pub fn input_cycles(s: &Schema, out: &mut Out) {
    for (t, _, _) in inputs(s) {
        // depth-first search along `Name!` references, looking for a way back to `t`
        let mut seen: BTreeSet<&str> = BTreeSet::new();
        let mut stack: Vec<&str> = vec![t.name.as_str()];
        let mut cyclic = false;
        while let Some(cur) = stack.pop() {
            let Some(Kind::Input { fields, .. }) = s.types.get(cur).map(|x| &x.kind) else { continue };
            for f in fields {
                if let Some(n) = required_input_ref(s, &f.ty) {
                    if n == t.name {
                        cyclic = true;
                    } else if seen.insert(n) {
                        stack.push(n);
                    }
                }
            }
        }
        if cyclic {
            err_at(out, "InputCycle", &t.name, format!("input object {} references itself through a chain of non-null, non-list fields", t.name));
        }
    }
}

/// OneOf Input Objects (editions after October 2021, §3.10 Type Validation rule 2.x):
/// "If the Input Object is a OneOf Input Object then: the type of the input field must be nullable;
/// the input field must not have a default value."
pub fn one_of_fields(s: &Schema, out: &mut Out) {
    for (t, fields, one_of) in inputs(s) {
        if !one_of {
            continue;
        }
        for f in fields {
            if f.ty.is_non_null() {
                err_at(out, "OneOfNullable", &t.name, format!("field {}.{}: {} of a OneOf input object must be nullable", t.name, f.name, f.ty));
            }
            if f.default.is_some() {
                err_at(out, "OneOfNoDefault", &t.name, format!("field {}.{} of a OneOf input object must not have a default value", t.name, f.name));
            }
        }
    }
}

// -------------------------------------------------------------- §3.13 Directives

const SPEC_DIRECTIVES: [&str; 5] = ["skip", "include", "deprecated", "specifiedBy", "oneOf"];

/// §3.13 rule 2: "A directive definition must not have a name which begins with "__"";
/// rule 3: arguments must not be `__`-named and must be of an input type.
pub fn directive_definitions(s: &Schema, out: &mut Out) {
    for d in s.directives.values().filter(|d| !SPEC_DIRECTIVES.contains(&d.name.as_str())) {
        if d.name.starts_with("__") {
            err(out, "DirectiveReservedName", format!("directive @{} has a reserved name", d.name));
        }
        for a in &d.args {
            if a.name.starts_with("__") {
                err(out, "DirectiveArgs", format!("argument @{}({}:) has a reserved name", d.name, a.name));
            }
            if s.types.contains_key(a.ty.base()) && !s.is_input(a.ty.base()) {
                err(out, "DirectiveArgs", format!("argument @{}({}: {}) is not of an input type", d.name, a.name, a.ty));
            }
        }
    }
}

// ------------------------------------------------------------------------ driver

/// All type-validation errors of the type system, grouped by rule in the order of `RULES`.
pub fn validate_schema(s: &Schema) -> Vec<SError> {
    let mut out = Vec::new();
    reserved_type_names(s, &mut out);
    root_query(s, &mut out);
    root_mutation(s, &mut out);
    root_subscription(s, &mut out);
    root_types_distinct(s, &mut out);
    known_types(s, &mut out);
    has_fields(s, &mut out);
    unique_field_names(s, &mut out);
    reserved_field_names(s, &mut out);
    field_output_types(s, &mut out);
    unique_arg_names(s, &mut out);
    reserved_arg_names(s, &mut out);
    arg_input_types(s, &mut out);
    unique_interfaces(s, &mut out);
    implements_interface_kind(s, &mut out);
    interface_implements_self(s, &mut out);
    valid_implementations(s, &mut out);
    union_members(s, &mut out);
    union_member_objects(s, &mut out);
    enum_values(s, &mut out);
    input_has_fields(s, &mut out);
    unique_input_field_names(s, &mut out);
    reserved_input_field_names(s, &mut out);
    input_field_input_types(s, &mut out);
    input_cycles(s, &mut out);
    one_of_fields(s, &mut out);
    directive_definitions(s, &mut out);
    out.sort_by_key(|e| RULES.iter().position(|r| *r == e.rule).unwrap_or(usize::MAX));
    out
}

/// §3.3: "All types within a GraphQL schema must have unique names." Checked on the document because the
/// IR keys types by name. Returns the names defined more than once (extensions do not count).
pub fn duplicate_type_names(doc: &TsDoc) -> Vec<String> {
    let names: Vec<&str> = doc.defs.iter().filter_map(|d| if let TsDef::Type(t) = d { (!t.extend).then_some(t.name.s.as_str()) } else { None }).collect();
    dups(names.into_iter()).into_iter().map(|s| s.to_string()).collect()
}

/// Validate a type-system document: duplicate type names, then `validate_schema` on the tolerant IR.
pub fn validate_sdl(sdl: &str) -> Result<Vec<SError>, String> {
    let doc = crate::parse::parse_ts(sdl).map_err(|e| format!("SDL parse error at {}:{}: {}", e.pos.line, e.pos.col, e.msg))?;
    let mut out: Vec<SError> = duplicate_type_names(&doc).into_iter().map(|n| SError { rule: "UniqueTypeNames", msg: format!("type {n} is defined more than once"), at: n.clone() }).collect();
    out.extend(validate_schema(&Schema::from_doc_tolerant(&doc)));
    Ok(out)
}

#[cfg(test)]
mod tests {
    use super::*;

    fn rules(sdl: &str) -> Vec<&'static str> {
        let mut r: Vec<&'static str> = validate_sdl(sdl).unwrap().into_iter().map(|e| e.rule).collect();
        r.dedup();
        r
    }
    fn ok(sdl: &str) {
        assert_eq!(validate_sdl(sdl).unwrap(), vec![], "{sdl}");
    }
    const Q: &str = "type Query { q: Int } ";

    #[test]
    fn every_emitted_rule_is_listed() {
        // `err` debug-asserts membership; the order of RULES is the reporting order
        assert_eq!(RULES.iter().collect::<BTreeSet<_>>().len(), RULES.len());
    }

    // §3.3.1 Root Operation Types
    #[test]
    fn s3_3_1_query_root_must_be_provided_and_be_an_object() {
        ok(Q);
        assert_eq!(rules("type A { f: Int }"), ["RootQuery"]);
        assert_eq!(rules("interface Query { f: Int }"), ["RootQuery"]);
        assert_eq!(rules("schema { query: U } type A { f: Int } union U = A"), ["RootQuery"]);
        assert_eq!(rules("schema { query: In } input In { f: Int }"), ["RootQuery"]);
        ok("schema { query: MyQueryRootType } type MyQueryRootType { someField: String }");
    }
    #[test]
    fn s3_3_1_mutation_and_subscription_roots_are_optional_objects() {
        ok(&format!("{Q} type Mutation {{ m: Int }} type Subscription {{ s: Int }}"));
        assert_eq!(rules(&format!("schema {{ query: Query mutation: M }} {Q}")), ["RootMutation"]);
        assert_eq!(rules(&format!("schema {{ query: Query mutation: E }} {Q} enum E {{ X }}")), ["RootMutation"]);
        assert_eq!(rules(&format!("schema {{ query: Query subscription: S }} {Q}")), ["RootSubscription"]);
        assert_eq!(rules(&format!("schema {{ query: Query subscription: I }} {Q} interface I {{ f: Int }}")), ["RootSubscription"]);
    }
    #[test]
    fn s3_3_1_root_types_must_all_be_different() {
        assert_eq!(rules(&format!("schema {{ query: Query mutation: Query }} {Q}")), ["RootTypesDistinct"]);
        assert_eq!(rules(&format!("schema {{ query: Query mutation: M subscription: M }} {Q} type M {{ m: Int }}")), ["RootTypesDistinct"]);
    }
    // §3.3 Schema: unique type names, reserved names
    #[test]
    fn s3_3_type_names_unique_and_not_reserved() {
        assert_eq!(rules(&format!("{Q} type A {{ f: Int }} enum A {{ X }}")), ["UniqueTypeNames"]);
        assert_eq!(rules(&format!("{Q} type __A {{ f: Int }}")), ["ReservedTypeName"]);
    }

    // §3.6 Objects, Type Validation
    #[test]
    fn s3_6_rule1_object_must_define_fields() {
        assert_eq!(rules(&format!("{Q} type A")), ["ObjectHasFields"]);
        assert_eq!(rules("type Query"), ["ObjectHasFields"]);
    }
    #[test]
    fn s3_6_rule2_field_names_unique_and_not_reserved() {
        assert_eq!(rules("type Query { q: Int q: Int }"), ["UniqueFieldNames"]);
        assert_eq!(rules("type Query { __q: Int }"), ["ReservedFieldName"]);
    }
    #[test]
    fn s3_6_rule2_3_field_must_return_an_output_type() {
        ok(&format!("{Q} type A {{ a: Int b: [E!]! c: A d: I e: U }} enum E {{ X }} interface I {{ f: Int }} union U = A"));
        assert_eq!(rules(&format!("{Q} type A {{ a: In }} input In {{ x: Int }}")), ["FieldOutputType"]);
        assert_eq!(rules(&format!("{Q} type A {{ a: [In!]! }} input In {{ x: Int }}")), ["FieldOutputType"]);
        assert_eq!(rules(&format!("{Q} type A {{ a: Zzz }}")), ["KnownType"]);
    }
    #[test]
    fn s3_6_rule2_4_arguments_take_input_types_and_unreserved_names() {
        ok(&format!("{Q} type A {{ a(x: Int, y: [In!] = [], z: E): Int }} input In {{ x: Int }} enum E {{ X }}"));
        assert_eq!(rules(&format!("{Q} type A {{ a(x: A): Int }}")), ["ArgInputType"]);
        assert_eq!(rules(&format!("{Q} type A {{ a(x: [U]): Int }} union U = A")), ["ArgInputType"]);
        assert_eq!(rules(&format!("{Q} interface I {{ a(x: I): Int }}")), ["ArgInputType"]);
        assert_eq!(rules(&format!("{Q} type A {{ a(__x: Int): Int }}")), ["ReservedArgName"]);
        assert_eq!(rules(&format!("{Q} type A {{ a(x: Int, x: Int): Int }}")), ["UniqueArgNames"]);
        assert_eq!(rules(&format!("{Q} type A {{ a(x: Zzz): Int }}")), ["KnownType"]);
    }
    #[test]
    fn s3_6_rule3_implements_unique_interfaces() {
        assert_eq!(rules(&format!("{Q} interface I {{ f: Int }} type A implements I & I {{ f: Int }}")), ["UniqueInterfaces"]);
        assert_eq!(rules(&format!("{Q} type B {{ f: Int }} type A implements B {{ f: Int }}")), ["ImplementsInterfaceKind"]);
        assert_eq!(rules(&format!("{Q} type A implements Zzz {{ f: Int }}")), ["KnownInterface"]);
        assert_eq!(rules(&format!("{Q} interface I implements Zzz {{ f: Int }}")), ["KnownInterface"]);
    }

    // §3.6 IsValidImplementation
    #[test]
    fn is_valid_implementation_step1_transitive_interfaces() {
        // §3.7: "Transitively implemented interfaces … must also be defined on an implementing type or interface."
        let base = "interface Node { id: ID! } interface Resource implements Node { id: ID! url: String }";
        ok(&format!("{Q} {base} interface Image implements Resource & Node {{ id: ID! url: String thumbnail: String }}"));
        assert_eq!(rules(&format!("{Q} {base} interface Image implements Resource {{ id: ID! url: String }}")), ["ImplementsTransitive"]);
        assert_eq!(rules(&format!("{Q} {base} type Image implements Resource {{ id: ID! url: String }}")), ["ImplementsTransitive"]);
    }
    #[test]
    fn is_valid_implementation_step2_every_interface_field() {
        // §3.6: `type Business implements NamedEntity & ValuedEntity` must carry name and value
        let i = "interface NamedEntity { name: String } interface ValuedEntity { value: Int }";
        ok(&format!("{Q} {i} type Business implements NamedEntity & ValuedEntity {{ name: String value: Int employeeCount: Int }}"));
        assert_eq!(rules(&format!("{Q} {i} type Business implements NamedEntity & ValuedEntity {{ name: String }}")), ["ImplementsField"]);
    }
    #[test]
    fn is_valid_implementation_step2_3_arguments_present_and_invariant() {
        let i = "interface I { f(x: Int, y: Int!): Int }";
        ok(&format!("{Q} {i} type A implements I {{ f(x: Int, y: Int!): Int }}"));
        assert_eq!(rules(&format!("{Q} {i} type A implements I {{ f(y: Int!): Int }}")), ["ImplementsArg"]);
        assert_eq!(rules(&format!("{Q} {i} type A implements I {{ f(x: Int): Int }}")), ["ImplementsArg"]);
        // invariant: neither a stricter nor a looser argument type is acceptable
        assert_eq!(rules(&format!("{Q} {i} type A implements I {{ f(x: Int!, y: Int!): Int }}")), ["ImplementsArgType"]);
        assert_eq!(rules(&format!("{Q} {i} type A implements I {{ f(x: Int, y: Int): Int }}")), ["ImplementsArgType"]);
        assert_eq!(rules(&format!("{Q} {i} type A implements I {{ f(x: String, y: Int!): Int }}")), ["ImplementsArgType"]);
    }
    #[test]
    fn is_valid_implementation_step2_4_additional_arguments_must_not_be_required() {
        let i = "interface I { f(x: Int): Int }";
        ok(&format!("{Q} {i} type A implements I {{ f(x: Int, extra: Int): Int }}"));
        ok(&format!("{Q} {i} type A implements I {{ f(x: Int, extra: [Int!]): Int }}"));
        assert_eq!(rules(&format!("{Q} {i} type A implements I {{ f(x: Int, extra: Int!): Int }}")), ["ImplementsExtraArgRequired"]);
    }
    #[test]
    fn is_valid_implementation_step2_5_covariant_return_types() {
        // IsValidImplementationFieldType steps 1–6
        let w = |it: &str, ft: &str| format!("{Q} interface I {{ f: {it} }} type A implements I {{ f: {ft} }} type B {{ b: Int }} union U = A | B interface K {{ k: Int }}");
        for (it, ft) in [("Int", "Int"), ("Int", "Int!"), ("Int!", "Int!"), ("[Int]", "[Int!]"), ("[Int]", "[Int]!"), ("[Int]", "[Int!]!"), ("[[Int]]", "[[Int!]!]!"), ("I", "A"), ("I", "A!"), ("[I]", "[A!]"), ("U", "A"), ("[U!]", "[A!]!"), ("I", "I")] {
            ok(&w(it, ft));
        }
        for (it, ft) in [("Int!", "Int"), ("[Int!]", "[Int]"), ("[Int]!", "[Int]"), ("Int", "String"), ("Int", "[Int]"), ("[Int]", "Int"), ("I", "B"), ("U", "I"), ("A", "I"), ("K", "A"), ("I", "U")] {
            assert_eq!(rules(&w(it, ft)), ["ImplementsFieldType"], "{it} <- {ft}");
        }
        // step 5 also lets an interface that implements I stand for I
        ok(&format!("{Q} interface I {{ f: I }} interface J implements I {{ f: J }} type A implements I & J {{ f: A }}"));
    }

    // §3.7 Interfaces
    #[test]
    fn s3_7_interface_must_define_fields_and_not_implement_itself() {
        assert_eq!(rules(&format!("{Q} interface I")), ["InterfaceHasFields"]);
        assert_eq!(rules(&format!("{Q} interface I implements I {{ f: Int }}")), ["InterfaceImplementsSelf"]);
    }
    #[test]
    fn s3_7_interface_definitions_must_not_contain_cyclic_references() {
        // §3.7 counter-example: `interface Node implements Named & Node`, `interface Named implements Node & Named`
        let r = rules(&format!("{Q} interface Node implements Named & Node {{ id: ID! name: String }} interface Named implements Node & Named {{ id: ID! name: String }}"));
        assert_eq!(r, ["InterfaceImplementsSelf"]);
        // without the self references the transitive rule catches the cycle
        let r = rules(&format!("{Q} interface Node implements Named {{ id: ID! name: String }} interface Named implements Node {{ id: ID! name: String }}"));
        assert_eq!(r, ["ImplementsTransitive"]);
    }

    // §3.8 Unions
    #[test]
    fn s3_8_union_members_are_one_or_more_unique_object_types() {
        let o = "type A { a: Int } type B { b: Int }";
        ok(&format!("{Q} {o} union U = A | B"));
        assert_eq!(rules(&format!("{Q} {o} union U")), ["UnionHasMembers"]);
        assert_eq!(rules(&format!("{Q} {o} union U = A | A")), ["UniqueUnionMembers"]);
        assert_eq!(rules(&format!("{Q} {o} interface I {{ f: Int }} union U = A | I")), ["UnionMemberObject"]);
        assert_eq!(rules(&format!("{Q} {o} union V = A union U = B | V")), ["UnionMemberObject"]);
        assert_eq!(rules(&format!("{Q} {o} union U = A | Int")), ["UnionMemberObject"]);
        assert_eq!(rules(&format!("{Q} {o} input In {{ x: Int }} union U = In")), ["UnionMemberObject"]);
        assert_eq!(rules(&format!("{Q} {o} union U = A | Zzz")), ["KnownType"]);
    }

    // §3.9 Enums
    #[test]
    fn s3_9_enum_defines_one_or_more_unique_values() {
        ok(&format!("{Q} enum E {{ X Y }}"));
        assert_eq!(rules(&format!("{Q} enum E")), ["EnumHasValues"]);
        assert_eq!(rules(&format!("{Q} enum E {{ X X }}")), ["UniqueEnumValues"]);
    }

    // §3.10 Input Objects
    #[test]
    fn s3_10_input_object_fields() {
        ok(&format!("{Q} input In {{ a: Int! b: [E] = [] c: In }} enum E {{ X }}"));
        assert_eq!(rules(&format!("{Q} input In")), ["InputHasFields"]);
        assert_eq!(rules(&format!("{Q} input In {{ a: Int a: Int }}")), ["UniqueInputFieldNames"]);
        assert_eq!(rules(&format!("{Q} input In {{ __a: Int }}")), ["ReservedInputFieldName"]);
        assert_eq!(rules(&format!("{Q} input In {{ a: Query }}")), ["InputFieldInputType"]);
        assert_eq!(rules(&format!("{Q} interface I {{ f: Int }} input In {{ a: [I!] }}")), ["InputFieldInputType"]);
        assert_eq!(rules(&format!("{Q} input In {{ a: Zzz }}")), ["KnownType"]);
    }
    #[test]
    fn s3_10_circular_references() {
        // §3.10 Circular References: the four examples of the section
        ok(&format!("{Q} input Example {{ self: Example value: String }}"));
        ok(&format!("{Q} input Example {{ self: [Example!]! value: String }}"));
        assert_eq!(rules(&format!("{Q} input Example {{ value: String self: Example! }}")), ["InputCycle"]);
        assert_eq!(rules(&format!("{Q} input First {{ second: Second! value: String }} input Second {{ first: First! value: String }}")), ["InputCycle"]);
        // a chain broken by one nullable link is fine; a type that merely leads into a cycle is not itself cyclic
        ok(&format!("{Q} input First {{ second: Second! }} input Second {{ first: First }}"));
        let e = validate_sdl(&format!("{Q} input Top {{ m: Mid! }} input Mid {{ b: Bot! }} input Bot {{ m: Mid! }}")).unwrap();
        assert_eq!(e.len(), 2);
        assert!(e.iter().all(|x| x.rule == "InputCycle" && !x.msg.contains("Top")));
    }
    #[test]
    fn one_of_input_objects() {
        // later editions, §3.10 OneOf Input Objects
        ok(&format!("{Q} input In @oneOf {{ a: Int b: String }}"));
        assert_eq!(rules(&format!("{Q} input In @oneOf {{ a: Int! b: String }}")), ["OneOfNullable"]);
        assert_eq!(rules(&format!("{Q} input In @oneOf {{ a: Int = 1 b: String }}")), ["OneOfNoDefault"]);
    }

    // §3.13 Directives
    #[test]
    fn s3_13_directive_definitions() {
        ok(&format!("{Q} directive @d(x: Int) on FIELD"));
        assert_eq!(rules(&format!("{Q} directive @__d on FIELD")), ["DirectiveReservedName"]);
        assert_eq!(rules(&format!("{Q} directive @d(x: Query) on FIELD")), ["DirectiveArgs"]);
        assert_eq!(rules(&format!("{Q} directive @d(__x: Int) on FIELD")), ["DirectiveArgs"]);
    }

    #[test]
    fn errors_name_the_type_definition_they_are_about() {
        let e = validate_sdl("schema { query: Query subscription: S } type Query { q: In } input In { a: In! } union U").unwrap();
        let at: Vec<(&str, &str)> = e.iter().map(|x| (x.rule, x.at.as_str())).collect();
        assert_eq!(at, [("RootSubscription", ""), ("FieldOutputType", "Query"), ("UnionHasMembers", "U"), ("InputCycle", "In")]);
    }

    #[test]
    fn errors_are_ordered_by_rule() {
        let r = rules("type Query { q: In } input In { a: In! } union U");
        assert_eq!(r, ["FieldOutputType", "UnionHasMembers", "InputCycle"]);
    }
}
