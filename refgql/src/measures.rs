//! Reference measures of an executable document, as the request limits of C10 use them.
//!
//! All four are *syntactic*: they are computed on the document as written, with every named
//! fragment spread treated as if it had been written as an inline fragment at the spread site
//! (`...F` ≡ `... on <F's type condition> { <F's selections> }`). Nothing is evaluated:
//! selections under `@skip(if: true)` / `@include(if: false)` count like any other, because a
//! limit is a property of the *document* ("The complexity calculation is done in the validation
//! phase and not the execution phase" — docs/en/src/depth_and_complexity.md). Meta-fields
//! (`__typename`, `__schema`, `__type`) are fields and are counted as such.
//!
//! * **depth** — "The depth is the number of nesting levels of the field" (same document); the
//!   documented example `{ a { b { c } } }` has depth 3. Fragments (inline or spread) do not add a
//!   level; only fields do.
//! * **complexity** — "The complexity is the number of fields in the query. The default
//!   complexity of each field is 1": a field weighs 1 + the complexity of its sub-selection
//!   (`child_complexity`), unless the field *declares its own rule*, in which case it weighs
//!   whatever the rule yields from its arguments and `child_complexity`. The declaration is looked
//!   up on the *static* parent type of the selection (the enclosing field's return type or the
//!   enclosing type condition), which is all a document-level measure can know.
//! * **nesting** — what `limit_recursive_depth` bounds ("Set the maximum recursive depth a query
//!   can have"): how many selection sets are nested inside the operation's own selection set on the
//!   deepest path. A flat operation `{ a b }` nests nothing (0); every field with a sub-selection
//!   and every fragment — inline, or spread counted as if written inline — opens one more set.
//! * **directives per field** — "the maximum number of directives on a single field": the largest
//!   number of directives written on one field node (directives on fragments are not on a field).
//!
//! A fragment that is (transitively) spread inside itself is expanded once per cycle and then
//! contributes nothing; such documents are invalid anyway and never reach a limit.

use crate::ast::*;
use crate::schema::Schema;

#[derive(Clone, Copy, Debug, PartialEq, Eq, Default)]
pub struct Measures {
    pub depth: u64,
    pub complexity: u64,
    pub nesting: u64,
    pub directives: u64,
}

/// A field node together with the static type its selection set belongs to (when a schema is
/// given and the type is known).
pub struct FieldSite<'a> {
    pub parent: Option<&'a str>,
    pub field: &'a Field,
}

/// Custom complexity rule hook: `Some(weight)` when the field at this site declares its own
/// rule (the argument is `child_complexity`), `None` for the default `1 + child_complexity`.
pub type Rule<'r> = dyn Fn(&FieldSite, u64) -> Option<u64> + 'r;

/// No field declares a rule.
pub fn no_rule(_: &FieldSite, _: u64) -> Option<u64> {
    None
}

struct Walk<'a> {
    doc: &'a ExecDoc,
    schema: Option<&'a Schema>,
    /// fragments currently being expanded (cycle guard)
    open: Vec<&'a str>,
}

impl<'a> Walk<'a> {
    fn child_type(&self, parent: Option<&'a str>, field: &Field) -> Option<&'a str> {
        let s = self.schema?;
        s.field(parent?, &field.name.s).map(|f| f.ty.base())
    }

    /// field nesting below (and including) this selection list
    fn depth(&mut self, sel: &'a [Selection]) -> u64 {
        let mut m = 0;
        for s in sel {
            let d = match s {
                Selection::Field(f) => 1 + self.depth(&f.sel),
                Selection::Inline(i) => self.depth(&i.sel),
                Selection::Spread(sp) => self.spread(&sp.name.s, 0, |w, fr| w.depth(&fr.sel)),
            };
            m = m.max(d);
        }
        m
    }

    fn spread<T>(&mut self, name: &'a str, empty: T, f: impl FnOnce(&mut Self, &'a Fragment) -> T) -> T
    where
        T: Sized,
    {
        if self.open.contains(&name) {
            return empty;
        }
        match self.doc.frag(name) {
            Some(fr) => {
                self.open.push(name);
                let r = f(self, fr);
                self.open.pop();
                r
            }
            None => empty,
        }
    }

    /// selection sets nested *inside* this one on the deepest path
    fn nesting(&mut self, sel: &'a [Selection]) -> u64 {
        let mut m = 0;
        for s in sel {
            let d = match s {
                Selection::Field(f) if f.sel.is_empty() => 0,
                Selection::Field(f) => 1 + self.nesting(&f.sel),
                Selection::Inline(i) => 1 + self.nesting(&i.sel),
                Selection::Spread(sp) => self.spread(&sp.name.s, 0, |w, fr| 1 + w.nesting(&fr.sel)),
            };
            m = m.max(d);
        }
        m
    }

    fn directives(&mut self, sel: &'a [Selection]) -> u64 {
        let mut m = 0;
        for s in sel {
            let d = match s {
                Selection::Field(f) => (f.directives.len() as u64).max(self.directives(&f.sel)),
                Selection::Inline(i) => self.directives(&i.sel),
                Selection::Spread(sp) => self.spread(&sp.name.s, 0, |w, fr| w.directives(&fr.sel)),
            };
            m = m.max(d);
        }
        m
    }

    fn complexity(&mut self, parent: Option<&'a str>, sel: &'a [Selection], rule: &Rule) -> u64 {
        let mut total: u64 = 0;
        for s in sel {
            let c = match s {
                Selection::Field(f) => {
                    let ct = self.child_type(parent, f);
                    let child = self.complexity(ct, &f.sel, rule);
                    rule(&FieldSite { parent, field: f }, child).unwrap_or_else(|| child.saturating_add(1))
                }
                Selection::Inline(i) => {
                    let p = i.cond.as_ref().map(|c| c.s.as_str()).or(parent);
                    self.complexity(p, &i.sel, rule)
                }
                Selection::Spread(sp) => self.spread(&sp.name.s, 0, |w, fr| w.complexity(Some(fr.cond.s.as_str()), &fr.sel, rule)),
            };
            total = total.saturating_add(c);
        }
        total
    }
}

fn walk<'a>(doc: &'a ExecDoc, schema: Option<&'a Schema>) -> Walk<'a> {
    Walk { doc, schema, open: Vec::new() }
}

/// Field nesting of one operation, fragments inlined.
pub fn depth(doc: &ExecDoc, op: &Operation) -> u64 {
    walk(doc, None).depth(&op.sel)
}

/// Selection sets nested inside the operation's selection set, fragments counted as inline fragments.
pub fn nesting(doc: &ExecDoc, op: &Operation) -> u64 {
    walk(doc, None).nesting(&op.sel)
}

/// Largest number of directives on one field node, fragments inlined.
pub fn directives_per_field(doc: &ExecDoc, op: &Operation) -> u64 {
    walk(doc, None).directives(&op.sel)
}

/// Complexity of one operation. `schema` supplies static parent types to the rule hook (without
/// it every site has `parent: None`).
pub fn complexity(doc: &ExecDoc, op: &Operation, schema: Option<&Schema>, rule: &Rule) -> u64 {
    let root = schema.and_then(|s| s.root(op.kind));
    walk(doc, schema).complexity(root, &op.sel, rule)
}

/// All four measures of one operation.
pub fn measure(doc: &ExecDoc, op: &Operation, schema: Option<&Schema>, rule: &Rule) -> Measures {
    Measures { depth: depth(doc, op), complexity: complexity(doc, op, schema, rule), nesting: nesting(doc, op), directives: directives_per_field(doc, op) }
}

#[cfg(test)]
mod tests {
    use super::*;
    use crate::parse::parse_exec;

    fn m(src: &str) -> Measures {
        let doc = parse_exec(src).unwrap();
        let op = doc.ops().next().unwrap();
        measure(&doc, op, None, &no_rule)
    }

    #[test]
    fn documented_depth_example() {
        // docs/en/src/depth_and_complexity.md: "The depth is the number of nesting levels of the
        // field, and the following is a query with a depth of `3`."
        assert_eq!(m("{ a { b { c } } }").depth, 3);
        assert_eq!(m("{ a }").depth, 1);
    }

    #[test]
    fn documented_complexity_example() {
        // same document: "The complexity is the number of fields in the query. The default
        // complexity of each field is `1`. Below is a query with a complexity of `6`."
        assert_eq!(m("{ a b c { d { e f } } }").complexity, 6);
    }

    #[test]
    fn fragments_count_as_if_written_inline() {
        let spread = m("{ obj { ...A } } fragment A on MyObj { a b ...A2 } fragment A2 on MyObj { obj { a } }");
        let inline = m("{ obj { ... on MyObj { a b ... on MyObj { obj { a } } } } }");
        assert_eq!(spread, inline);
        // the values the crate's own visitor tests state for these two documents
        assert_eq!((spread.depth, spread.complexity), (3, 5));
        // nesting: obj{} → fragment → fragment → obj{} = 4 sets inside the operation's
        assert_eq!(spread.nesting, 4);
    }

    #[test]
    fn nesting_counts_selection_sets_inside_the_root() {
        // limit_recursive_depth: "Set the maximum recursive depth a query can have."
        assert_eq!(m("{ a b }").nesting, 0);
        assert_eq!(m("{ o { a } }").nesting, 1);
        assert_eq!(m("{ ... { a } }").nesting, 1);
        assert_eq!(m("{ ... on Q { o { a } } b }").nesting, 2);
        // fragments do not add field depth
        assert_eq!(m("{ ... on Q { o { a } } b }").depth, 2);
    }

    #[test]
    fn directives_are_counted_per_field_node() {
        // limit_directives: "Set the maximum number of directives on a single field."
        assert_eq!(m("{ a }").directives, 0);
        assert_eq!(m("{ a @skip(if: false) b @skip(if: false) @include(if: true) }").directives, 2);
        // directives on fragments are not on a field; fields inside fragments are fields
        assert_eq!(m("{ ... @skip(if: false) { a } }").directives, 0);
        assert_eq!(m("{ ...F @skip(if: false) } fragment F on Q { o @include(if: true) { a } }").directives, 1);
    }

    #[test]
    fn skipped_selections_and_aliases_are_measured_as_written() {
        let x = m("{ k: o @skip(if: true) { a { b } } }");
        assert_eq!((x.depth, x.complexity, x.nesting, x.directives), (3, 3, 2, 1));
        // meta-fields are fields
        assert_eq!(m("{ __typename }").complexity, 1);
    }

    #[test]
    fn custom_rule_sees_static_parent_and_child_complexity() {
        let s = Schema::from_sdl("type Query { items(n: Int! = 2): [Item!]! five: Int node: Node } interface Node { five: Int } type Item implements Node { a: Int five: Int }").unwrap();
        let rule = |site: &FieldSite, child: u64| -> Option<u64> {
            match (site.parent?, site.field.name.s.as_str()) {
                ("Query", "items") => Some(3 * child + 1),
                ("Query", "five") | ("Item", "five") => Some(5),
                _ => None,
            }
        };
        let c = |src: &str| {
            let doc = parse_exec(src).unwrap();
            let op = doc.ops().next().unwrap();
            complexity(&doc, op, Some(&s), &rule)
        };
        assert_eq!(c("{ items { a five } }"), 3 * 6 + 1);
        assert_eq!(c("{ items { ...F } five } fragment F on Item { a }"), 3 + 1 + 5);
        // the interface's field declares no rule; the object's does
        assert_eq!(c("{ node { five } }"), 2);
        assert_eq!(c("{ node { ... on Item { five } } }"), 6);
    }

    #[test]
    fn cyclic_spreads_terminate() {
        assert_eq!(m("{ ...F } fragment F on Q { a ...F }").complexity, 1);
    }
}
