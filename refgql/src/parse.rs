//! Recursive-descent parser of the reference model (executable and type-system
//! documents, October 2021 grammar).

use crate::ast::*;
use crate::lex::{LexError, Lexer, Tok, Token};

#[derive(Clone, Debug, PartialEq)]
pub struct ParseError {
    pub msg: String,
    pub pos: Pos,
    pub off: usize,
}
impl From<LexError> for ParseError {
    fn from(e: LexError) -> Self {
        ParseError { msg: e.msg, pos: e.pos, off: e.off }
    }
}

type R<T> = Result<T, ParseError>;

/// Documented deviation of the crate: selection sets nest at most this deep.
pub const MAX_SELECTION_DEPTH: usize = 64;

struct P<'a> {
    lx: Lexer<'a>,
    tok: Token,
    depth: usize,
    limit_depth: bool,
}

impl<'a> P<'a> {
    fn new(src: &'a str) -> R<P<'a>> {
        let mut lx = Lexer::new(src);
        let tok = lx.next()?;
        Ok(P { lx, tok, depth: 0, limit_depth: true })
    }
    fn adv(&mut self) -> R<Token> {
        let n = self.lx.next()?;
        Ok(std::mem::replace(&mut self.tok, n))
    }
    fn err<T>(&self, msg: &str) -> R<T> {
        Err(ParseError { msg: format!("{msg}, found {:?}", self.tok.t), pos: self.tok.pos, off: self.tok.off })
    }
    fn is_p(&self, p: &str) -> bool {
        matches!(&self.tok.t, Tok::Punct(q) if *q == p)
    }
    fn is_kw(&self, k: &str) -> bool {
        matches!(&self.tok.t, Tok::Name(n) if n == k)
    }
    fn eat_p(&mut self, p: &str) -> R<bool> {
        if self.is_p(p) {
            self.adv()?;
            Ok(true)
        } else {
            Ok(false)
        }
    }
    fn expect_p(&mut self, p: &str) -> R<Pos> {
        if self.is_p(p) {
            Ok(self.adv()?.pos)
        } else {
            self.err(&format!("expected '{p}'"))
        }
    }
    fn expect_kw(&mut self, k: &str) -> R<Pos> {
        if self.is_kw(k) {
            Ok(self.adv()?.pos)
        } else {
            self.err(&format!("expected '{k}'"))
        }
    }
    fn name(&mut self) -> R<PName> {
        if let Tok::Name(n) = &self.tok.t {
            let s = n.clone();
            let pos = self.adv()?.pos;
            Ok(PName { s, pos })
        } else {
            self.err("expected a name")
        }
    }

    // ---------------------------------------------------------------- values
    fn value(&mut self, is_const: bool) -> R<PValue> {
        let pos = self.tok.pos;
        let v = match self.tok.t.clone() {
            Tok::Punct("$") => {
                if is_const {
                    return self.err("variable in constant context");
                }
                self.adv()?;
                Value::Var(self.name()?.s)
            }
            Tok::Int(s) => {
                self.adv()?;
                Value::Int(s)
            }
            Tok::Float(s) => {
                self.adv()?;
                Value::Float(s)
            }
            Tok::Str(s) | Tok::BlockStr(s) => {
                self.adv()?;
                Value::Str(s)
            }
            Tok::Name(n) => {
                self.adv()?;
                match n.as_str() {
                    "true" => Value::Bool(true),
                    "false" => Value::Bool(false),
                    "null" => Value::Null,
                    _ => Value::Enum(n),
                }
            }
            Tok::Punct("[") => {
                self.adv()?;
                let mut items = Vec::new();
                while !self.is_p("]") {
                    items.push(self.value(is_const)?);
                }
                self.adv()?;
                Value::List(items)
            }
            Tok::Punct("{") => {
                self.adv()?;
                let mut fields = Vec::new();
                while !self.is_p("}") {
                    let n = self.name()?;
                    self.expect_p(":")?;
                    let v = self.value(is_const)?;
                    fields.push((n, v));
                }
                self.adv()?;
                Value::Object(fields)
            }
            _ => return self.err("expected a value"),
        };
        Ok(PValue { v, pos })
    }

    fn ty(&mut self) -> R<Type> {
        let t = if self.eat_p("[")? {
            let inner = self.ty()?;
            self.expect_p("]")?;
            Type::List(Box::new(inner))
        } else {
            Type::Named(self.name()?.s)
        };
        if self.eat_p("!")? {
            Ok(Type::NonNull(Box::new(t)))
        } else {
            Ok(t)
        }
    }

    fn arguments(&mut self, is_const: bool) -> R<Vec<(PName, PValue)>> {
        let mut args = Vec::new();
        if self.eat_p("(")? {
            loop {
                let n = self.name()?;
                self.expect_p(":")?;
                let v = self.value(is_const)?;
                args.push((n, v));
                if self.is_p(")") {
                    break;
                }
            }
            self.adv()?;
        }
        Ok(args)
    }

    fn directives(&mut self, is_const: bool) -> R<Vec<Directive>> {
        let mut ds = Vec::new();
        while self.is_p("@") {
            let pos = self.adv()?.pos;
            let name = self.name()?;
            let args = self.arguments(is_const)?;
            ds.push(Directive { name, args, pos });
        }
        Ok(ds)
    }

    // ------------------------------------------------------------ executable
    fn selection_set(&mut self) -> R<Vec<Selection>> {
        self.expect_p("{")?;
        self.depth += 1;
        if self.limit_depth && self.depth > MAX_SELECTION_DEPTH {
            return self.err("selection sets nested too deeply");
        }
        let mut sels = Vec::new();
        loop {
            sels.push(self.selection()?);
            if self.is_p("}") {
                break;
            }
        }
        self.adv()?;
        self.depth -= 1;
        Ok(sels)
    }

    fn selection(&mut self) -> R<Selection> {
        let pos = self.tok.pos;
        if self.eat_p("...")? {
            if self.is_kw("on") {
                self.adv()?;
                let cond = self.name()?;
                let directives = self.directives(false)?;
                let sel = self.selection_set()?;
                return Ok(Selection::Inline(Inline { cond: Some(cond), directives, sel, pos }));
            }
            if let Tok::Name(_) = self.tok.t {
                let name = self.name()?;
                let directives = self.directives(false)?;
                return Ok(Selection::Spread(Spread { name, directives, pos }));
            }
            let directives = self.directives(false)?;
            let sel = self.selection_set()?;
            return Ok(Selection::Inline(Inline { cond: None, directives, sel, pos }));
        }
        let first = self.name()?;
        let (alias, name) = if self.eat_p(":")? { (Some(first), self.name()?) } else { (None, first) };
        let args = self.arguments(false)?;
        let directives = self.directives(false)?;
        let sel = if self.is_p("{") { self.selection_set()? } else { Vec::new() };
        Ok(Selection::Field(Field { alias, name, args, directives, sel, pos }))
    }

    fn var_defs(&mut self) -> R<Vec<VarDef>> {
        let mut vs = Vec::new();
        if self.eat_p("(")? {
            loop {
                let pos = self.expect_p("$")?;
                let name = self.name()?;
                self.expect_p(":")?;
                let ty_pos = self.tok.pos;
                let ty = self.ty()?;
                let default = if self.eat_p("=")? { Some(self.value(true)?) } else { None };
                let directives = self.directives(true)?;
                vs.push(VarDef { name, ty, ty_pos, default, directives, pos });
                if self.is_p(")") {
                    break;
                }
            }
            self.adv()?;
        }
        Ok(vs)
    }

    fn exec_def(&mut self) -> R<ExecDef> {
        let pos = self.tok.pos;
        if self.is_p("{") {
            let sel = self.selection_set()?;
            return Ok(ExecDef::Op(Operation { kind: OpKind::Query, shorthand: true, name: None, vars: vec![], directives: vec![], sel, pos }));
        }
        let kind = match &self.tok.t {
            Tok::Name(n) if n == "query" => Some(OpKind::Query),
            Tok::Name(n) if n == "mutation" => Some(OpKind::Mutation),
            Tok::Name(n) if n == "subscription" => Some(OpKind::Subscription),
            _ => None,
        };
        if let Some(kind) = kind {
            self.adv()?;
            let name = if let Tok::Name(_) = self.tok.t { Some(self.name()?) } else { None };
            let vars = self.var_defs()?;
            let directives = self.directives(false)?;
            let sel = self.selection_set()?;
            return Ok(ExecDef::Op(Operation { kind, shorthand: false, name, vars, directives, sel, pos }));
        }
        if self.is_kw("fragment") {
            self.adv()?;
            // FragmentName :: Name but not `on`
            if self.is_kw("on") {
                return self.err("fragment name must not be 'on'");
            }
            let name = self.name()?;
            self.expect_kw("on")?;
            let cond = self.name()?;
            let directives = self.directives(false)?;
            let sel = self.selection_set()?;
            return Ok(ExecDef::Frag(Fragment { name, cond, directives, sel, pos }));
        }
        self.err("expected an executable definition")
    }

    // ----------------------------------------------------------- type system
    fn description(&mut self) -> R<Option<String>> {
        match self.tok.t.clone() {
            Tok::Str(s) | Tok::BlockStr(s) => {
                self.adv()?;
                Ok(Some(s))
            }
            _ => Ok(None),
        }
    }

    fn input_value_def(&mut self) -> R<InputValueDef> {
        let desc = self.description()?;
        let name = self.name()?;
        self.expect_p(":")?;
        let ty = self.ty()?;
        let default = if self.eat_p("=")? { Some(self.value(true)?) } else { None };
        let directives = self.directives(true)?;
        Ok(InputValueDef { desc, name, ty, default, directives })
    }

    fn args_def(&mut self) -> R<Vec<InputValueDef>> {
        let mut v = Vec::new();
        if self.eat_p("(")? {
            loop {
                v.push(self.input_value_def()?);
                if self.is_p(")") {
                    break;
                }
            }
            self.adv()?;
        }
        Ok(v)
    }

    fn fields_def(&mut self) -> R<Vec<FieldDef>> {
        let mut v = Vec::new();
        if self.eat_p("{")? {
            loop {
                let desc = self.description()?;
                let name = self.name()?;
                let args = self.args_def()?;
                self.expect_p(":")?;
                let ty = self.ty()?;
                let directives = self.directives(true)?;
                v.push(FieldDef { desc, name, args, ty, directives });
                if self.is_p("}") {
                    break;
                }
            }
            self.adv()?;
        }
        Ok(v)
    }

    fn implements(&mut self) -> R<Vec<PName>> {
        let mut v = Vec::new();
        if self.is_kw("implements") {
            self.adv()?;
            self.eat_p("&")?;
            v.push(self.name()?);
            while self.eat_p("&")? {
                v.push(self.name()?);
            }
        }
        Ok(v)
    }

    fn ts_def(&mut self) -> R<TsDef> {
        let pos = self.tok.pos;
        let desc = self.description()?;
        let extend = if self.is_kw("extend") {
            if desc.is_some() {
                return self.err("extensions take no description");
            }
            self.adv()?;
            true
        } else {
            false
        };
        let Tok::Name(kw) = self.tok.t.clone() else { return self.err("expected a type system definition") };
        match kw.as_str() {
            "schema" => {
                self.adv()?;
                let directives = self.directives(true)?;
                let mut roots = Vec::new();
                if self.eat_p("{")? {
                    loop {
                        let k = self.name()?;
                        let kind = match k.s.as_str() {
                            "query" => OpKind::Query,
                            "mutation" => OpKind::Mutation,
                            "subscription" => OpKind::Subscription,
                            _ => return Err(ParseError { msg: "expected an operation type".into(), pos: k.pos, off: 0 }),
                        };
                        self.expect_p(":")?;
                        roots.push((kind, self.name()?));
                        if self.is_p("}") {
                            break;
                        }
                    }
                    self.adv()?;
                } else if !extend || directives.is_empty() {
                    return self.err("expected '{'");
                }
                Ok(TsDef::Schema(SchemaDef { desc, extend, directives, roots, pos }))
            }
            "scalar" => {
                self.adv()?;
                let name = self.name()?;
                let directives = self.directives(true)?;
                if extend && directives.is_empty() {
                    return self.err("scalar extension needs directives");
                }
                Ok(TsDef::Type(TypeDef { desc, extend, name, directives, kind: TypeDefKind::Scalar, pos }))
            }
            "type" | "interface" => {
                self.adv()?;
                let name = self.name()?;
                let interfaces = self.implements()?;
                let directives = self.directives(true)?;
                let fields = self.fields_def()?;
                if extend && interfaces.is_empty() && directives.is_empty() && fields.is_empty() {
                    return self.err("empty extension");
                }
                let kind = if kw == "type" { TypeDefKind::Object { interfaces, fields } } else { TypeDefKind::Interface { interfaces, fields } };
                Ok(TsDef::Type(TypeDef { desc, extend, name, directives, kind, pos }))
            }
            "union" => {
                self.adv()?;
                let name = self.name()?;
                let directives = self.directives(true)?;
                let mut members = Vec::new();
                if self.eat_p("=")? {
                    self.eat_p("|")?;
                    members.push(self.name()?);
                    while self.eat_p("|")? {
                        members.push(self.name()?);
                    }
                }
                if extend && directives.is_empty() && members.is_empty() {
                    return self.err("empty extension");
                }
                Ok(TsDef::Type(TypeDef { desc, extend, name, directives, kind: TypeDefKind::Union { members }, pos }))
            }
            "enum" => {
                self.adv()?;
                let name = self.name()?;
                let directives = self.directives(true)?;
                let mut values = Vec::new();
                if self.eat_p("{")? {
                    loop {
                        let desc = self.description()?;
                        let n = self.name()?;
                        if matches!(n.s.as_str(), "true" | "false" | "null") {
                            return Err(ParseError { msg: "enum value must not be true, false or null".into(), pos: n.pos, off: 0 });
                        }
                        let directives = self.directives(true)?;
                        values.push(EnumValueDef { desc, name: n, directives });
                        if self.is_p("}") {
                            break;
                        }
                    }
                    self.adv()?;
                }
                if extend && directives.is_empty() && values.is_empty() {
                    return self.err("empty extension");
                }
                Ok(TsDef::Type(TypeDef { desc, extend, name, directives, kind: TypeDefKind::Enum { values }, pos }))
            }
            "input" => {
                self.adv()?;
                let name = self.name()?;
                let directives = self.directives(true)?;
                let mut fields = Vec::new();
                if self.eat_p("{")? {
                    loop {
                        fields.push(self.input_value_def()?);
                        if self.is_p("}") {
                            break;
                        }
                    }
                    self.adv()?;
                }
                if extend && directives.is_empty() && fields.is_empty() {
                    return self.err("empty extension");
                }
                Ok(TsDef::Type(TypeDef { desc, extend, name, directives, kind: TypeDefKind::Input { fields }, pos }))
            }
            "directive" => {
                if extend {
                    return self.err("directives cannot be extended");
                }
                self.adv()?;
                self.expect_p("@")?;
                let name = self.name()?;
                let args = self.args_def()?;
                let repeatable = if self.is_kw("repeatable") {
                    self.adv()?;
                    true
                } else {
                    false
                };
                self.expect_kw("on")?;
                self.eat_p("|")?;
                let mut locations = vec![self.name()?];
                while self.eat_p("|")? {
                    locations.push(self.name()?);
                }
                Ok(TsDef::Directive(DirectiveDef { desc, name, args, repeatable, locations, pos }))
            }
            _ => self.err("expected a type system definition"),
        }
    }
}

pub fn parse_exec(src: &str) -> R<ExecDoc> {
    let mut p = P::new(src)?;
    let mut defs = Vec::new();
    loop {
        defs.push(p.exec_def()?);
        if p.tok.t == Tok::Eof {
            break;
        }
    }
    Ok(ExecDoc { defs })
}

pub fn parse_ts(src: &str) -> R<TsDoc> {
    let mut p = P::new(src)?;
    let mut defs = Vec::new();
    loop {
        defs.push(p.ts_def()?);
        if p.tok.t == Tok::Eof {
            break;
        }
    }
    Ok(TsDoc { defs })
}

/// Parse a single (possibly non-constant) value, e.g. for printer round-trips.
pub fn parse_value(src: &str, is_const: bool) -> R<PValue> {
    let mut p = P::new(src)?;
    let v = p.value(is_const)?;
    if p.tok.t != Tok::Eof {
        return p.err("trailing input after value");
    }
    Ok(v)
}

#[cfg(test)]
mod tests {
    use super::*;

    #[test]
    fn spec_examples_executable() {
        // §2.3 example no. 5 / 6, §2.8 fragments, §2.10 variables
        assert!(parse_exec("mutation { likeStory(storyID: 12345) { story { likeCount } } }").is_ok());
        assert!(parse_exec("{ field }").is_ok());
        assert!(parse_exec("query withFragments { user(id: 4) { friends(first: 10) { ...friendFields } } } fragment friendFields on User { id name profilePic(size: 50) }").is_ok());
        assert!(parse_exec("query inlineFragmentNoType($expandedInfo: Boolean) { user(handle: \"zuck\") { id ... @include(if: $expandedInfo) { firstName } } }").is_ok());
        assert!(parse_exec("query ($a: [ Int ] = [1, 2] @d) { f }").is_ok());
        assert!(parse_exec("query () { f }").is_err());
        assert!(parse_exec("{ }").is_err());
        assert!(parse_exec("fragment on on Q { a }").is_err());
        assert!(parse_exec("{ f(a: [01]) }").is_err());
        assert!(parse_exec("{ f(a: trueish) }").is_ok());
        assert!(parse_exec("query Q($a: Int = $b) { f }").is_err());
    }

    #[test]
    fn spec_examples_type_system() {
        assert!(parse_ts("schema { query: MyQueryRootType mutation: MyMutationRootType }").is_ok());
        assert!(parse_ts("\"\"\"desc\"\"\" type Person implements & Named & Aged @d { \"n\" name(arg: Int = 1 @x): String @deprecated(reason: \"r\") }").is_ok());
        assert!(parse_ts("union SearchResult = | Photo | Person").is_ok());
        assert!(parse_ts("enum E { true }").is_err());
        assert!(parse_ts("directive @delegateField(name: String!) repeatable on OBJECT | INTERFACE").is_ok());
        assert!(parse_ts("extend type Q").is_err());
        assert!(parse_ts("input Point2D @oneOf { x: Float y: Float = 1.5 }").is_ok());
        assert!(parse_ts("interface I implements J { a: Int }").is_ok());
        assert!(parse_ts("scalar Date @specifiedBy(url: \"x\")").is_ok());
    }
}
