//! Recursive-descent parser of the reference model (executable and type-system
//! documents, October 2021 grammar).

use crate::ast::*;
use crate::lex::{LexError, Lexer, Tok, Token};

#[derive(Clone, Debug, PartialEq)]
pub struct ParseError {
    pub msg: String,
    pub pos: Pos,
    pub off: usize,
}
impl From<LexError> for ParseError {
    fn from(e: LexError) -> Self {
        ParseError { msg: e.msg, pos: e.pos, off: e.off }
    }
}

type R<T> = Result<T, ParseError>;

/// Documented deviation of the crate: selection sets nest at most this deep
/// *below* the selection set of an operation or fragment definition (which is
/// level 0), i.e. 65 levels of braces parse and 66 do not
/// (`MAX_RECURSION_DEPTH` in parser/src/parse/executable.rs, pinned by
/// parser/tests/recursion_limit.rs).
pub const MAX_SELECTION_DEPTH: usize = 64;

/// A syntax-tree node the parser started at a token (pre-order = source order).
#[derive(Clone, Debug, PartialEq)]
pub struct Event {
    pub kind: &'static str,
    pub pos: Pos,
    /// char offset of the node's first token
    pub off: usize,
}

/// Which production consumed a token.
#[derive(Clone, Debug, PartialEq)]
pub struct TokenUse {
    /// char offsets of the token (start, end)
    pub off: usize,
    pub end: usize,
    /// innermost production active when the token was consumed, and the one around it
    pub prod: &'static str,
    pub outer: &'static str,
}

/// Side table of a traced parse (`parse_exec_traced`, `parse_ts_traced`).
#[derive(Clone, Debug, Default, PartialEq)]
pub struct Trace {
    pub events: Vec<Event>,
    pub tokens: Vec<TokenUse>,
    /// production stack at the point of failure (innermost last); empty on success
    pub failed_in: Vec<&'static str>,
}

struct P<'a> {
    lx: Lexer<'a>,
    tok: Token,
    tok_end: usize,
    depth: usize,
    limit_depth: bool,
    stack: Vec<&'static str>,
    trace: Option<Trace>,
}

impl<'a> P<'a> {
    fn new(src: &'a str) -> R<P<'a>> {
        let mut lx = Lexer::new(src);
        let tok = lx.next()?;
        let tok_end = lx.offset();
        Ok(P { lx, tok, tok_end, depth: 0, limit_depth: true, stack: Vec::new(), trace: None })
    }
    fn adv(&mut self) -> R<Token> {
        if let Some(t) = &mut self.trace {
            let n = self.stack.len();
            t.tokens.push(TokenUse {
                off: self.tok.off,
                end: self.tok_end,
                prod: if n >= 1 { self.stack[n - 1] } else { "Document" },
                outer: if n >= 2 { self.stack[n - 2] } else { "Document" },
            });
        }
        let n = self.lx.next()?;
        self.tok_end = self.lx.offset();
        Ok(std::mem::replace(&mut self.tok, n))
    }
    /// Enter a production (popped by `leave`; left on the stack when an error propagates).
    fn enter(&mut self, prod: &'static str) {
        self.stack.push(prod);
    }
    fn leave(&mut self) {
        self.stack.pop();
    }
    /// Record that a tree node of `kind` starts at the current token.
    fn node(&mut self, kind: &'static str) {
        if let Some(t) = &mut self.trace {
            t.events.push(Event { kind, pos: self.tok.pos, off: self.tok.off });
        }
    }
    fn node_at(&mut self, idx: usize, kind: &'static str, pos: Pos, off: usize) {
        if let Some(t) = &mut self.trace {
            t.events.insert(idx, Event { kind, pos, off });
        }
    }
    fn event_count(&self) -> usize {
        self.trace.as_ref().map(|t| t.events.len()).unwrap_or(0)
    }
    fn err<T>(&self, msg: &str) -> R<T> {
        Err(ParseError { msg: format!("{msg}, found {:?}", self.tok.t), pos: self.tok.pos, off: self.tok.off })
    }
    fn is_p(&self, p: &str) -> bool {
        matches!(&self.tok.t, Tok::Punct(q) if *q == p)
    }
    fn is_kw(&self, k: &str) -> bool {
        matches!(&self.tok.t, Tok::Name(n) if n == k)
    }
    fn eat_p(&mut self, p: &str) -> R<bool> {
        if self.is_p(p) {
            self.adv()?;
            Ok(true)
        } else {
            Ok(false)
        }
    }
    fn expect_p(&mut self, p: &str) -> R<Pos> {
        if self.is_p(p) {
            Ok(self.adv()?.pos)
        } else {
            self.err(&format!("expected '{p}'"))
        }
    }
    fn expect_kw(&mut self, k: &str) -> R<Pos> {
        if self.is_kw(k) {
            Ok(self.adv()?.pos)
        } else {
            self.err(&format!("expected '{k}'"))
        }
    }
    fn name(&mut self) -> R<PName> {
        if let Tok::Name(n) = &self.tok.t {
            let s = n.clone();
            let pos = self.adv()?.pos;
            Ok(PName { s, pos })
        } else {
            self.err("expected a name")
        }
    }

    // ---------------------------------------------------------------- values
    fn value(&mut self, is_const: bool) -> R<PValue> {
        self.enter("Value");
        let r = self.value_inner(is_const);
        if r.is_ok() {
            self.leave();
        }
        r
    }

    fn value_inner(&mut self, is_const: bool) -> R<PValue> {
        let pos = self.tok.pos;
        let v = match self.tok.t.clone() {
            Tok::Punct("$") => {
                if is_const {
                    return self.err("variable in constant context");
                }
                self.enter("Variable");
                self.adv()?;
                let n = self.name()?.s;
                self.leave();
                Value::Var(n)
            }
            Tok::Int(s) => {
                self.adv()?;
                Value::Int(s)
            }
            Tok::Float(s) => {
                self.adv()?;
                Value::Float(s)
            }
            Tok::Str(s) | Tok::BlockStr(s) => {
                self.adv()?;
                Value::Str(s)
            }
            Tok::Name(n) => {
                self.adv()?;
                match n.as_str() {
                    "true" => Value::Bool(true),
                    "false" => Value::Bool(false),
                    "null" => Value::Null,
                    _ => Value::Enum(n),
                }
            }
            Tok::Punct("[") => {
                self.enter("ListValue");
                self.adv()?;
                let mut items = Vec::new();
                while !self.is_p("]") {
                    items.push(self.value(is_const)?);
                }
                self.adv()?;
                self.leave();
                Value::List(items)
            }
            Tok::Punct("{") => {
                self.enter("ObjectValue");
                self.adv()?;
                let mut fields = Vec::new();
                while !self.is_p("}") {
                    self.enter("ObjectField");
                    let n = self.name()?;
                    self.expect_p(":")?;
                    let v = self.value(is_const)?;
                    self.leave();
                    fields.push((n, v));
                }
                self.adv()?;
                self.leave();
                Value::Object(fields)
            }
            _ => return self.err("expected a value"),
        };
        Ok(PValue { v, pos })
    }

    /// A type in a position where the tree has a node for it.
    fn ty_node(&mut self) -> R<Type> {
        self.node("Type");
        self.enter("Type");
        let t = self.ty()?;
        self.leave();
        Ok(t)
    }

    fn ty(&mut self) -> R<Type> {
        let t = if self.eat_p("[")? {
            let inner = self.ty()?;
            self.expect_p("]")?;
            Type::List(Box::new(inner))
        } else {
            Type::Named(self.name()?.s)
        };
        if self.eat_p("!")? {
            Ok(Type::NonNull(Box::new(t)))
        } else {
            Ok(t)
        }
    }

    fn arguments(&mut self, is_const: bool) -> R<Vec<(PName, PValue)>> {
        let mut args = Vec::new();
        if self.is_p("(") {
            self.enter("Arguments");
            self.adv()?;
            loop {
                self.enter("Argument");
                self.node("ArgName");
                let n = self.name()?;
                self.expect_p(":")?;
                self.node("Value");
                let v = self.value(is_const)?;
                self.leave();
                args.push((n, v));
                if self.is_p(")") {
                    break;
                }
            }
            self.adv()?;
            self.leave();
        }
        Ok(args)
    }

    fn directives(&mut self, is_const: bool) -> R<Vec<Directive>> {
        let mut ds = Vec::new();
        while self.is_p("@") {
            self.enter("Directive");
            self.node("Directive");
            let pos = self.adv()?.pos;
            self.node("DirName");
            let name = self.name()?;
            let args = self.arguments(is_const)?;
            self.leave();
            ds.push(Directive { name, args, pos });
        }
        Ok(ds)
    }

    // ------------------------------------------------------------ executable
    fn selection_set(&mut self) -> R<Vec<Selection>> {
        self.enter("SelectionSet");
        self.node("SelectionSet");
        self.expect_p("{")?;
        self.depth += 1;
        // the selection set of the definition itself is level 0 (see MAX_SELECTION_DEPTH)
        if self.limit_depth && self.depth > MAX_SELECTION_DEPTH + 1 {
            self.enter("NestingLimit");
            return self.err("selection sets nested too deeply");
        }
        let mut sels = Vec::new();
        loop {
            sels.push(self.selection()?);
            if self.is_p("}") {
                break;
            }
        }
        self.adv()?;
        self.depth -= 1;
        self.leave();
        Ok(sels)
    }

    fn selection(&mut self) -> R<Selection> {
        let pos = self.tok.pos;
        let off = self.tok.off;
        self.node("Selection");
        if self.is_p("...") {
            let at = self.event_count();
            self.enter("FragmentSpreadOrInlineFragment");
            self.adv()?;
            if self.is_kw("on") {
                self.leave();
                self.enter("InlineFragment");
                self.node_at(at, "Inline", pos, off);
                self.enter("TypeCondition");
                self.node("TypeCondition");
                self.adv()?;
                self.node("CondName");
                let cond = self.name()?;
                self.leave();
                let directives = self.directives(false)?;
                let sel = self.selection_set()?;
                self.leave();
                return Ok(Selection::Inline(Inline { cond: Some(cond), directives, sel, pos }));
            }
            if let Tok::Name(_) = self.tok.t {
                self.leave();
                self.enter("FragmentSpread");
                self.node_at(at, "Spread", pos, off);
                self.node("SpreadName");
                let name = self.name()?;
                let directives = self.directives(false)?;
                self.leave();
                return Ok(Selection::Spread(Spread { name, directives, pos }));
            }
            self.leave();
            self.enter("InlineFragment");
            self.node_at(at, "Inline", pos, off);
            let directives = self.directives(false)?;
            let sel = self.selection_set()?;
            self.leave();
            return Ok(Selection::Inline(Inline { cond: None, directives, sel, pos }));
        }
        self.enter("Field");
        self.node("Field");
        let at = self.event_count();
        let first_pos = self.tok.pos;
        let first_off = self.tok.off;
        let first = self.name()?;
        let (alias, name) = if self.eat_p(":")? {
            self.node_at(at, "Alias", first_pos, first_off);
            self.node("FieldName");
            (Some(first), self.name()?)
        } else {
            self.node_at(at, "FieldName", first_pos, first_off);
            (None, first)
        };
        let args = self.arguments(false)?;
        let directives = self.directives(false)?;
        let sel = if self.is_p("{") { self.selection_set()? } else { Vec::new() };
        self.leave();
        Ok(Selection::Field(Field { alias, name, args, directives, sel, pos }))
    }

    fn var_defs(&mut self) -> R<Vec<VarDef>> {
        let mut vs = Vec::new();
        if self.is_p("(") {
            self.enter("VariableDefinitions");
            self.adv()?;
            loop {
                self.enter("VariableDefinition");
                self.node("VarDef");
                let pos = self.expect_p("$")?;
                self.node("VarName");
                let name = self.name()?;
                self.expect_p(":")?;
                let ty_pos = self.tok.pos;
                let ty = self.ty_node()?;
                let default = if self.is_p("=") {
                    self.enter("DefaultValue");
                    self.adv()?;
                    self.node("Value");
                    let v = self.value(true)?;
                    self.leave();
                    Some(v)
                } else {
                    None
                };
                let directives = self.directives(true)?;
                self.leave();
                vs.push(VarDef { name, ty, ty_pos, default, directives, pos });
                if self.is_p(")") {
                    break;
                }
            }
            self.adv()?;
            self.leave();
        }
        Ok(vs)
    }

    fn exec_def(&mut self) -> R<ExecDef> {
        let pos = self.tok.pos;
        if self.is_p("{") {
            self.enter("OperationDefinition");
            self.node("Operation");
            let sel = self.selection_set()?;
            self.leave();
            return Ok(ExecDef::Op(Operation { kind: OpKind::Query, shorthand: true, name: None, vars: vec![], directives: vec![], sel, pos }));
        }
        let kind = match &self.tok.t {
            Tok::Name(n) if n == "query" => Some(OpKind::Query),
            Tok::Name(n) if n == "mutation" => Some(OpKind::Mutation),
            Tok::Name(n) if n == "subscription" => Some(OpKind::Subscription),
            _ => None,
        };
        if let Some(kind) = kind {
            self.enter("OperationDefinition");
            self.node("Operation");
            self.adv()?;
            let name = if let Tok::Name(_) = self.tok.t {
                self.node("OpName");
                Some(self.name()?)
            } else {
                None
            };
            let vars = self.var_defs()?;
            let directives = self.directives(false)?;
            let sel = self.selection_set()?;
            self.leave();
            return Ok(ExecDef::Op(Operation { kind, shorthand: false, name, vars, directives, sel, pos }));
        }
        if self.is_kw("fragment") {
            self.enter("FragmentDefinition");
            self.node("Fragment");
            self.adv()?;
            // FragmentName :: Name but not `on`
            if self.is_kw("on") {
                self.enter("FragmentName");
                return self.err("fragment name must not be 'on'");
            }
            self.node("FragName");
            let name = self.name()?;
            self.enter("TypeCondition");
            self.node("TypeCondition");
            self.expect_kw("on")?;
            self.node("CondName");
            let cond = self.name()?;
            self.leave();
            let directives = self.directives(false)?;
            let sel = self.selection_set()?;
            self.leave();
            return Ok(ExecDef::Frag(Fragment { name, cond, directives, sel, pos }));
        }
        self.enter("ExecutableDefinition");
        self.err("expected an executable definition")
    }

    // ----------------------------------------------------------- type system
    fn description(&mut self) -> R<Option<String>> {
        match self.tok.t.clone() {
            Tok::Str(s) | Tok::BlockStr(s) => {
                self.enter("Description");
                self.node("Description");
                self.adv()?;
                self.leave();
                Ok(Some(s))
            }
            _ => Ok(None),
        }
    }

    fn input_value_def(&mut self) -> R<InputValueDef> {
        self.enter("InputValueDefinition");
        self.node("InputValueDef");
        let desc = self.description()?;
        self.node("Name");
        let name = self.name()?;
        self.expect_p(":")?;
        let ty = self.ty_node()?;
        let default = if self.is_p("=") {
            self.enter("DefaultValue");
            self.adv()?;
            self.node("Value");
            let v = self.value(true)?;
            self.leave();
            Some(v)
        } else {
            None
        };
        let directives = self.directives(true)?;
        self.leave();
        Ok(InputValueDef { desc, name, ty, default, directives })
    }

    fn args_def(&mut self) -> R<Vec<InputValueDef>> {
        let mut v = Vec::new();
        if self.is_p("(") {
            self.enter("ArgumentsDefinition");
            self.adv()?;
            loop {
                v.push(self.input_value_def()?);
                if self.is_p(")") {
                    break;
                }
            }
            self.adv()?;
            self.leave();
        }
        Ok(v)
    }

    fn fields_def(&mut self) -> R<Vec<FieldDef>> {
        let mut v = Vec::new();
        if self.is_p("{") {
            self.enter("FieldsDefinition");
            self.adv()?;
            loop {
                self.enter("FieldDefinition");
                self.node("FieldDef");
                let desc = self.description()?;
                self.node("Name");
                let name = self.name()?;
                let args = self.args_def()?;
                self.expect_p(":")?;
                let ty = self.ty_node()?;
                let directives = self.directives(true)?;
                self.leave();
                v.push(FieldDef { desc, name, args, ty, directives });
                if self.is_p("}") {
                    break;
                }
            }
            self.adv()?;
            self.leave();
        }
        Ok(v)
    }

    fn implements(&mut self) -> R<Vec<PName>> {
        let mut v = Vec::new();
        if self.is_kw("implements") {
            self.enter("ImplementsInterfaces");
            self.adv()?;
            self.eat_p("&")?;
            self.node("ImplName");
            v.push(self.name()?);
            while self.eat_p("&")? {
                self.node("ImplName");
                v.push(self.name()?);
            }
            self.leave();
        }
        Ok(v)
    }

    /// §3.13 DirectiveLocation: one of the ExecutableDirectiveLocation / TypeSystemDirectiveLocation names.
    fn location(&mut self) -> R<PName> {
        if let Tok::Name(n) = &self.tok.t {
            if !DIRECTIVE_LOCATIONS.contains(&n.as_str()) {
                return self.err("expected a directive location");
            }
        }
        self.node("Location");
        self.name()
    }

    fn ts_def(&mut self) -> R<TsDef> {
        self.enter("TypeSystemDefinition");
        let r = self.ts_def_inner();
        if r.is_ok() {
            self.leave();
        }
        r
    }

    fn ts_def_inner(&mut self) -> R<TsDef> {
        let pos = self.tok.pos;
        let off = self.tok.off;
        let at = self.event_count();
        let desc = self.description()?;
        let extend = if self.is_kw("extend") {
            if desc.is_some() {
                self.enter("Extension");
                return self.err("extensions take no description");
            }
            self.adv()?;
            true
        } else {
            false
        };
        let Tok::Name(kw) = self.tok.t.clone() else { return self.err("expected a type system definition") };
        let (label, nodekind): (&'static str, &'static str) = match (kw.as_str(), extend) {
            ("schema", false) => ("SchemaDefinition", "SchemaDef"),
            ("schema", true) => ("SchemaExtension", "SchemaDef"),
            ("scalar", false) => ("ScalarTypeDefinition", "TypeDef"),
            ("scalar", true) => ("ScalarTypeExtension", "TypeDef"),
            ("type", false) => ("ObjectTypeDefinition", "TypeDef"),
            ("type", true) => ("ObjectTypeExtension", "TypeDef"),
            ("interface", false) => ("InterfaceTypeDefinition", "TypeDef"),
            ("interface", true) => ("InterfaceTypeExtension", "TypeDef"),
            ("union", false) => ("UnionTypeDefinition", "TypeDef"),
            ("union", true) => ("UnionTypeExtension", "TypeDef"),
            ("enum", false) => ("EnumTypeDefinition", "TypeDef"),
            ("enum", true) => ("EnumTypeExtension", "TypeDef"),
            ("input", false) => ("InputObjectTypeDefinition", "TypeDef"),
            ("input", true) => ("InputObjectTypeExtension", "TypeDef"),
            ("directive", _) => ("DirectiveDefinition", "DirectiveDef"),
            _ => return self.err("expected a type system definition"),
        };
        self.node_at(at, nodekind, pos, off);
        self.enter(label);
        let r = self.ts_def_body(&kw, extend, desc, pos);
        if r.is_ok() {
            self.leave();
        }
        r
    }

    fn ts_def_body(&mut self, kw: &str, extend: bool, desc: Option<String>, pos: Pos) -> R<TsDef> {
        match kw {
            "schema" => {
                self.adv()?;
                let directives = self.directives(true)?;
                let mut roots = Vec::new();
                if self.eat_p("{")? {
                    loop {
                        self.enter("RootOperationTypeDefinition");
                        self.node("RootKind");
                        let k = self.name()?;
                        let kind = match k.s.as_str() {
                            "query" => OpKind::Query,
                            "mutation" => OpKind::Mutation,
                            "subscription" => OpKind::Subscription,
                            _ => return Err(ParseError { msg: "expected an operation type".into(), pos: k.pos, off: 0 }),
                        };
                        self.expect_p(":")?;
                        self.node("RootType");
                        roots.push((kind, self.name()?));
                        self.leave();
                        if self.is_p("}") {
                            break;
                        }
                    }
                    self.adv()?;
                } else if !extend || directives.is_empty() {
                    return self.err("expected '{'");
                }
                Ok(TsDef::Schema(SchemaDef { desc, extend, directives, roots, pos }))
            }
            "scalar" => {
                self.adv()?;
                self.node("Name");
                let name = self.name()?;
                let directives = self.directives(true)?;
                if extend && directives.is_empty() {
                    return self.err("scalar extension needs directives");
                }
                Ok(TsDef::Type(TypeDef { desc, extend, name, directives, kind: TypeDefKind::Scalar, pos }))
            }
            "type" | "interface" => {
                self.adv()?;
                self.node("Name");
                let name = self.name()?;
                let interfaces = self.implements()?;
                let directives = self.directives(true)?;
                let fields = self.fields_def()?;
                if extend && interfaces.is_empty() && directives.is_empty() && fields.is_empty() {
                    return self.err("empty extension");
                }
                let kind = if kw == "type" { TypeDefKind::Object { interfaces, fields } } else { TypeDefKind::Interface { interfaces, fields } };
                Ok(TsDef::Type(TypeDef { desc, extend, name, directives, kind, pos }))
            }
            "union" => {
                self.adv()?;
                self.node("Name");
                let name = self.name()?;
                let directives = self.directives(true)?;
                let mut members = Vec::new();
                if self.is_p("=") {
                    self.enter("UnionMemberTypes");
                    self.adv()?;
                    self.eat_p("|")?;
                    self.node("MemberName");
                    members.push(self.name()?);
                    while self.eat_p("|")? {
                        self.node("MemberName");
                        members.push(self.name()?);
                    }
                    self.leave();
                }
                if extend && directives.is_empty() && members.is_empty() {
                    return self.err("empty extension");
                }
                Ok(TsDef::Type(TypeDef { desc, extend, name, directives, kind: TypeDefKind::Union { members }, pos }))
            }
            "enum" => {
                self.adv()?;
                self.node("Name");
                let name = self.name()?;
                let directives = self.directives(true)?;
                let mut values = Vec::new();
                if self.is_p("{") {
                    self.enter("EnumValuesDefinition");
                    self.adv()?;
                    loop {
                        self.enter("EnumValueDefinition");
                        self.node("EnumValueDef");
                        let desc = self.description()?;
                        self.node("EnumValueName");
                        let n = self.name()?;
                        if matches!(n.s.as_str(), "true" | "false" | "null") {
                            return Err(ParseError { msg: "enum value must not be true, false or null".into(), pos: n.pos, off: 0 });
                        }
                        let directives = self.directives(true)?;
                        self.leave();
                        values.push(EnumValueDef { desc, name: n, directives });
                        if self.is_p("}") {
                            break;
                        }
                    }
                    self.adv()?;
                    self.leave();
                }
                if extend && directives.is_empty() && values.is_empty() {
                    return self.err("empty extension");
                }
                Ok(TsDef::Type(TypeDef { desc, extend, name, directives, kind: TypeDefKind::Enum { values }, pos }))
            }
            "input" => {
                self.adv()?;
                self.node("Name");
                let name = self.name()?;
                let directives = self.directives(true)?;
                let mut fields = Vec::new();
                if self.is_p("{") {
                    self.enter("InputFieldsDefinition");
                    self.adv()?;
                    loop {
                        fields.push(self.input_value_def()?);
                        if self.is_p("}") {
                            break;
                        }
                    }
                    self.adv()?;
                    self.leave();
                }
                if extend && directives.is_empty() && fields.is_empty() {
                    return self.err("empty extension");
                }
                Ok(TsDef::Type(TypeDef { desc, extend, name, directives, kind: TypeDefKind::Input { fields }, pos }))
            }
            "directive" => {
                if extend {
                    return self.err("directives cannot be extended");
                }
                self.adv()?;
                self.expect_p("@")?;
                self.node("Name");
                let name = self.name()?;
                let args = self.args_def()?;
                let repeatable = if self.is_kw("repeatable") {
                    self.adv()?;
                    true
                } else {
                    false
                };
                self.expect_kw("on")?;
                self.enter("DirectiveLocations");
                self.eat_p("|")?;
                let mut locations = vec![self.location()?];
                while self.eat_p("|")? {
                    locations.push(self.location()?);
                }
                self.leave();
                Ok(TsDef::Directive(DirectiveDef { desc, name, args, repeatable, locations, pos }))
            }
            _ => self.err("expected a type system definition"),
        }
    }
}

/// §3.13: the names a directive definition may list after `on`.
pub const DIRECTIVE_LOCATIONS: [&str; 19] = [
    "QUERY",
    "MUTATION",
    "SUBSCRIPTION",
    "FIELD",
    "FRAGMENT_DEFINITION",
    "FRAGMENT_SPREAD",
    "INLINE_FRAGMENT",
    "VARIABLE_DEFINITION",
    "SCHEMA",
    "SCALAR",
    "OBJECT",
    "FIELD_DEFINITION",
    "ARGUMENT_DEFINITION",
    "INTERFACE",
    "UNION",
    "ENUM",
    "ENUM_VALUE",
    "INPUT_OBJECT",
    "INPUT_FIELD_DEFINITION",
];

fn exec_doc(p: &mut P) -> R<ExecDoc> {
    let mut defs = Vec::new();
    loop {
        defs.push(p.exec_def()?);
        if p.tok.t == Tok::Eof {
            break;
        }
    }
    Ok(ExecDoc { defs })
}

fn ts_doc(p: &mut P) -> R<TsDoc> {
    let mut defs = Vec::new();
    loop {
        defs.push(p.ts_def()?);
        if p.tok.t == Tok::Eof {
            break;
        }
    }
    Ok(TsDoc { defs })
}

pub fn parse_exec(src: &str) -> R<ExecDoc> {
    let mut p = P::new(src)?;
    exec_doc(&mut p)
}

pub fn parse_ts(src: &str) -> R<TsDoc> {
    let mut p = P::new(src)?;
    ts_doc(&mut p)
}

fn traced<T>(src: &str, f: fn(&mut P) -> R<T>) -> (R<T>, Trace) {
    let mut p = match P::new(src) {
        Ok(p) => p,
        Err(e) => return (Err(e), Trace { failed_in: vec!["Document"], ..Default::default() }),
    };
    p.trace = Some(Trace::default());
    let r = f(&mut p);
    let mut t = p.trace.take().unwrap();
    if r.is_err() {
        t.failed_in = if p.stack.is_empty() { vec!["Document"] } else { p.stack.clone() };
    }
    (r, t)
}

/// `parse_exec` plus the side table of node events / token uses (for position and production matching).
pub fn parse_exec_traced(src: &str) -> (R<ExecDoc>, Trace) {
    traced(src, exec_doc)
}

/// `parse_ts` plus the side table of node events / token uses.
pub fn parse_ts_traced(src: &str) -> (R<TsDoc>, Trace) {
    traced(src, ts_doc)
}

/// Parse a single (possibly non-constant) value, e.g. for printer round-trips.
pub fn parse_value(src: &str, is_const: bool) -> R<PValue> {
    let mut p = P::new(src)?;
    let v = p.value(is_const)?;
    if p.tok.t != Tok::Eof {
        return p.err("trailing input after value");
    }
    Ok(v)
}

#[cfg(test)]
mod tests {
    use super::*;

    #[test]
    fn spec_examples_executable() {
        // §2.3 example no. 5 / 6, §2.8 fragments, §2.10 variables
        assert!(parse_exec("mutation { likeStory(storyID: 12345) { story { likeCount } } }").is_ok());
        assert!(parse_exec("{ field }").is_ok());
        assert!(parse_exec("query withFragments { user(id: 4) { friends(first: 10) { ...friendFields } } } fragment friendFields on User { id name profilePic(size: 50) }").is_ok());
        assert!(parse_exec("query inlineFragmentNoType($expandedInfo: Boolean) { user(handle: \"zuck\") { id ... @include(if: $expandedInfo) { firstName } } }").is_ok());
        assert!(parse_exec("query ($a: [ Int ] = [1, 2] @d) { f }").is_ok());
        assert!(parse_exec("query () { f }").is_err());
        assert!(parse_exec("{ }").is_err());
        assert!(parse_exec("fragment on on Q { a }").is_err());
        assert!(parse_exec("{ f(a: [01]) }").is_err());
        assert!(parse_exec("{ f(a: trueish) }").is_ok());
        assert!(parse_exec("query Q($a: Int = $b) { f }").is_err());
    }

    #[test]
    fn spec_examples_type_system() {
        assert!(parse_ts("schema { query: MyQueryRootType mutation: MyMutationRootType }").is_ok());
        assert!(parse_ts("\"\"\"desc\"\"\" type Person implements & Named & Aged @d { \"n\" name(arg: Int = 1 @x): String @deprecated(reason: \"r\") }").is_ok());
        assert!(parse_ts("union SearchResult = | Photo | Person").is_ok());
        assert!(parse_ts("enum E { true }").is_err());
        assert!(parse_ts("directive @delegateField(name: String!) repeatable on OBJECT | INTERFACE").is_ok());
        assert!(parse_ts("extend type Q").is_err());
        assert!(parse_ts("input Point2D @oneOf { x: Float y: Float = 1.5 }").is_ok());
        assert!(parse_ts("interface I implements J { a: Int }").is_ok());
        assert!(parse_ts("scalar Date @specifiedBy(url: \"x\")").is_ok());
    }

    #[test]
    fn directive_locations_are_a_closed_set() {
        // §3.13 DirectiveLocation: ExecutableDirectiveLocation | TypeSystemDirectiveLocation, each "one of" a fixed list
        assert!(parse_ts("directive @d on QUERY | FIELD_DEFINITION | INPUT_FIELD_DEFINITION").is_ok());
        assert!(parse_ts("directive @d on | VARIABLE_DEFINITION").is_ok());
        assert!(parse_ts("directive @d on a").is_err());
        assert!(parse_ts("directive @d on QUERY | query").is_err());
    }

    #[test]
    fn nesting_limit_counts_levels_below_the_definition() {
        // documented deviation (parser/src/parse/executable.rs MAX_RECURSION_DEPTH = 64, parser/tests/recursion_limit.rs):
        // 64 selection sets nested below the operation's own one parse, 65 do not.
        let doc = |levels: usize| format!("{}b{}", "{ a ".repeat(levels - 1) + "{ ", " }".repeat(levels));
        assert!(parse_exec(&doc(65)).is_ok());
        assert!(parse_exec(&doc(66)).is_err());
        let inl = |levels: usize| format!("{}b{}", "{ ... ".repeat(levels - 1) + "{ ", " }".repeat(levels));
        assert!(parse_exec(&inl(65)).is_ok());
        assert!(parse_exec(&inl(66)).is_err());
        assert!(parse_exec(&format!("fragment f on T {} {}", doc(65), doc(65))).is_ok());
    }

    #[test]
    fn trace_lists_nodes_in_source_order() {
        let (r, t) = parse_exec_traced("query Q($v: [Int!] = [1] @d) { x: f(a: 1) @e ... on T { g } ...F }");
        assert!(r.is_ok());
        let kinds: Vec<&str> = t.events.iter().map(|e| e.kind).collect();
        assert_eq!(
            kinds,
            vec![
                "Operation", "OpName", "VarDef", "VarName", "Type", "Value", "Directive", "DirName", "SelectionSet", "Selection", "Field", "Alias",
                "FieldName", "ArgName", "Value", "Directive", "DirName", "Selection", "Inline", "TypeCondition", "CondName", "SelectionSet",
                "Selection", "Field", "FieldName", "Selection", "Spread", "SpreadName"
            ]
        );
        let cols: Vec<u32> = t.events.iter().map(|e| e.pos.col).collect();
        assert_eq!(&cols[..8], &[1, 7, 9, 10, 13, 22, 26, 27]);
        assert!(t.failed_in.is_empty());
        let (r, t) = parse_exec_traced("query () { f }");
        assert!(r.is_err());
        assert_eq!(t.failed_in, vec!["OperationDefinition", "VariableDefinitions", "VariableDefinition"]);
        let (r, t) = parse_ts_traced("\"d\" type A implements I @x { \"e\" f(a: Int = 1 @y): [A] @z } enum E { V } directive @q on FIELD schema { query: A }");
        assert!(r.is_ok());
        let kinds: Vec<&str> = t.events.iter().map(|e| e.kind).collect();
        assert_eq!(
            kinds,
            vec![
                "TypeDef", "Description", "Name", "ImplName", "Directive", "DirName", "FieldDef", "Description", "Name", "InputValueDef", "Name", "Type",
                "Value", "Directive", "DirName", "Type", "Directive", "DirName", "TypeDef", "Name", "EnumValueDef", "EnumValueName", "DirectiveDef", "Name",
                "Location", "SchemaDef", "RootKind", "RootType"
            ]
        );
        assert_eq!(t.tokens.iter().find(|u| u.off == 4).map(|u| u.prod), Some("ObjectTypeDefinition"));
    }
}
