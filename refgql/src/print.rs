//! Canonical printer for values, selections and executable documents.

use crate::ast::*;

pub fn quote(s: &str) -> String {
    let mut o = String::with_capacity(s.len() + 2);
    o.push('"');
    for c in s.chars() {
        match c {
            '"' => o.push_str("\\\""),
            '\\' => o.push_str("\\\\"),
            '\n' => o.push_str("\\n"),
            '\r' => o.push_str("\\r"),
            '\t' => o.push_str("\\t"),
            '\u{8}' => o.push_str("\\b"),
            '\u{c}' => o.push_str("\\f"),
            c if (c as u32) < 0x20 || c as u32 == 0x7f => o.push_str(&format!("\\u{:04X}", c as u32)),
            c => o.push(c),
        }
    }
    o.push('"');
    o
}

pub fn value(v: &Value) -> String {
    match v {
        Value::Var(n) => format!("${n}"),
        Value::Int(s) | Value::Float(s) => s.clone(),
        Value::Str(s) => quote(s),
        Value::Bool(b) => b.to_string(),
        Value::Null => "null".into(),
        Value::Enum(e) => e.clone(),
        Value::List(l) => format!("[{}]", l.iter().map(|x| value(&x.v)).collect::<Vec<_>>().join(", ")),
        Value::Object(o) => format!("{{{}}}", o.iter().map(|(k, x)| format!("{}: {}", k.s, value(&x.v))).collect::<Vec<_>>().join(", ")),
    }
}

fn args(a: &[(PName, PValue)]) -> String {
    if a.is_empty() {
        String::new()
    } else {
        format!("({})", a.iter().map(|(k, v)| format!("{}: {}", k.s, value(&v.v))).collect::<Vec<_>>().join(", "))
    }
}

fn directives(ds: &[Directive]) -> String {
    ds.iter().map(|d| format!(" @{}{}", d.name.s, args(&d.args))).collect()
}

pub fn selection_set(sel: &[Selection]) -> String {
    if sel.is_empty() {
        return String::new();
    }
    let mut o = String::from("{ ");
    for s in sel {
        match s {
            Selection::Field(f) => {
                if let Some(a) = &f.alias {
                    o.push_str(&a.s);
                    o.push_str(": ");
                }
                o.push_str(&f.name.s);
                o.push_str(&args(&f.args));
                o.push_str(&directives(&f.directives));
                if !f.sel.is_empty() {
                    o.push(' ');
                    o.push_str(&selection_set(&f.sel));
                }
            }
            Selection::Spread(s) => {
                o.push_str("...");
                o.push_str(&s.name.s);
                o.push_str(&directives(&s.directives));
            }
            Selection::Inline(i) => {
                o.push_str("...");
                if let Some(c) = &i.cond {
                    o.push_str(" on ");
                    o.push_str(&c.s);
                }
                o.push_str(&directives(&i.directives));
                o.push(' ');
                o.push_str(&selection_set(&i.sel));
            }
        }
        o.push(' ');
    }
    o.push('}');
    o
}

pub fn exec_doc(d: &ExecDoc) -> String {
    let mut parts = Vec::new();
    for def in &d.defs {
        match def {
            ExecDef::Op(op) => {
                let mut o = String::new();
                if !op.shorthand {
                    o.push_str(op.kind.word());
                    if let Some(n) = &op.name {
                        o.push(' ');
                        o.push_str(&n.s);
                    }
                    if !op.vars.is_empty() {
                        o.push('(');
                        o.push_str(
                            &op.vars
                                .iter()
                                .map(|v| {
                                    format!(
                                        "${}: {}{}{}",
                                        v.name.s,
                                        v.ty,
                                        v.default.as_ref().map(|d| format!(" = {}", value(&d.v))).unwrap_or_default(),
                                        directives(&v.directives)
                                    )
                                })
                                .collect::<Vec<_>>()
                                .join(", "),
                        );
                        o.push(')');
                    }
                    o.push_str(&directives(&op.directives));
                    o.push(' ');
                }
                o.push_str(&selection_set(&op.sel));
                parts.push(o);
            }
            ExecDef::Frag(f) => {
                parts.push(format!("fragment {} on {}{} {}", f.name.s, f.cond.s, directives(&f.directives), selection_set(&f.sel)));
            }
        }
    }
    parts.join(" ")
}
