//! §5 Validation of executable documents (October 2021), one function per rule,
//! each error tagged with the rule that raised it.

use crate::ast::*;
use crate::schema::{Arg, Kind, Schema};
use std::collections::{BTreeMap, BTreeSet};

#[derive(Clone, Debug, PartialEq)]
pub struct VError {
    pub rule: &'static str,
    pub msg: String,
    pub pos: Pos,
}

struct V<'a> {
    s: &'a Schema,
    doc: &'a ExecDoc,
    /// (error, clause): the clause names which part of the rule failed (structural, for attribution)
    errs: Vec<(VError, String)>,
    /// set while a part of the document with a special syntactic context is being checked: the
    /// directives / sub-selection of a `__typename` field node (`@__typename`), the directives of a
    /// variable definition (`@VARIABLE_DEFINITION`), the literal parts of an argument value that also
    /// contains a variable (`@with-variable`); appended to the clause of every error raised there
    context: Option<&'static str>,
}

impl<'a> V<'a> {
    fn e(&mut self, rule: &'static str, pos: Pos, msg: impl Into<String>) {
        self.ec(rule, "", pos, msg);
    }
    fn ec(&mut self, rule: &'static str, clause: impl Into<String>, pos: Pos, msg: impl Into<String>) {
        let mut c: String = clause.into();
        if let Some(x) = self.context {
            if !c.ends_with(x) {
                c.push_str(x);
            }
        }
        self.errs.push((VError { rule, msg: msg.into(), pos }, c));
    }
}

pub fn validate(s: &Schema, doc: &ExecDoc) -> Vec<VError> {
    validate_clauses(s, doc).into_iter().map(|(e, _)| e).collect()
}

/// As `validate`, each error paired with a *clause*: a short structural tag naming which part of
/// the rule failed (e.g. `InputObject<-Int` for ValuesOfCorrectType, `not-exactly-one-root` for
/// SingleRootField, `same-scope/different-condition/field` for FieldSelectionMerging). Empty when
/// the rule has a single clause.
pub fn validate_clauses(s: &Schema, doc: &ExecDoc) -> Vec<(VError, String)> {
    let mut v = V { s, doc, errs: Vec::new(), context: None };
    v.operations();
    v.fragments_decl();
    for op in doc.ops() {
        if let Some(root) = s.root(op.kind) {
            let root = root.to_string();
            v.selection_set(&op.sel, Some(&root));
            v.directives(&op.directives, match op.kind { OpKind::Query => "QUERY", OpKind::Mutation => "MUTATION", OpKind::Subscription => "SUBSCRIPTION" });
        } else {
            v.e("OperationTypeExistence", op.pos, format!("schema has no {} root", op.kind.word()));
            v.selection_set(&op.sel, None);
        }
        v.variables(op);
        if op.kind == OpKind::Subscription {
            v.single_root_field(op);
        }
    }
    for f in doc.frags() {
        let cond = if s.is_composite(&f.cond.s) { Some(f.cond.s.clone()) } else { None };
        v.selection_set(&f.sel, cond.as_deref());
        v.directives(&f.directives, "FRAGMENT_DEFINITION");
    }
    v.fragment_cycles();
    v.fragments_used();
    v.overlapping();
    v.errs
}

impl<'a> V<'a> {
    // 5.2.1.1, 5.2.2.1
    fn operations(&mut self) {
        let ops: Vec<&Operation> = self.doc.ops().collect();
        let mut seen = BTreeSet::new();
        for o in &ops {
            match &o.name {
                Some(n) => {
                    if !seen.insert(n.s.clone()) {
                        self.e("OperationNameUniqueness", n.pos, format!("duplicate operation {}", n.s));
                    }
                }
                None => {
                    if ops.len() > 1 {
                        self.e("LoneAnonymousOperation", o.pos, "anonymous operation must be the only operation");
                    }
                }
            }
        }
    }

    // 5.2.3.1
    fn single_root_field(&mut self, op: &'a Operation) {
        let Some(root) = self.s.root(OpKind::Subscription) else { return };
        let mut keys: Vec<(String, &Field)> = Vec::new();
        let mut visited = Vec::new();
        self.collect_static(root, &op.sel, &mut visited, &mut keys);
        let mut distinct: Vec<&str> = Vec::new();
        for (k, _) in &keys {
            if !distinct.contains(&k.as_str()) {
                distinct.push(k);
            }
        }
        if distinct.len() != 1 {
            self.ec("SingleRootField", "not-exactly-one-root", op.pos, "subscription must select exactly one root field");
        }
        for (_, f) in &keys {
            if f.name.s.starts_with("__") {
                self.ec("SingleRootField", "introspection-root", f.pos, "subscription root field must not be an introspection field");
                break;
            }
        }
    }

    /// CollectFields without variable values (directives ignored), for rule 5.2.3.1
    fn collect_static(&self, object: &str, sel: &'a [Selection], visited: &mut Vec<String>, out: &mut Vec<(String, &'a Field)>) {
        for s in sel {
            match s {
                Selection::Field(f) => out.push((f.key().to_string(), f)),
                Selection::Spread(sp) => {
                    if visited.contains(&sp.name.s) {
                        continue;
                    }
                    visited.push(sp.name.s.clone());
                    if let Some(fr) = self.doc.frag(&sp.name.s) {
                        if self.s.fragment_applies(object, &fr.cond.s) {
                            self.collect_static(object, &fr.sel, visited, out);
                        }
                    }
                }
                Selection::Inline(i) => {
                    if i.cond.as_ref().map(|c| self.s.fragment_applies(object, &c.s)).unwrap_or(true) {
                        self.collect_static(object, &i.sel, visited, out);
                    }
                }
            }
        }
    }

    // 5.5.1.1, 5.5.1.2, 5.5.1.3
    fn fragments_decl(&mut self) {
        let mut seen = BTreeSet::new();
        for f in self.doc.frags() {
            if !seen.insert(f.name.s.clone()) {
                self.e("FragmentNameUniqueness", f.name.pos, format!("duplicate fragment {}", f.name.s));
            }
            self.type_condition(&f.cond, "definition");
        }
    }
    fn type_condition(&mut self, c: &PName, site: &str) {
        if self.s.ty(&c.s).is_none() {
            self.ec("FragmentSpreadTypeExistence", site, c.pos, format!("unknown type {}", c.s));
        } else if !self.s.is_composite(&c.s) {
            self.ec("FragmentsOnCompositeTypes", site, c.pos, format!("{} is not a composite type", c.s));
        }
    }

    // 5.3.1, 5.3.3, 5.4.*, 5.5.2.1, 5.5.2.3, 5.7.*
    fn selection_set(&mut self, sel: &'a [Selection], parent: Option<&str>) {
        for s in sel {
            match s {
                Selection::Field(f) => {
                    self.context = if f.name.s == "__typename" { Some("@__typename") } else { None };
                    self.directives(&f.directives, "FIELD");
                    self.context = None;
                    let Some(parent) = parent else {
                        self.selection_set(&f.sel, None);
                        continue;
                    };
                    if f.name.s == "__typename" {
                        if !f.sel.is_empty() {
                            self.ec("LeafFieldSelections", "typename-with-selection", f.pos, "__typename takes no selection");
                        }
                        if !f.args.is_empty() {
                            self.ec("ArgumentNames", "typename-with-argument", f.pos, "__typename takes no arguments");
                        }
                        continue;
                    }
                    // (introspection entry points __schema/__type are left to the caller's schema: not modelled)
                    let fd = self.s.field(parent, &f.name.s).cloned();
                    match fd {
                        None => {
                            self.e("FieldSelections", f.pos, format!("no field {} on {}", f.name.s, parent));
                            self.selection_set(&f.sel, None);
                        }
                        Some(fd) => {
                            self.arguments(&fd.args, &f.args, f.pos, "field");
                            let base = fd.ty.base().to_string();
                            if self.s.is_leaf(&base) {
                                if !f.sel.is_empty() {
                                    self.ec("LeafFieldSelections", "leaf-with-selection", f.pos, format!("field {} of leaf type takes no selection", f.name.s));
                                }
                            } else if f.sel.is_empty() {
                                self.ec("LeafFieldSelections", "composite-without-selection", f.pos, format!("field {} of composite type needs a selection", f.name.s));
                            }
                            self.selection_set(&f.sel, Some(&base));
                        }
                    }
                }
                Selection::Spread(sp) => {
                    self.directives(&sp.directives, "FRAGMENT_SPREAD");
                    match self.doc.frag(&sp.name.s) {
                        None => self.e("FragmentSpreadTargetDefined", sp.pos, format!("undefined fragment {}", sp.name.s)),
                        Some(fr) => {
                            if let Some(parent) = parent {
                                if self.s.is_composite(&fr.cond.s) && !self.overlap(parent, &fr.cond.s) {
                                    self.ec("FragmentSpreadIsPossible", "named", sp.pos, format!("fragment {} on {} can never apply to {}", sp.name.s, fr.cond.s, parent));
                                }
                            }
                        }
                    }
                }
                Selection::Inline(i) => {
                    self.directives(&i.directives, "INLINE_FRAGMENT");
                    let mut inner = parent.map(|p| p.to_string());
                    if let Some(c) = &i.cond {
                        self.type_condition(c, "inline");
                        if self.s.is_composite(&c.s) {
                            if let Some(parent) = parent {
                                if !self.overlap(parent, &c.s) {
                                    self.ec("FragmentSpreadIsPossible", "inline", i.pos, format!("inline fragment on {} can never apply to {}", c.s, parent));
                                }
                            }
                            inner = Some(c.s.clone());
                        } else {
                            inner = None;
                        }
                    }
                    self.selection_set(&i.sel, inner.as_deref());
                }
            }
        }
    }

    fn overlap(&self, a: &str, b: &str) -> bool {
        let pa = self.s.possible_types(a);
        let pb = self.s.possible_types(b);
        pa.iter().any(|x| pb.contains(x))
    }

    // 5.4.1, 5.4.2, 5.4.2.1 + 5.6 for literals
    fn arguments(&mut self, defs: &[Arg], given: &'a [(PName, PValue)], pos: Pos, site: &str) {
        let mut seen = BTreeSet::new();
        for (k, v) in given {
            if !seen.insert(k.s.clone()) {
                self.ec("ArgumentUniqueness", site, k.pos, format!("duplicate argument {}", k.s));
            }
            match defs.iter().find(|d| d.name == k.s) {
                None => self.ec("ArgumentNames", format!("unknown-argument-on-{site}"), k.pos, format!("unknown argument {}", k.s)),
                Some(d) => {
                    // attribution only: the literal parts of an argument value that also contains a variable
                    let mark = self.context.is_none() && !matches!(v.v, Value::Var(_)) && contains_var(&v.v);
                    if mark {
                        self.context = Some("@with-variable");
                    }
                    self.value_of_type(&d.ty, v);
                    if mark {
                        self.context = None;
                    }
                }
            }
        }
        for d in defs {
            if d.ty.is_non_null() && d.default.is_none() {
                let g = given.iter().find(|(k, _)| k.s == d.name);
                match g {
                    None => self.ec("RequiredArguments", format!("missing-on-{site}"), pos, format!("missing required argument {}", d.name)),
                    Some((_, v)) if v.v == Value::Null => self.ec("RequiredArguments", format!("null-literal-on-{site}"), v.pos, format!("null for required argument {}", d.name)),
                    _ => {}
                }
            }
        }
    }

    // 5.6.1–5.6.4 (variables are checked by 5.8.5, not here)
    fn value_of_type(&mut self, ty: &Type, v: &'a PValue) {
        if let Value::Var(_) = v.v {
            return;
        }
        match ty {
            Type::NonNull(t) => {
                if v.v == Value::Null {
                    self.ec("ValuesOfCorrectType", "NonNull<-Null", v.pos, format!("null for non-null type {ty}"));
                } else {
                    self.value_of_type(t, v);
                }
            }
            _ if v.v == Value::Null => {}
            Type::List(t) => match &v.v {
                Value::List(items) => {
                    for it in items {
                        self.value_of_type(t, it);
                    }
                }
                _ => self.value_of_type(t, v),
            },
            Type::Named(n) => {
                let Some(td) = self.s.ty(n) else { return };
                match &td.kind {
                    Kind::Scalar => {
                        let ok = match n.as_str() {
                            "Int" => matches!(&v.v, Value::Int(t) if t.parse::<i128>().map(|i| (i32::MIN as i128..=i32::MAX as i128).contains(&i)).unwrap_or(false)),
                            "Float" => matches!(&v.v, Value::Int(_) | Value::Float(_)),
                            "String" => matches!(&v.v, Value::Str(_)),
                            "Boolean" => matches!(&v.v, Value::Bool(_)),
                            "ID" => matches!(&v.v, Value::Str(_) | Value::Int(_)),
                            _ => true,
                        };
                        if !ok {
                            self.ec("ValuesOfCorrectType", format!("{n}<-{}", lit_kind(&v.v)), v.pos, format!("value {} is not a {n}", crate::print::value(&v.v)));
                        }
                    }
                    Kind::Enum { values } => {
                        if !matches!(&v.v, Value::Enum(x) if values.iter().any(|(n, _, _)| n == x)) {
                            let given = if matches!(&v.v, Value::Enum(_)) { "UnknownEnumValue" } else { lit_kind(&v.v) };
                            self.ec("ValuesOfCorrectType", format!("Enum<-{given}"), v.pos, format!("value {} is not a value of enum {n}", crate::print::value(&v.v)));
                        }
                    }
                    Kind::Input { fields, one_of } => {
                        let Value::Object(o) = &v.v else {
                            self.ec("ValuesOfCorrectType", format!("InputObject<-{}", lit_kind(&v.v)), v.pos, format!("value {} is not an input object {n}", crate::print::value(&v.v)));
                            return;
                        };
                        let fields = fields.clone();
                        let mut seen = BTreeSet::new();
                        for (idx, (k, x)) in o.iter().enumerate() {
                            if !seen.insert(k.s.clone()) {
                                self.e("InputObjectFieldUniqueness", k.pos, format!("duplicate input field {}", k.s));
                            }
                            // attribution only: an entry whose name is repeated later in the same literal
                            let shadowed = o[idx + 1..].iter().any(|(k2, _)| k2.s == k.s) && matches!(self.context, None | Some("@with-variable"));
                            let outer = self.context;
                            if shadowed {
                                self.context = Some("@shadowed-duplicate");
                            }
                            match fields.iter().find(|f| f.name == k.s) {
                                None => self.e("InputObjectFieldNames", k.pos, format!("unknown input field {} of {n}", k.s)),
                                Some(f) => self.value_of_type(&f.ty, x),
                            }
                            self.context = outer;
                        }
                        for f in &fields {
                            if f.ty.is_non_null() && f.default.is_none() && !o.iter().any(|(k, _)| k.s == f.name) {
                                self.e("InputObjectRequiredFields", v.pos, format!("missing required input field {} of {n}", f.name));
                            }
                        }
                        if *one_of {
                            // a repeated field name is 5.6.3's business; the arity is counted on distinct names
                            if seen.len() != 1 {
                                self.ec("OneOfInputObjects", "not-exactly-one-field", v.pos, "oneOf input object needs exactly one field");
                            } else if o.len() == 1 && o[0].1.v == Value::Null {
                                self.ec("OneOfInputObjects", "null-field", v.pos, "oneOf input object field must not be null");
                            }
                        }
                    }
                    _ => {}
                }
            }
        }
    }

    // 5.7.1–5.7.3
    fn directives(&mut self, ds: &'a [Directive], location: &str) {
        let mut seen = BTreeSet::new();
        for d in ds {
            match self.s.directives.get(&d.name.s).cloned() {
                None => self.ec("DirectivesAreDefined", location, d.pos, format!("unknown directive @{}", d.name.s)),
                Some(dd) => {
                    if !dd.locations.iter().any(|l| l == location) {
                        self.ec("DirectivesAreInValidLocations", location, d.pos, format!("@{} not allowed on {location}", d.name.s));
                    }
                    if !dd.repeatable && !seen.insert(d.name.s.clone()) {
                        self.ec("DirectivesAreUniquePerLocation", location, d.pos, format!("@{} used twice", d.name.s));
                    }
                    self.arguments(&dd.args, &d.args, d.pos, "directive");
                }
            }
        }
    }

    // 5.5.2.2
    fn fragment_cycles(&mut self) {
        fn spreads<'x>(sel: &'x [Selection], out: &mut Vec<&'x Spread>) {
            for s in sel {
                match s {
                    Selection::Field(f) => spreads(&f.sel, out),
                    Selection::Inline(i) => spreads(&i.sel, out),
                    Selection::Spread(sp) => out.push(sp),
                }
            }
        }
        let frags: Vec<&Fragment> = self.doc.frags().collect();
        let mut reported = BTreeSet::new();
        for f in &frags {
            // DFS from f; a path back to f is a cycle
            let mut stack: Vec<(&str, Vec<&str>)> = vec![(f.name.s.as_str(), vec![])];
            let mut seen: BTreeSet<&str> = BTreeSet::new();
            while let Some((cur, _)) = stack.pop() {
                let Some(fr) = self.doc.frag(cur) else { continue };
                let mut sp = Vec::new();
                spreads(&fr.sel, &mut sp);
                for s in sp {
                    if s.name.s == f.name.s {
                        if reported.insert(f.name.s.clone()) {
                            let clause = if cur == f.name.s { "direct" } else { "indirect" };
                            self.errs.push((VError { rule: "FragmentSpreadsMustNotFormCycles", msg: format!("fragment {} is part of a cycle", f.name.s), pos: s.pos }, clause.to_string()));
                        }
                    } else if seen.insert(s.name.s.as_str()) {
                        stack.push((s.name.s.as_str(), vec![]));
                    }
                }
            }
        }
    }

    // 5.5.1.4
    fn fragments_used(&mut self) {
        fn walk<'x>(doc: &'x ExecDoc, sel: &'x [Selection], used: &mut BTreeSet<&'x str>) {
            for s in sel {
                match s {
                    Selection::Field(f) => walk(doc, &f.sel, used),
                    Selection::Inline(i) => walk(doc, &i.sel, used),
                    Selection::Spread(sp) => {
                        if used.insert(sp.name.s.as_str()) {
                            if let Some(fr) = doc.frag(&sp.name.s) {
                                walk(doc, &fr.sel, used);
                            }
                        }
                    }
                }
            }
        }
        let mut used = BTreeSet::new();
        for op in self.doc.ops() {
            walk(self.doc, &op.sel, &mut used);
        }
        for f in self.doc.frags() {
            if !used.contains(f.name.s.as_str()) {
                self.errs.push((VError { rule: "FragmentsMustBeUsed", msg: format!("fragment {} is never used", f.name.s), pos: f.pos }, String::new()));
            }
        }
    }

    // 5.8.1–5.8.5
    fn variables(&mut self, op: &'a Operation) {
        let mut defs: BTreeMap<String, &VarDef> = BTreeMap::new();
        for d in &op.vars {
            if defs.insert(d.name.s.clone(), d).is_some() {
                self.e("VariableUniqueness", d.pos, format!("duplicate variable ${}", d.name.s));
            }
            if self.s.ty(d.ty.base()).is_some() && !self.s.is_input(d.ty.base()) {
                self.ec("VariablesAreInputTypes", "non-input-type", d.pos, format!("variable ${} has non-input type {}", d.name.s, d.ty));
            } else if self.s.ty(d.ty.base()).is_none() {
                self.ec("VariablesAreInputTypes", "unknown-type", d.pos, format!("variable ${} has unknown type {}", d.name.s, d.ty));
            } else if let Some(def) = &d.default {
                self.value_of_type(&d.ty, def);
            }
            self.context = Some("@VARIABLE_DEFINITION");
            self.directives(&d.directives, "VARIABLE_DEFINITION");
            self.context = None;
        }
        // usages, following fragment spreads transitively
        let mut uses: Vec<(String, Pos, Option<(Type, bool)>)> = Vec::new(); // name, pos, (location type, location has default)
        let mut visited = BTreeSet::new();
        let root = self.s.root(op.kind).map(|s| s.to_string());
        self.var_uses_sel(&op.sel, root.as_deref(), &mut uses, &mut visited);
        self.var_uses_directives(&op.directives, &mut uses);
        let mut used = BTreeSet::new();
        let var_ctx = self.var_contexts();
        for (name, pos, loc) in &uses {
            used.insert(name.clone());
            self.context = var_ctx.get(pos).copied();
            match defs.get(name) {
                None => self.e("AllVariableUsesDefined", *pos, format!("variable ${name} is not defined")),
                Some(d) => {
                    if let Some((lt, loc_default)) = loc {
                        if !self.variable_usage_allowed(d, lt, *loc_default) {
                            let clause = if d.ty.base() != lt.base() {
                                "named-type"
                            } else if list_depth(&d.ty) != list_depth(lt) {
                                "list-depth"
                            } else {
                                "nullability"
                            };
                            self.ec("AllVariableUsagesAreAllowed", clause, *pos, format!("variable ${name} of type {} used where {} is expected", d.ty, lt));
                        }
                    }
                }
            }
        }
        self.context = None;
        for d in &op.vars {
            if !used.contains(&d.name.s) {
                self.e("AllVariablesUsed", d.pos, format!("variable ${} is never used", d.name.s));
            }
        }
    }

    /// attribution only: the variable references that sit inside the arguments / directives of a
    /// `__typename` field node, or inside an input object entry whose name is repeated later in the
    /// same literal
    fn var_contexts(&self) -> BTreeMap<Pos, &'static str> {
        fn val(v: &PValue, ctx: Option<&'static str>, out: &mut BTreeMap<Pos, &'static str>) {
            match &v.v {
                Value::Var(_) => {
                    if let Some(c) = ctx {
                        out.insert(v.pos, c);
                    }
                }
                Value::List(l) => l.iter().for_each(|x| val(x, ctx, out)),
                Value::Object(o) => {
                    for (i, (k, x)) in o.iter().enumerate() {
                        let shadowed = o[i + 1..].iter().any(|(k2, _)| k2.s == k.s);
                        val(x, ctx.or(if shadowed { Some("@shadowed-duplicate") } else { None }), out);
                    }
                }
                _ => {}
            }
        }
        fn sel(s: &[Selection], out: &mut BTreeMap<Pos, &'static str>) {
            for x in s {
                match x {
                    Selection::Field(f) => {
                        let ctx = if f.name.s == "__typename" { Some("@__typename") } else { None };
                        f.args.iter().for_each(|(_, v)| val(v, ctx, out));
                        f.directives.iter().for_each(|d| d.args.iter().for_each(|(_, v)| val(v, ctx, out)));
                        sel(&f.sel, out);
                    }
                    Selection::Inline(i) => {
                        i.directives.iter().for_each(|d| d.args.iter().for_each(|(_, v)| val(v, None, out)));
                        sel(&i.sel, out)
                    }
                    Selection::Spread(sp) => sp.directives.iter().for_each(|d| d.args.iter().for_each(|(_, v)| val(v, None, out))),
                }
            }
        }
        let mut out = BTreeMap::new();
        for d in &self.doc.defs {
            match d {
                ExecDef::Op(o) => sel(&o.sel, &mut out),
                ExecDef::Frag(f) => sel(&f.sel, &mut out),
            }
        }
        out
    }

    /// §5.8.5 IsVariableUsageAllowed
    fn variable_usage_allowed(&self, d: &VarDef, location: &Type, location_default: bool) -> bool {
        if location.is_non_null() && !d.ty.is_non_null() {
            let has_non_null_default = d.default.as_ref().map(|v| v.v != Value::Null).unwrap_or(false);
            if !has_non_null_default && !location_default {
                return false;
            }
            return types_compatible(&d.ty, location.nullable());
        }
        types_compatible(&d.ty, location)
    }

    fn var_uses_value(&self, v: &PValue, ty: Option<&Type>, has_default: bool, uses: &mut Vec<(String, Pos, Option<(Type, bool)>)>) {
        match &v.v {
            Value::Var(n) => uses.push((n.clone(), v.pos, ty.map(|t| (t.clone(), has_default)))),
            Value::List(items) => {
                let item_ty = ty.and_then(|t| match t.nullable() {
                    Type::List(i) => Some((**i).clone()),
                    _ => None,
                });
                // a non-list literal position coerced to a list: the item type is the type itself
                for it in items {
                    self.var_uses_value(it, item_ty.as_ref(), false, uses);
                }
            }
            Value::Object(o) => {
                // §3.11 input coercion: a non-list literal at a list position stands for a one-item list
                // (at every nesting level), so an object literal at `[In!]` is an `In` literal
                let fields: Option<Vec<Arg>> = ty.and_then(|t| match self.s.ty(t.base()).map(|x| &x.kind) {
                    Some(Kind::Input { fields, .. }) => Some(fields.clone()),
                    _ => None,
                });
                for (k, x) in o {
                    let f = fields.as_ref().and_then(|fs| fs.iter().find(|f| f.name == k.s));
                    self.var_uses_value(x, f.map(|f| &f.ty), f.map(|f| f.default.is_some()).unwrap_or(false), uses);
                }
            }
            _ => {}
        }
    }

    fn var_uses_args(&self, defs: Option<&[Arg]>, given: &[(PName, PValue)], uses: &mut Vec<(String, Pos, Option<(Type, bool)>)>) {
        for (k, v) in given {
            let d = defs.and_then(|ds| ds.iter().find(|d| d.name == k.s));
            self.var_uses_value(v, d.map(|d| &d.ty), d.map(|d| d.default.is_some()).unwrap_or(false), uses);
        }
    }

    fn var_uses_directives(&self, ds: &[Directive], uses: &mut Vec<(String, Pos, Option<(Type, bool)>)>) {
        for d in ds {
            let dd = self.s.directives.get(&d.name.s);
            self.var_uses_args(dd.map(|x| x.args.as_slice()), &d.args, uses);
        }
    }

    fn var_uses_sel(&self, sel: &'a [Selection], parent: Option<&str>, uses: &mut Vec<(String, Pos, Option<(Type, bool)>)>, visited: &mut BTreeSet<String>) {
        for s in sel {
            match s {
                Selection::Field(f) => {
                    self.var_uses_directives(&f.directives, uses);
                    let fd = parent.and_then(|p| self.s.field(p, &f.name.s));
                    self.var_uses_args(fd.map(|x| x.args.as_slice()), &f.args, uses);
                    let base = fd.map(|x| x.ty.base().to_string());
                    self.var_uses_sel(&f.sel, base.as_deref(), uses, visited);
                }
                Selection::Inline(i) => {
                    self.var_uses_directives(&i.directives, uses);
                    let inner = match &i.cond {
                        Some(c) => Some(c.s.as_str()),
                        None => parent,
                    };
                    self.var_uses_sel(&i.sel, inner, uses, visited);
                }
                Selection::Spread(sp) => {
                    self.var_uses_directives(&sp.directives, uses);
                    if visited.insert(sp.name.s.clone()) {
                        if let Some(fr) = self.doc.frag(&sp.name.s) {
                            self.var_uses_directives(&fr.directives, uses);
                            self.var_uses_sel(&fr.sel, Some(fr.cond.s.as_str()), uses, visited);
                        }
                    }
                }
            }
        }
    }

    // 5.3.2 Field Selection Merging — FieldsInSetCanMerge / SameResponseShape, literally.
    //
    // "Let set be any selection set defined in the GraphQL document": every selection set (operation,
    // fragment definition, field, inline fragment) is checked. Phase 1 checks the pairs of each set
    // itself (clause scope `same-scope`); phase 2 adds the recursion into merged sub-selection sets
    // (step 2.b.iv), whose additional conflicts get scope `merged-subselection`.
    fn overlapping(&mut self) {
        let mut sets: Vec<(&'a [Selection], Option<String>, bool)> = Vec::new();
        for op in self.doc.ops() {
            let root = self.s.root(op.kind).map(|s| s.to_string());
            self.all_sets(&op.sel, root, false, &mut sets);
        }
        for f in self.doc.frags() {
            let cond = if self.s.is_composite(&f.cond.s) { Some(f.cond.s.clone()) } else { None };
            self.all_sets(&f.sel, cond, false, &mut sets);
        }
        let mut reported: BTreeSet<(Pos, Pos)> = BTreeSet::new();
        for recurse in [false, true] {
            for (sel, parent, under_typename) in &sets {
                let mut fields = Vec::new();
                let mut visited = BTreeSet::new();
                self.fields_in_set(sel, parent.as_deref(), None, &mut visited, &mut fields);
                self.context = if *under_typename { Some("@__typename") } else { None };
                self.fields_can_merge(&fields, &mut reported, 0, recurse);
                self.context = None;
            }
        }
    }

    /// every selection set below (and including) `sel`, with the type its fields are selected on
    fn all_sets(&self, sel: &'a [Selection], parent: Option<String>, under_typename: bool, out: &mut Vec<(&'a [Selection], Option<String>, bool)>) {
        if sel.is_empty() {
            return;
        }
        out.push((sel, parent.clone(), under_typename));
        for s in sel {
            match s {
                Selection::Field(f) => {
                    let base = self.field_type(f, &parent).map(|t| t.base().to_string()).filter(|b| self.s.is_composite(b));
                    self.all_sets(&f.sel, base, under_typename || f.name.s == "__typename", out);
                }
                Selection::Inline(i) => {
                    let inner = match &i.cond {
                        Some(c) => {
                            if self.s.is_composite(&c.s) {
                                Some(c.s.clone())
                            } else {
                                None
                            }
                        }
                        None => parent.clone(),
                    };
                    self.all_sets(&i.sel, inner, under_typename, out);
                }
                Selection::Spread(_) => {}
            }
        }
    }

    /// "fieldsForName … including visiting fragments and inline fragments": every field reachable in the
    /// set, with its parent type and (for attribution only) the type condition text of the fragment that
    /// immediately encloses it (`None` = directly in the set or in a condition-less inline fragment).
    fn fields_in_set(&self, sel: &'a [Selection], parent: Option<&str>, via: Option<&str>, visited: &mut BTreeSet<String>, out: &mut Vec<MField<'a>>) {
        for s in sel {
            match s {
                Selection::Field(f) => out.push(MField { f, parent: parent.map(|p| p.to_string()), via: via.map(|v| v.to_string()) }),
                Selection::Inline(i) => {
                    let inner = match &i.cond {
                        Some(c) => Some(c.s.as_str()),
                        None => parent,
                    };
                    self.fields_in_set(&i.sel, inner, i.cond.as_ref().map(|c| c.s.as_str()), visited, out);
                }
                Selection::Spread(sp) => {
                    if visited.insert(sp.name.s.clone()) {
                        if let Some(fr) = self.doc.frag(&sp.name.s) {
                            self.fields_in_set(&fr.sel, Some(fr.cond.s.as_str()), Some(fr.cond.s.as_str()), visited, out);
                        }
                    }
                }
            }
        }
    }

    fn field_type(&self, f: &Field, parent: &Option<String>) -> Option<Type> {
        if f.name.s == "__typename" {
            return Some(Type::named("String").nn());
        }
        parent.as_ref().and_then(|p| self.s.field(p, &f.name.s)).map(|fd| fd.ty.clone())
    }

    fn sub_fields(&self, m: &MField<'a>) -> Vec<MField<'a>> {
        let base = self.field_type(m.f, &m.parent).map(|t| t.base().to_string());
        let mut out = Vec::new();
        let mut visited = BTreeSet::new();
        self.fields_in_set(&m.f.sel, base.as_deref(), None, &mut visited, &mut out);
        out
    }

    fn fields_can_merge(&mut self, fields: &[MField<'a>], reported: &mut BTreeSet<(Pos, Pos)>, depth: usize, recurse: bool) {
        if depth > 12 {
            return; // only reachable through fragment cycles, which 5.5.2.2 reports
        }
        let mut by_key: Vec<(&str, Vec<usize>)> = Vec::new();
        for (i, m) in fields.iter().enumerate() {
            match by_key.iter_mut().find(|(k, _)| *k == m.f.key()) {
                Some((_, v)) => v.push(i),
                None => by_key.push((m.f.key(), vec![i])),
            }
        }
        let scope = if depth == 0 { "same-scope" } else { "merged-subselection" };
        for (_, idxs) in &by_key {
            for x in 0..idxs.len() {
                for y in x + 1..idxs.len() {
                    let a = &fields[idxs[x]];
                    let b = &fields[idxs[y]];
                    if std::ptr::eq(a.f, b.f) {
                        continue; // one node reached twice (a fragment spread in both sub-selections)
                    }
                    let via = if a.via == b.via { "same-condition" } else { "different-condition" };
                    let pair = (a.f.pos.min(b.f.pos), a.f.pos.max(b.f.pos));
                    // 2.a SameResponseShape
                    if !self.same_response_shape(a, b, 0) {
                        if reported.insert(pair) {
                            // "shape": the two fields' own declared types differ; "subfield-shape": they agree
                            // and the mismatch is between sub-fields under one key (SameResponseShape step 9)
                            let kind = if self.own_shapes_agree(a, b) { "subfield-shape" } else { "shape" };
                            self.ec("FieldSelectionMerging", format!("{scope}/{via}/{kind}"), b.f.pos, format!("fields for key {} have different response shapes", a.f.key()));
                        }
                        continue;
                    }
                    // 2.b parent types equal, or either is not an Object type
                    let exclusive = match (&a.parent, &b.parent) {
                        (Some(pa), Some(pb)) => pa != pb && self.s.is_object(pa) && self.s.is_object(pb),
                        _ => false,
                    };
                    if exclusive {
                        continue;
                    }
                    if a.f.name.s != b.f.name.s {
                        if reported.insert(pair) {
                            self.ec("FieldSelectionMerging", format!("{scope}/{via}/field"), b.f.pos, format!("key {} selects both {} and {}", a.f.key(), a.f.name.s, b.f.name.s));
                        }
                        continue;
                    }
                    if !same_args(&a.f.args, &b.f.args) {
                        if reported.insert(pair) {
                            self.ec("FieldSelectionMerging", format!("{scope}/{via}/args"), b.f.pos, format!("key {} has differing arguments", a.f.key()));
                        }
                        continue;
                    }
                    // 2.b.iii–iv
                    if recurse && (!a.f.sel.is_empty() || !b.f.sel.is_empty()) {
                        let mut merged = self.sub_fields(a);
                        merged.extend(self.sub_fields(b));
                        self.fields_can_merge(&merged, reported, depth + 1, recurse);
                    }
                }
            }
        }
    }

    /// steps 1–6 of SameResponseShape only (no descent into the sub-selections)
    fn own_shapes_agree(&self, a: &MField<'a>, b: &MField<'a>) -> bool {
        let (Some(ta), Some(tb)) = (self.field_type(a.f, &a.parent), self.field_type(b.f, &b.parent)) else { return true };
        let (mut ta, mut tb) = (&ta, &tb);
        loop {
            match (ta, tb) {
                (Type::NonNull(x), Type::NonNull(y)) | (Type::List(x), Type::List(y)) => {
                    ta = x;
                    tb = y;
                }
                (Type::Named(x), Type::Named(y)) => return if self.s.is_leaf(x) || self.s.is_leaf(y) { x == y } else { true },
                _ => return false,
            }
        }
    }

    /// §5.3.2 SameResponseShape(fieldA, fieldB)
    fn same_response_shape(&self, a: &MField<'a>, b: &MField<'a>, depth: usize) -> bool {
        if depth > 12 || std::ptr::eq(a.f, b.f) {
            return true;
        }
        let (Some(ta), Some(tb)) = (self.field_type(a.f, &a.parent), self.field_type(b.f, &b.parent)) else {
            return true; // an undefined field: 5.3.1 reports it, no shape to compare
        };
        let (mut ta, mut tb) = (&ta, &tb);
        loop {
            match (ta, tb) {
                (Type::NonNull(x), Type::NonNull(y)) => {
                    ta = x;
                    tb = y;
                }
                (Type::NonNull(_), _) | (_, Type::NonNull(_)) => return false,
                (Type::List(x), Type::List(y)) => {
                    ta = x;
                    tb = y;
                }
                (Type::List(_), _) | (_, Type::List(_)) => return false,
                (Type::Named(x), Type::Named(y)) => {
                    if self.s.ty(x).is_none() || self.s.ty(y).is_none() {
                        return true;
                    }
                    if self.s.is_leaf(x) || self.s.is_leaf(y) {
                        return x == y;
                    }
                    if !(self.s.is_composite(x) && self.s.is_composite(y)) {
                        return false;
                    }
                    break;
                }
            }
        }
        let mut merged = self.sub_fields(a);
        merged.extend(self.sub_fields(b));
        for (i, x) in merged.iter().enumerate() {
            for y in &merged[i + 1..] {
                if x.f.key() == y.f.key() && !self.same_response_shape(x, y, depth + 1) {
                    return false;
                }
            }
        }
        true
    }
}

/// a field node of a selection set being merged, with its parent type
struct MField<'a> {
    f: &'a Field,
    parent: Option<String>,
    via: Option<String>,
}

/// kind of a literal, for the ValuesOfCorrectType clause
fn lit_kind(v: &Value) -> &'static str {
    match v {
        Value::Var(_) => "Variable",
        Value::Int(t) => {
            if t.parse::<i128>().map(|i| (i32::MIN as i128..=i32::MAX as i128).contains(&i)).unwrap_or(false) {
                "Int"
            } else {
                "IntOutOfRange"
            }
        }
        Value::Float(_) => "Float",
        Value::Str(_) => "String",
        Value::Bool(_) => "Boolean",
        Value::Null => "Null",
        Value::Enum(_) => "Enum",
        Value::List(_) => "List",
        Value::Object(_) => "Object",
    }
}

fn same_args(a: &[(PName, PValue)], b: &[(PName, PValue)]) -> bool {
    if a.len() != b.len() {
        return false;
    }
    a.iter().all(|(k, v)| b.iter().any(|(k2, v2)| k.s == k2.s && values_equal(&v.v, &v2.v)))
}

fn values_equal(a: &Value, b: &Value) -> bool {
    match (a, b) {
        (Value::List(x), Value::List(y)) => x.len() == y.len() && x.iter().zip(y).all(|(p, q)| values_equal(&p.v, &q.v)),
        (Value::Object(x), Value::Object(y)) => x.len() == y.len() && x.iter().all(|(k, v)| y.iter().any(|(k2, v2)| k.s == k2.s && values_equal(&v.v, &v2.v))),
        (x, y) => x == y,
    }
}

fn contains_var(v: &Value) -> bool {
    match v {
        Value::Var(_) => true,
        Value::List(l) => l.iter().any(|x| contains_var(&x.v)),
        Value::Object(o) => o.iter().any(|(_, x)| contains_var(&x.v)),
        _ => false,
    }
}

fn list_depth(t: &Type) -> usize {
    match t {
        Type::Named(_) => 0,
        Type::NonNull(t) => list_depth(t),
        Type::List(t) => 1 + list_depth(t),
    }
}

/// §5.8.5 AreTypesCompatible(variableType, locationType)
pub fn types_compatible(var: &Type, loc: &Type) -> bool {
    match (var, loc) {
        (Type::NonNull(v), Type::NonNull(l)) => types_compatible(v, l),
        (_, Type::NonNull(_)) => false,
        (Type::NonNull(v), l) => types_compatible(v, l),
        (Type::List(v), Type::List(l)) => types_compatible(v, l),
        (Type::List(_), _) | (_, Type::List(_)) => false,
        (Type::Named(v), Type::Named(l)) => v == l,
    }
}

#[cfg(test)]
mod tests {
    use super::*;
    use crate::parse::parse_exec;

    // The dog/cat schema of §5 of the specification.
    const SDL: &str = r#"
type Query { dog: Dog  human: Human  pet: Pet  catOrDog: CatOrDog  arguments: Arguments  findDog(complex: ComplexInput): Dog  booleanList(booleanListArg: [Boolean!]): Boolean }
enum DogCommand { SIT DOWN HEEL }
type Dog implements Pet { name: String!  nickname: String  barkVolume: Int  doesKnowCommand(dogCommand: DogCommand!): Boolean!  isHouseTrained(atOtherHomes: Boolean): Boolean!  owner: Human }
interface Sentient { name: String! }
interface Pet { name: String! }
type Alien implements Sentient { name: String!  homePlanet: String }
type Human implements Sentient { name: String!  pets: [Pet!] }
enum CatCommand { JUMP }
type Cat implements Pet { name: String!  nickname: String  doesKnowCommand(catCommand: CatCommand!): Boolean!  meowVolume: Int }
union CatOrDog = Cat | Dog
union DogOrHuman = Dog | Human
union HumanOrAlien = Human | Alien
type Arguments { multipleReqs(x: Int!, y: Int!): Int!  booleanArgField(booleanArg: Boolean): Boolean  floatArgField(floatArg: Float): Float  intArgField(intArg: Int): Int  nonNullBooleanArgField(nonNullBooleanArg: Boolean!): Boolean!  booleanListArgField(booleanListArg: [Boolean]!): [Boolean]  optionalNonNullBooleanArgField(optionalBooleanArg: Boolean! = false): Boolean! }
input ComplexInput { name: String  owner: String }
type Subscription { newMessage: Message  disallowedSecondRootField: Boolean }
type Message { body: String  sender: String }
"#;

    fn rules(q: &str) -> Vec<&'static str> {
        let s = Schema::from_sdl(SDL).unwrap();
        let d = parse_exec(q).unwrap();
        let mut r: Vec<_> = validate(&s, &d).into_iter().map(|e| e.rule).collect();
        r.sort();
        r.dedup();
        r
    }
    fn ok(q: &str) {
        assert_eq!(rules(q), Vec::<&str>::new(), "{q}");
    }
    fn bad(q: &str, rule: &str) {
        assert!(rules(q).contains(&rule), "{q}: expected {rule}, got {:?}", rules(q));
    }

    #[test]
    fn operations() {
        ok("query getDogName { dog { name } } query getOwnerName { dog { owner { name } } }");
        bad("query getName { dog { name } } query getName { dog { owner { name } } }", "OperationNameUniqueness");
        bad("{ dog { name } } query getName { dog { owner { name } } }", "LoneAnonymousOperation");
        ok("subscription sub { newMessage { body sender } }");
        bad("subscription sub { newMessage { body sender } disallowedSecondRootField }", "SingleRootField");
        bad("subscription sub { ...multipleSubscriptions } fragment multipleSubscriptions on Subscription { newMessage { body sender } disallowedSecondRootField }", "SingleRootField");
        bad("subscription sub { __typename }", "SingleRootField");
    }

    #[test]
    fn fields() {
        bad("{ dog { meowVolume } }", "FieldSelections");
        bad("{ dog { kawVolume: meowVolume } }", "FieldSelections");
        ok("{ pet { name } }");
        bad("{ pet { nickname } }", "FieldSelections");
        ok("{ catOrDog { __typename ... on Pet { name } ... on Dog { barkVolume } } }");
        bad("{ catOrDog { name barkVolume } }", "FieldSelections");
        bad("{ dog { barkVolume { sinceWhen } } }", "LeafFieldSelections");
        bad("{ human }", "LeafFieldSelections");
    }

    #[test]
    fn merging() {
        ok("{ dog { name name } }");
        ok("{ dog { otherName: name otherName: name } }");
        bad("{ dog { name: nickname name } }", "FieldSelectionMerging");
        ok("{ dog { doesKnowCommand(dogCommand: SIT) doesKnowCommand(dogCommand: SIT) } }");
        bad("{ dog { doesKnowCommand(dogCommand: SIT) doesKnowCommand(dogCommand: HEEL) } }", "FieldSelectionMerging");
        bad("query($c: DogCommand!) { dog { doesKnowCommand(dogCommand: SIT) doesKnowCommand(dogCommand: $c) } }", "FieldSelectionMerging");
        bad("{ dog { doesKnowCommand(dogCommand: SIT) doesKnowCommand } }", "FieldSelectionMerging");
        ok("{ pet { ... on Dog { volume: barkVolume } ... on Cat { volume: meowVolume } } }");
        ok("{ pet { ... on Dog { doesKnowCommand(dogCommand: SIT) } ... on Cat { doesKnowCommand(catCommand: JUMP) } } }");
        bad("{ pet { ... on Dog { someValue: nickname } ... on Cat { someValue: meowVolume } } }", "FieldSelectionMerging");
        bad("{ dog { ...f } } fragment f on Dog { x: name ... on Dog { x: nickname } }", "FieldSelectionMerging");
    }

    // §5.3.2 FieldsInSetCanMerge step 2.b: identical names/arguments and the merged sub-selection are
    // required only "if the parent types of fieldA and fieldB are equal or if either is not an Object
    // Type"; for two different object types only SameResponseShape (step 2.a, recursive) is required.
    #[test]
    fn merging_mutually_exclusive_parents_and_nested_sets() {
        let s = Schema::from_sdl("type Query { n: N } interface N { t: T  num: Int } type T implements N { t: T  num: Int  i: Int  str: String } type V implements N { t: T  num: Int }").unwrap();
        let r = |q: &str| -> Vec<(String, String)> { validate_clauses(&s, &parse_exec(q).unwrap()).into_iter().map(|(e, c)| (e.rule.to_string(), c)).collect() };
        // different object parents: sub-fields under one key may be different fields of equal shape
        assert_eq!(r("{ n { ... on T { x: t { k: num } } ... on V { x: t { k: i } } } }"), vec![]);
        // ... but SameResponseShape still recurses: Int vs T
        assert_eq!(r("{ n { ... on T { x: t { k: num } } ... on V { x: t { k: t { num } } } } }"), vec![("FieldSelectionMerging".to_string(), "same-scope/different-condition/subfield-shape".to_string())]);
        // ... and Int vs String at depth
        assert_eq!(r("{ n { ... on T { x: t { k: num } } ... on V { x: t { k: str } } } }"), vec![("FieldSelectionMerging".to_string(), "same-scope/different-condition/subfield-shape".to_string())]);
        // same (interface) parent: step 2.b.iv merges the two sub-selection sets
        assert_eq!(r("{ n { t { k: num } t { k: i } } }"), vec![("FieldSelectionMerging".to_string(), "merged-subselection/same-condition/field".to_string())]);
        // "any selection set defined in the document": a nested set is checked in its own right
        assert_eq!(r("{ n { t { k: num k: i } } }"), vec![("FieldSelectionMerging".to_string(), "same-scope/same-condition/field".to_string())]);
        // interface vs object parent: "either is not an Object Type" => identical names required
        assert_eq!(r("{ n { k: num ... on T { k: i } } }"), vec![("FieldSelectionMerging".to_string(), "same-scope/different-condition/field".to_string())]);
    }

    // §3.11 (list input coercion: a non-list value at a list position is the single item) combined with
    // §5.8.5: the variable inside an object literal given for `[In!]` is used at `In.r: Int!`.
    #[test]
    fn variable_position_inside_list_coerced_object_literal() {
        let s = Schema::from_sdl("type Query { f(x: [In!]): Int } input In { r: Int! }").unwrap();
        let r = |q: &str| -> Vec<&'static str> { validate(&s, &parse_exec(q).unwrap()).into_iter().map(|e| e.rule).collect() };
        assert_eq!(r("query($v: Int) { f(x: {r: $v}) }"), vec!["AllVariableUsagesAreAllowed"]);
        assert_eq!(r("query($v: Int) { f(x: [{r: $v}]) }"), vec!["AllVariableUsagesAreAllowed"]);
        assert_eq!(r("query($v: Int!) { f(x: {r: $v}) }"), Vec::<&str>::new());
    }

    #[test]
    fn arguments() {
        ok("{ dog { doesKnowCommand(dogCommand: SIT) } }");
        bad("{ dog { doesKnowCommand(command: CLEAN_UP_HOUSE, dogCommand: SIT) } }", "ArgumentNames");
        bad("{ dog { isHouseTrained(atOtherHomes: true) @include(unless: false) } }", "ArgumentNames");
        bad("{ arguments { booleanArgField(booleanArg: true, booleanArg: false) } }", "ArgumentUniqueness");
        ok("{ arguments { booleanArgField } }");
        bad("{ arguments { nonNullBooleanArgField } }", "RequiredArguments");
        bad("{ arguments { nonNullBooleanArgField(nonNullBooleanArg: null) } }", "RequiredArguments");
        ok("{ arguments { optionalNonNullBooleanArgField } }");
    }

    #[test]
    fn fragments() {
        bad("{ dog { ...fragmentOne } } fragment fragmentOne on Dog { name } fragment fragmentOne on Dog { owner { name } }", "FragmentNameUniqueness");
        bad("{ dog { ...notOnExistingType } } fragment notOnExistingType on NotInSchema { name }", "FragmentSpreadTypeExistence");
        bad("{ dog { ... on NotInSchema { name } } }", "FragmentSpreadTypeExistence");
        bad("{ dog { ...fragOnScalar } } fragment fragOnScalar on Int { something }", "FragmentsOnCompositeTypes");
        bad("{ dog { name } } fragment nameFragment on Dog { name }", "FragmentsMustBeUsed");
        bad("{ dog { ...undefinedFragment } }", "FragmentSpreadTargetDefined");
        bad("{ dog { ...nameFragment } } fragment nameFragment on Dog { name ...barkVolumeFragment } fragment barkVolumeFragment on Dog { barkVolume ...nameFragment }", "FragmentSpreadsMustNotFormCycles");
        bad("{ dog { ...dogFragment } } fragment dogFragment on Dog { name owner { ...ownerFragment } } fragment ownerFragment on Human { name pets { ...dogFragment } }", "FragmentSpreadsMustNotFormCycles");
        bad("{ dog { ...catInDogFragmentInvalid } } fragment catInDogFragmentInvalid on Dog { ... on Cat { meowVolume } }", "FragmentSpreadIsPossible");
        ok("{ dog { ...petNameFragment ...interfaceWithinObjectFragment } } fragment petNameFragment on Pet { name } fragment interfaceWithinObjectFragment on Dog { ...petNameFragment }");
        ok("{ dog { ...catOrDogNameFragment } } fragment catOrDogNameFragment on CatOrDog { ... on Cat { meowVolume } }");
        bad("{ pet { ...sentientFragment } } fragment sentientFragment on Sentient { ... on Dog { barkVolume } }", "FragmentSpreadIsPossible");
        bad("{ pet { ... on HumanOrAlien { ... on Cat { meowVolume } } } }", "FragmentSpreadIsPossible");
        ok("{ pet { ...unionWithInterface } } fragment unionWithInterface on Pet { ...dogOrHumanFragment } fragment dogOrHumanFragment on DogOrHuman { ... on Dog { barkVolume } }");
    }

    #[test]
    fn values() {
        ok("{ arguments { booleanArgField(booleanArg: true) intArgField(intArg: 123) floatArgField(floatArg: 123) } }");
        bad("{ arguments { intArgField(intArg: \"123\") } }", "ValuesOfCorrectType");
        bad("{ arguments { intArgField(intArg: 1.5) } }", "ValuesOfCorrectType");
        bad("{ findDog(complex: 123) { name } }", "ValuesOfCorrectType");
        ok("{ findDog(complex: { name: \"Fido\" }) { name } }");
        bad("{ findDog(complex: { favoriteCookieFlavor: \"Bacon\" }) { name } }", "InputObjectFieldNames");
        bad("{ findDog(complex: { name: \"Fido\", name: \"x\" }) { name } }", "InputObjectFieldUniqueness");
        ok("{ booleanList(booleanListArg: true) }");
        bad("{ booleanList(booleanListArg: [true, null]) }", "ValuesOfCorrectType");
    }

    #[test]
    fn directives() {
        bad("{ dog { name @nope } }", "DirectivesAreDefined");
        bad("query @skip(if: true) { dog { name } }", "DirectivesAreInValidLocations");
        bad("query ($foo: Boolean = true, $bar: Boolean = false) { dog @skip(if: $foo) @skip(if: $bar) { name } }", "DirectivesAreUniquePerLocation");
        ok("query ($foo: Boolean = true, $bar: Boolean = false) { dog @skip(if: $foo) { name } human @skip(if: $bar) { name } }");
        bad("{ dog { name @skip } }", "RequiredArguments");
    }

    #[test]
    fn variables() {
        bad("query houseTrainedQuery($atOtherHomes: Boolean, $atOtherHomes: Boolean) { dog { isHouseTrained(atOtherHomes: $atOtherHomes) } }", "VariableUniqueness");
        ok("query takesComplexInput($complexInput: ComplexInput) { findDog(complex: $complexInput) { name } }");
        bad("query takesCat($cat: Cat) { dog { name } }", "VariablesAreInputTypes");
        bad("query takesDogBang($dog: Dog!) { dog { name } }", "VariablesAreInputTypes");
        bad("query variableIsNotDefined { dog { isHouseTrained(atOtherHomes: $atOtherHomes) } }", "AllVariableUsesDefined");
        bad("query variableIsNotDefinedUsedInNestedFragment { dog { ...outer } } fragment outer on Dog { ...inner } fragment inner on Dog { isHouseTrained(atOtherHomes: $atOtherHomes) }", "AllVariableUsesDefined");
        bad("query variableUnused($atOtherHomes: Boolean) { dog { isHouseTrained } }", "AllVariablesUsed");
        ok("query variableUsedInFragment($atOtherHomes: Boolean) { dog { ...f } } fragment f on Dog { isHouseTrained(atOtherHomes: $atOtherHomes) }");
        bad("query intCannotGoIntoBoolean($intArg: Int) { arguments { booleanArgField(booleanArg: $intArg) } }", "AllVariableUsagesAreAllowed");
        bad("query booleanListCannotGoIntoBoolean($booleanListArg: [Boolean]) { arguments { booleanArgField(booleanArg: $booleanListArg) } }", "AllVariableUsagesAreAllowed");
        bad("query booleanArgQuery($booleanArg: Boolean) { arguments { nonNullBooleanArgField(nonNullBooleanArg: $booleanArg) } }", "AllVariableUsagesAreAllowed");
        ok("query nonNullListToList($nonNullBooleanList: [Boolean]!) { arguments { booleanListArgField(booleanListArg: $nonNullBooleanList) } }");
        bad("query listToNonNullList($booleanList: [Boolean]) { arguments { booleanListArgField(booleanListArg: $booleanList) } }", "AllVariableUsagesAreAllowed");
        ok("query booleanArgQueryWithDefault($booleanArg: Boolean) { arguments { optionalNonNullBooleanArgField(optionalBooleanArg: $booleanArg) } }");
        ok("query booleanArgQueryWithDefault($booleanArg: Boolean = true) { arguments { nonNullBooleanArgField(nonNullBooleanArg: $booleanArg) } }");
        bad("query q($b: Boolean) { dog @skip(if: $b) { name } }", "AllVariableUsagesAreAllowed");
        bad("query q($s: String) { arguments { intArgField(intArg: 1) } booleanList(booleanListArg: [$s]) }", "AllVariableUsagesAreAllowed");
    }
}
