//! §5 Validation of executable documents (October 2021), one function per rule,
//! each error tagged with the rule that raised it.

use crate::ast::*;
use crate::schema::{Arg, Kind, Schema};
use std::collections::{BTreeMap, BTreeSet};

#[derive(Clone, Debug, PartialEq)]
pub struct VError {
    pub rule: &'static str,
    pub msg: String,
    pub pos: Pos,
}

struct V<'a> {
    s: &'a Schema,
    doc: &'a ExecDoc,
    errs: Vec<VError>,
}

impl<'a> V<'a> {
    fn e(&mut self, rule: &'static str, pos: Pos, msg: impl Into<String>) {
        self.errs.push(VError { rule, msg: msg.into(), pos });
    }
}

pub fn validate(s: &Schema, doc: &ExecDoc) -> Vec<VError> {
    let mut v = V { s, doc, errs: Vec::new() };
    v.operations();
    v.fragments_decl();
    for op in doc.ops() {
        if let Some(root) = s.root(op.kind) {
            let root = root.to_string();
            v.selection_set(&op.sel, Some(&root));
            v.directives(&op.directives, match op.kind { OpKind::Query => "QUERY", OpKind::Mutation => "MUTATION", OpKind::Subscription => "SUBSCRIPTION" });
        } else {
            v.e("OperationTypeExistence", op.pos, format!("schema has no {} root", op.kind.word()));
            v.selection_set(&op.sel, None);
        }
        v.variables(op);
        if op.kind == OpKind::Subscription {
            v.single_root_field(op);
        }
    }
    for f in doc.frags() {
        let cond = if s.is_composite(&f.cond.s) { Some(f.cond.s.clone()) } else { None };
        v.selection_set(&f.sel, cond.as_deref());
        v.directives(&f.directives, "FRAGMENT_DEFINITION");
    }
    v.fragment_cycles();
    v.fragments_used();
    v.overlapping();
    v.errs
}

impl<'a> V<'a> {
    // 5.2.1.1, 5.2.2.1
    fn operations(&mut self) {
        let ops: Vec<&Operation> = self.doc.ops().collect();
        let mut seen = BTreeSet::new();
        for o in &ops {
            match &o.name {
                Some(n) => {
                    if !seen.insert(n.s.clone()) {
                        self.e("OperationNameUniqueness", n.pos, format!("duplicate operation {}", n.s));
                    }
                }
                None => {
                    if ops.len() > 1 {
                        self.e("LoneAnonymousOperation", o.pos, "anonymous operation must be the only operation");
                    }
                }
            }
        }
    }

    // 5.2.3.1
    fn single_root_field(&mut self, op: &'a Operation) {
        let Some(root) = self.s.root(OpKind::Subscription) else { return };
        let mut keys: Vec<(String, &Field)> = Vec::new();
        let mut visited = Vec::new();
        self.collect_static(root, &op.sel, &mut visited, &mut keys);
        let mut distinct: Vec<&str> = Vec::new();
        for (k, _) in &keys {
            if !distinct.contains(&k.as_str()) {
                distinct.push(k);
            }
        }
        if distinct.len() != 1 {
            self.e("SingleRootField", op.pos, "subscription must select exactly one root field");
        }
        for (_, f) in &keys {
            if f.name.s.starts_with("__") {
                self.e("SingleRootField", f.pos, "subscription root field must not be an introspection field");
                break;
            }
        }
    }

    /// CollectFields without variable values (directives ignored), for rule 5.2.3.1
    fn collect_static(&self, object: &str, sel: &'a [Selection], visited: &mut Vec<String>, out: &mut Vec<(String, &'a Field)>) {
        for s in sel {
            match s {
                Selection::Field(f) => out.push((f.key().to_string(), f)),
                Selection::Spread(sp) => {
                    if visited.contains(&sp.name.s) {
                        continue;
                    }
                    visited.push(sp.name.s.clone());
                    if let Some(fr) = self.doc.frag(&sp.name.s) {
                        if self.s.fragment_applies(object, &fr.cond.s) {
                            self.collect_static(object, &fr.sel, visited, out);
                        }
                    }
                }
                Selection::Inline(i) => {
                    if i.cond.as_ref().map(|c| self.s.fragment_applies(object, &c.s)).unwrap_or(true) {
                        self.collect_static(object, &i.sel, visited, out);
                    }
                }
            }
        }
    }

    // 5.5.1.1, 5.5.1.2, 5.5.1.3
    fn fragments_decl(&mut self) {
        let mut seen = BTreeSet::new();
        for f in self.doc.frags() {
            if !seen.insert(f.name.s.clone()) {
                self.e("FragmentNameUniqueness", f.name.pos, format!("duplicate fragment {}", f.name.s));
            }
            self.type_condition(&f.cond);
        }
    }
    fn type_condition(&mut self, c: &PName) {
        if self.s.ty(&c.s).is_none() {
            self.e("FragmentSpreadTypeExistence", c.pos, format!("unknown type {}", c.s));
        } else if !self.s.is_composite(&c.s) {
            self.e("FragmentsOnCompositeTypes", c.pos, format!("{} is not a composite type", c.s));
        }
    }

    // 5.3.1, 5.3.3, 5.4.*, 5.5.2.1, 5.5.2.3, 5.7.*
    fn selection_set(&mut self, sel: &'a [Selection], parent: Option<&str>) {
        for s in sel {
            match s {
                Selection::Field(f) => {
                    self.directives(&f.directives, "FIELD");
                    let Some(parent) = parent else {
                        self.selection_set(&f.sel, None);
                        continue;
                    };
                    if f.name.s == "__typename" {
                        if !f.sel.is_empty() {
                            self.e("LeafFieldSelections", f.pos, "__typename takes no selection");
                        }
                        if !f.args.is_empty() {
                            self.e("ArgumentNames", f.pos, "__typename takes no arguments");
                        }
                        continue;
                    }
                    // (introspection entry points __schema/__type are left to the caller's schema: not modelled)
                    let fd = self.s.field(parent, &f.name.s).cloned();
                    match fd {
                        None => {
                            self.e("FieldSelections", f.pos, format!("no field {} on {}", f.name.s, parent));
                            self.selection_set(&f.sel, None);
                        }
                        Some(fd) => {
                            self.arguments(&fd.args, &f.args, f.pos);
                            let base = fd.ty.base().to_string();
                            if self.s.is_leaf(&base) {
                                if !f.sel.is_empty() {
                                    self.e("LeafFieldSelections", f.pos, format!("field {} of leaf type takes no selection", f.name.s));
                                }
                            } else if f.sel.is_empty() {
                                self.e("LeafFieldSelections", f.pos, format!("field {} of composite type needs a selection", f.name.s));
                            }
                            self.selection_set(&f.sel, Some(&base));
                        }
                    }
                }
                Selection::Spread(sp) => {
                    self.directives(&sp.directives, "FRAGMENT_SPREAD");
                    match self.doc.frag(&sp.name.s) {
                        None => self.e("FragmentSpreadTargetDefined", sp.pos, format!("undefined fragment {}", sp.name.s)),
                        Some(fr) => {
                            if let Some(parent) = parent {
                                if self.s.is_composite(&fr.cond.s) && !self.overlap(parent, &fr.cond.s) {
                                    self.e("FragmentSpreadIsPossible", sp.pos, format!("fragment {} on {} can never apply to {}", sp.name.s, fr.cond.s, parent));
                                }
                            }
                        }
                    }
                }
                Selection::Inline(i) => {
                    self.directives(&i.directives, "INLINE_FRAGMENT");
                    let mut inner = parent.map(|p| p.to_string());
                    if let Some(c) = &i.cond {
                        self.type_condition(c);
                        if self.s.is_composite(&c.s) {
                            if let Some(parent) = parent {
                                if !self.overlap(parent, &c.s) {
                                    self.e("FragmentSpreadIsPossible", i.pos, format!("inline fragment on {} can never apply to {}", c.s, parent));
                                }
                            }
                            inner = Some(c.s.clone());
                        } else {
                            inner = None;
                        }
                    }
                    self.selection_set(&i.sel, inner.as_deref());
                }
            }
        }
    }

    fn overlap(&self, a: &str, b: &str) -> bool {
        let pa = self.s.possible_types(a);
        let pb = self.s.possible_types(b);
        pa.iter().any(|x| pb.contains(x))
    }

    // 5.4.1, 5.4.2, 5.4.2.1 + 5.6 for literals
    fn arguments(&mut self, defs: &[Arg], given: &'a [(PName, PValue)], pos: Pos) {
        let mut seen = BTreeSet::new();
        for (k, v) in given {
            if !seen.insert(k.s.clone()) {
                self.e("ArgumentUniqueness", k.pos, format!("duplicate argument {}", k.s));
            }
            match defs.iter().find(|d| d.name == k.s) {
                None => self.e("ArgumentNames", k.pos, format!("unknown argument {}", k.s)),
                Some(d) => self.value_of_type(&d.ty, v),
            }
        }
        for d in defs {
            if d.ty.is_non_null() && d.default.is_none() {
                let g = given.iter().find(|(k, _)| k.s == d.name);
                match g {
                    None => self.e("RequiredArguments", pos, format!("missing required argument {}", d.name)),
                    Some((_, v)) if v.v == Value::Null => self.e("RequiredArguments", v.pos, format!("null for required argument {}", d.name)),
                    _ => {}
                }
            }
        }
    }

    // 5.6.1–5.6.4 (variables are checked by 5.8.5, not here)
    fn value_of_type(&mut self, ty: &Type, v: &'a PValue) {
        if let Value::Var(_) = v.v {
            return;
        }
        match ty {
            Type::NonNull(t) => {
                if v.v == Value::Null {
                    self.e("ValuesOfCorrectType", v.pos, format!("null for non-null type {ty}"));
                } else {
                    self.value_of_type(t, v);
                }
            }
            _ if v.v == Value::Null => {}
            Type::List(t) => match &v.v {
                Value::List(items) => {
                    for it in items {
                        self.value_of_type(t, it);
                    }
                }
                _ => self.value_of_type(t, v),
            },
            Type::Named(n) => {
                let Some(td) = self.s.ty(n) else { return };
                match &td.kind {
                    Kind::Scalar => {
                        let ok = match n.as_str() {
                            "Int" => matches!(&v.v, Value::Int(t) if t.parse::<i128>().map(|i| (i32::MIN as i128..=i32::MAX as i128).contains(&i)).unwrap_or(false)),
                            "Float" => matches!(&v.v, Value::Int(_) | Value::Float(_)),
                            "String" => matches!(&v.v, Value::Str(_)),
                            "Boolean" => matches!(&v.v, Value::Bool(_)),
                            "ID" => matches!(&v.v, Value::Str(_) | Value::Int(_)),
                            _ => true,
                        };
                        if !ok {
                            self.e("ValuesOfCorrectType", v.pos, format!("value {} is not a {n}", crate::print::value(&v.v)));
                        }
                    }
                    Kind::Enum { values } => {
                        if !matches!(&v.v, Value::Enum(x) if values.iter().any(|(n, _, _)| n == x)) {
                            self.e("ValuesOfCorrectType", v.pos, format!("value {} is not a value of enum {n}", crate::print::value(&v.v)));
                        }
                    }
                    Kind::Input { fields, one_of } => {
                        let Value::Object(o) = &v.v else {
                            self.e("ValuesOfCorrectType", v.pos, format!("value {} is not an input object {n}", crate::print::value(&v.v)));
                            return;
                        };
                        let fields = fields.clone();
                        let mut seen = BTreeSet::new();
                        for (k, x) in o {
                            if !seen.insert(k.s.clone()) {
                                self.e("InputObjectFieldUniqueness", k.pos, format!("duplicate input field {}", k.s));
                            }
                            match fields.iter().find(|f| f.name == k.s) {
                                None => self.e("InputObjectFieldNames", k.pos, format!("unknown input field {} of {n}", k.s)),
                                Some(f) => self.value_of_type(&f.ty, x),
                            }
                        }
                        for f in &fields {
                            if f.ty.is_non_null() && f.default.is_none() && !o.iter().any(|(k, _)| k.s == f.name) {
                                self.e("InputObjectRequiredFields", v.pos, format!("missing required input field {} of {n}", f.name));
                            }
                        }
                        if *one_of {
                            if o.len() != 1 {
                                self.e("OneOfInputObjects", v.pos, "oneOf input object needs exactly one field");
                            } else if o[0].1.v == Value::Null {
                                self.e("OneOfInputObjects", v.pos, "oneOf input object field must not be null");
                            }
                        }
                    }
                    _ => {}
                }
            }
        }
    }

    // 5.7.1–5.7.3
    fn directives(&mut self, ds: &'a [Directive], location: &str) {
        let mut seen = BTreeSet::new();
        for d in ds {
            match self.s.directives.get(&d.name.s).cloned() {
                None => self.e("DirectivesAreDefined", d.pos, format!("unknown directive @{}", d.name.s)),
                Some(dd) => {
                    if !dd.locations.iter().any(|l| l == location) {
                        self.e("DirectivesAreInValidLocations", d.pos, format!("@{} not allowed on {location}", d.name.s));
                    }
                    if !dd.repeatable && !seen.insert(d.name.s.clone()) {
                        self.e("DirectivesAreUniquePerLocation", d.pos, format!("@{} used twice", d.name.s));
                    }
                    self.arguments(&dd.args, &d.args, d.pos);
                }
            }
        }
    }

    // 5.5.2.2
    fn fragment_cycles(&mut self) {
        fn spreads<'x>(sel: &'x [Selection], out: &mut Vec<&'x Spread>) {
            for s in sel {
                match s {
                    Selection::Field(f) => spreads(&f.sel, out),
                    Selection::Inline(i) => spreads(&i.sel, out),
                    Selection::Spread(sp) => out.push(sp),
                }
            }
        }
        let frags: Vec<&Fragment> = self.doc.frags().collect();
        let mut reported = BTreeSet::new();
        for f in &frags {
            // DFS from f; a path back to f is a cycle
            let mut stack: Vec<(&str, Vec<&str>)> = vec![(f.name.s.as_str(), vec![])];
            let mut seen: BTreeSet<&str> = BTreeSet::new();
            while let Some((cur, _)) = stack.pop() {
                let Some(fr) = self.doc.frag(cur) else { continue };
                let mut sp = Vec::new();
                spreads(&fr.sel, &mut sp);
                for s in sp {
                    if s.name.s == f.name.s {
                        if reported.insert(f.name.s.clone()) {
                            self.errs.push(VError { rule: "FragmentSpreadsMustNotFormCycles", msg: format!("fragment {} is part of a cycle", f.name.s), pos: s.pos });
                        }
                    } else if seen.insert(s.name.s.as_str()) {
                        stack.push((s.name.s.as_str(), vec![]));
                    }
                }
            }
        }
    }

    // 5.5.1.4
    fn fragments_used(&mut self) {
        fn walk<'x>(doc: &'x ExecDoc, sel: &'x [Selection], used: &mut BTreeSet<&'x str>) {
            for s in sel {
                match s {
                    Selection::Field(f) => walk(doc, &f.sel, used),
                    Selection::Inline(i) => walk(doc, &i.sel, used),
                    Selection::Spread(sp) => {
                        if used.insert(sp.name.s.as_str()) {
                            if let Some(fr) = doc.frag(&sp.name.s) {
                                walk(doc, &fr.sel, used);
                            }
                        }
                    }
                }
            }
        }
        let mut used = BTreeSet::new();
        for op in self.doc.ops() {
            walk(self.doc, &op.sel, &mut used);
        }
        for f in self.doc.frags() {
            if !used.contains(f.name.s.as_str()) {
                self.errs.push(VError { rule: "FragmentsMustBeUsed", msg: format!("fragment {} is never used", f.name.s), pos: f.pos });
            }
        }
    }

    // 5.8.1–5.8.5
    fn variables(&mut self, op: &'a Operation) {
        let mut defs: BTreeMap<String, &VarDef> = BTreeMap::new();
        for d in &op.vars {
            if defs.insert(d.name.s.clone(), d).is_some() {
                self.e("VariableUniqueness", d.pos, format!("duplicate variable ${}", d.name.s));
            }
            if self.s.ty(d.ty.base()).is_some() && !self.s.is_input(d.ty.base()) {
                self.e("VariablesAreInputTypes", d.pos, format!("variable ${} has non-input type {}", d.name.s, d.ty));
            } else if self.s.ty(d.ty.base()).is_none() {
                self.e("VariablesAreInputTypes", d.pos, format!("variable ${} has unknown type {}", d.name.s, d.ty));
            } else if let Some(def) = &d.default {
                self.value_of_type(&d.ty, def);
            }
            self.directives(&d.directives, "VARIABLE_DEFINITION");
        }
        // usages, following fragment spreads transitively
        let mut uses: Vec<(String, Pos, Option<(Type, bool)>)> = Vec::new(); // name, pos, (location type, location has default)
        let mut visited = BTreeSet::new();
        let root = self.s.root(op.kind).map(|s| s.to_string());
        self.var_uses_sel(&op.sel, root.as_deref(), &mut uses, &mut visited);
        self.var_uses_directives(&op.directives, &mut uses);
        let mut used = BTreeSet::new();
        for (name, pos, loc) in &uses {
            used.insert(name.clone());
            match defs.get(name) {
                None => self.e("AllVariableUsesDefined", *pos, format!("variable ${name} is not defined")),
                Some(d) => {
                    if let Some((lt, loc_default)) = loc {
                        if !self.variable_usage_allowed(d, lt, *loc_default) {
                            self.e("AllVariableUsagesAreAllowed", *pos, format!("variable ${name} of type {} used where {} is expected", d.ty, lt));
                        }
                    }
                }
            }
        }
        for d in &op.vars {
            if !used.contains(&d.name.s) {
                self.e("AllVariablesUsed", d.pos, format!("variable ${} is never used", d.name.s));
            }
        }
    }

    /// §5.8.5 IsVariableUsageAllowed
    fn variable_usage_allowed(&self, d: &VarDef, location: &Type, location_default: bool) -> bool {
        if location.is_non_null() && !d.ty.is_non_null() {
            let has_non_null_default = d.default.as_ref().map(|v| v.v != Value::Null).unwrap_or(false);
            if !has_non_null_default && !location_default {
                return false;
            }
            return types_compatible(&d.ty, location.nullable());
        }
        types_compatible(&d.ty, location)
    }

    fn var_uses_value(&self, v: &PValue, ty: Option<&Type>, has_default: bool, uses: &mut Vec<(String, Pos, Option<(Type, bool)>)>) {
        match &v.v {
            Value::Var(n) => uses.push((n.clone(), v.pos, ty.map(|t| (t.clone(), has_default)))),
            Value::List(items) => {
                let item_ty = ty.and_then(|t| match t.nullable() {
                    Type::List(i) => Some((**i).clone()),
                    _ => None,
                });
                // a non-list literal position coerced to a list: the item type is the type itself
                for it in items {
                    self.var_uses_value(it, item_ty.as_ref(), false, uses);
                }
            }
            Value::Object(o) => {
                let fields: Option<Vec<Arg>> = ty.and_then(|t| match self.s.ty(t.base()).map(|x| &x.kind) {
                    Some(Kind::Input { fields, .. }) if matches!(t.nullable(), Type::Named(_)) => Some(fields.clone()),
                    _ => None,
                });
                for (k, x) in o {
                    let f = fields.as_ref().and_then(|fs| fs.iter().find(|f| f.name == k.s));
                    self.var_uses_value(x, f.map(|f| &f.ty), f.map(|f| f.default.is_some()).unwrap_or(false), uses);
                }
            }
            _ => {}
        }
    }

    fn var_uses_args(&self, defs: Option<&[Arg]>, given: &[(PName, PValue)], uses: &mut Vec<(String, Pos, Option<(Type, bool)>)>) {
        for (k, v) in given {
            let d = defs.and_then(|ds| ds.iter().find(|d| d.name == k.s));
            self.var_uses_value(v, d.map(|d| &d.ty), d.map(|d| d.default.is_some()).unwrap_or(false), uses);
        }
    }

    fn var_uses_directives(&self, ds: &[Directive], uses: &mut Vec<(String, Pos, Option<(Type, bool)>)>) {
        for d in ds {
            let dd = self.s.directives.get(&d.name.s);
            self.var_uses_args(dd.map(|x| x.args.as_slice()), &d.args, uses);
        }
    }

    fn var_uses_sel(&self, sel: &'a [Selection], parent: Option<&str>, uses: &mut Vec<(String, Pos, Option<(Type, bool)>)>, visited: &mut BTreeSet<String>) {
        for s in sel {
            match s {
                Selection::Field(f) => {
                    self.var_uses_directives(&f.directives, uses);
                    let fd = parent.and_then(|p| self.s.field(p, &f.name.s));
                    self.var_uses_args(fd.map(|x| x.args.as_slice()), &f.args, uses);
                    let base = fd.map(|x| x.ty.base().to_string());
                    self.var_uses_sel(&f.sel, base.as_deref(), uses, visited);
                }
                Selection::Inline(i) => {
                    self.var_uses_directives(&i.directives, uses);
                    let inner = match &i.cond {
                        Some(c) => Some(c.s.as_str()),
                        None => parent,
                    };
                    self.var_uses_sel(&i.sel, inner, uses, visited);
                }
                Selection::Spread(sp) => {
                    self.var_uses_directives(&sp.directives, uses);
                    if visited.insert(sp.name.s.clone()) {
                        if let Some(fr) = self.doc.frag(&sp.name.s) {
                            self.var_uses_directives(&fr.directives, uses);
                            self.var_uses_sel(&fr.sel, Some(fr.cond.s.as_str()), uses, visited);
                        }
                    }
                }
            }
        }
    }

    // 5.3.2 Field Selection Merging
    fn overlapping(&mut self) {
        let mut sets: Vec<(&'a [Selection], Option<String>)> = Vec::new();
        for op in self.doc.ops() {
            sets.push((&op.sel, self.s.root(op.kind).map(|s| s.to_string())));
        }
        // every selection set in the document is checked in its own right (the rule is stated for
        // "any selection set"); nested ones are reached through the recursion of fields_can_merge.
        for f in self.doc.frags() {
            sets.push((&f.sel, Some(f.cond.s.clone())));
        }
        let mut reported: BTreeSet<(Pos, Pos)> = BTreeSet::new();
        for (sel, parent) in sets {
            let mut fields = Vec::new();
            let mut visited = BTreeSet::new();
            self.fields_in_set(sel, parent.as_deref(), &mut visited, &mut fields);
            self.fields_can_merge(&fields, &mut reported, 0);
        }
    }

    /// "fieldsForName": every field reachable in the set including through fragments, with its parent type.
    fn fields_in_set(&self, sel: &'a [Selection], parent: Option<&str>, visited: &mut BTreeSet<String>, out: &mut Vec<(&'a Field, Option<String>)>) {
        for s in sel {
            match s {
                Selection::Field(f) => out.push((f, parent.map(|p| p.to_string()))),
                Selection::Inline(i) => {
                    let inner = match &i.cond {
                        Some(c) => Some(c.s.as_str()),
                        None => parent,
                    };
                    self.fields_in_set(&i.sel, inner, visited, out);
                }
                Selection::Spread(sp) => {
                    if visited.insert(sp.name.s.clone()) {
                        if let Some(fr) = self.doc.frag(&sp.name.s) {
                            self.fields_in_set(&fr.sel, Some(fr.cond.s.as_str()), visited, out);
                        }
                    }
                }
            }
        }
    }

    fn field_type(&self, f: &Field, parent: &Option<String>) -> Option<Type> {
        if f.name.s == "__typename" {
            return Some(Type::named("String").nn());
        }
        parent.as_ref().and_then(|p| self.s.field(p, &f.name.s)).map(|fd| fd.ty.clone())
    }

    fn fields_can_merge(&mut self, fields: &[(&'a Field, Option<String>)], reported: &mut BTreeSet<(Pos, Pos)>, depth: usize) {
        if depth > 20 {
            return;
        }
        let mut by_key: BTreeMap<&str, Vec<usize>> = BTreeMap::new();
        for (i, (f, _)) in fields.iter().enumerate() {
            by_key.entry(f.key()).or_default().push(i);
        }
        for idxs in by_key.values() {
            for x in 0..idxs.len() {
                for y in x + 1..idxs.len() {
                    let (fa, pa) = &fields[idxs[x]];
                    let (fb, pb) = &fields[idxs[y]];
                    // SameResponseShape
                    let ta = self.field_type(fa, pa);
                    let tb = self.field_type(fb, pb);
                    if let (Some(ta), Some(tb)) = (&ta, &tb) {
                        if !self.same_shape(ta, tb) {
                            if reported.insert((fa.pos.min(fb.pos), fa.pos.max(fb.pos))) {
                                self.e("FieldSelectionMerging", fb.pos, format!("fields for key {} have different response shapes ({ta} vs {tb})", fa.key()));
                            }
                            continue;
                        }
                    }
                    // parent types equal, or either is not an object type => must be the same field with same arguments
                    let both_objects_differ = match (pa, pb) {
                        (Some(a), Some(b)) => a != b && self.s.is_object(a) && self.s.is_object(b),
                        _ => false,
                    };
                    if !both_objects_differ {
                        if fa.name.s != fb.name.s {
                            if reported.insert((fa.pos.min(fb.pos), fa.pos.max(fb.pos))) {
                                self.e("FieldSelectionMerging", fb.pos, format!("key {} selects both {} and {}", fa.key(), fa.name.s, fb.name.s));
                            }
                            continue;
                        }
                        if !same_args(&fa.args, &fb.args) {
                            if reported.insert((fa.pos.min(fb.pos), fa.pos.max(fb.pos))) {
                                self.e("FieldSelectionMerging", fb.pos, format!("key {} has differing arguments", fa.key()));
                            }
                            continue;
                        }
                    }
                }
            }
            // merged sub-selection of every field of this key
            let mut sub = Vec::new();
            let mut any = false;
            for &i in idxs {
                let (f, p) = &fields[i];
                if !f.sel.is_empty() {
                    any = true;
                    let base = self.field_type(f, p).map(|t| t.base().to_string());
                    let mut visited = BTreeSet::new();
                    self.fields_in_set(&f.sel, base.as_deref(), &mut visited, &mut sub);
                }
            }
            if any {
                self.fields_can_merge(&sub, reported, depth + 1);
            }
        }
    }

    /// §5.3.2 SameResponseShape on the declared types (recursion into sub-selections is done by the caller)
    fn same_shape(&self, a: &Type, b: &Type) -> bool {
        match (a, b) {
            (Type::NonNull(x), Type::NonNull(y)) => self.same_shape(x, y),
            (Type::NonNull(_), _) | (_, Type::NonNull(_)) => false,
            (Type::List(x), Type::List(y)) => self.same_shape(x, y),
            (Type::List(_), _) | (_, Type::List(_)) => false,
            (Type::Named(x), Type::Named(y)) => {
                if self.s.is_leaf(x) || self.s.is_leaf(y) {
                    x == y
                } else {
                    self.s.is_composite(x) && self.s.is_composite(y)
                }
            }
        }
    }
}

fn same_args(a: &[(PName, PValue)], b: &[(PName, PValue)]) -> bool {
    if a.len() != b.len() {
        return false;
    }
    a.iter().all(|(k, v)| b.iter().any(|(k2, v2)| k.s == k2.s && values_equal(&v.v, &v2.v)))
}

fn values_equal(a: &Value, b: &Value) -> bool {
    match (a, b) {
        (Value::List(x), Value::List(y)) => x.len() == y.len() && x.iter().zip(y).all(|(p, q)| values_equal(&p.v, &q.v)),
        (Value::Object(x), Value::Object(y)) => x.len() == y.len() && x.iter().all(|(k, v)| y.iter().any(|(k2, v2)| k.s == k2.s && values_equal(&v.v, &v2.v))),
        (x, y) => x == y,
    }
}

/// §5.8.5 AreTypesCompatible(variableType, locationType)
pub fn types_compatible(var: &Type, loc: &Type) -> bool {
    match (var, loc) {
        (Type::NonNull(v), Type::NonNull(l)) => types_compatible(v, l),
        (_, Type::NonNull(_)) => false,
        (Type::NonNull(v), l) => types_compatible(v, l),
        (Type::List(v), Type::List(l)) => types_compatible(v, l),
        (Type::List(_), _) | (_, Type::List(_)) => false,
        (Type::Named(v), Type::Named(l)) => v == l,
    }
}

#[cfg(test)]
mod tests {
    use super::*;
    use crate::parse::parse_exec;

    // The dog/cat schema of §5 of the specification.
    const SDL: &str = r#"
type Query { dog: Dog  human: Human  pet: Pet  catOrDog: CatOrDog  arguments: Arguments  findDog(complex: ComplexInput): Dog  booleanList(booleanListArg: [Boolean!]): Boolean }
enum DogCommand { SIT DOWN HEEL }
type Dog implements Pet { name: String!  nickname: String  barkVolume: Int  doesKnowCommand(dogCommand: DogCommand!): Boolean!  isHouseTrained(atOtherHomes: Boolean): Boolean!  owner: Human }
interface Sentient { name: String! }
interface Pet { name: String! }
type Alien implements Sentient { name: String!  homePlanet: String }
type Human implements Sentient { name: String!  pets: [Pet!] }
enum CatCommand { JUMP }
type Cat implements Pet { name: String!  nickname: String  doesKnowCommand(catCommand: CatCommand!): Boolean!  meowVolume: Int }
union CatOrDog = Cat | Dog
union DogOrHuman = Dog | Human
union HumanOrAlien = Human | Alien
type Arguments { multipleReqs(x: Int!, y: Int!): Int!  booleanArgField(booleanArg: Boolean): Boolean  floatArgField(floatArg: Float): Float  intArgField(intArg: Int): Int  nonNullBooleanArgField(nonNullBooleanArg: Boolean!): Boolean!  booleanListArgField(booleanListArg: [Boolean]!): [Boolean]  optionalNonNullBooleanArgField(optionalBooleanArg: Boolean! = false): Boolean! }
input ComplexInput { name: String  owner: String }
type Subscription { newMessage: Message  disallowedSecondRootField: Boolean }
type Message { body: String  sender: String }
"#;

    fn rules(q: &str) -> Vec<&'static str> {
        let s = Schema::from_sdl(SDL).unwrap();
        let d = parse_exec(q).unwrap();
        let mut r: Vec<_> = validate(&s, &d).into_iter().map(|e| e.rule).collect();
        r.sort();
        r.dedup();
        r
    }
    fn ok(q: &str) {
        assert_eq!(rules(q), Vec::<&str>::new(), "{q}");
    }
    fn bad(q: &str, rule: &str) {
        assert!(rules(q).contains(&rule), "{q}: expected {rule}, got {:?}", rules(q));
    }

    #[test]
    fn operations() {
        ok("query getDogName { dog { name } } query getOwnerName { dog { owner { name } } }");
        bad("query getName { dog { name } } query getName { dog { owner { name } } }", "OperationNameUniqueness");
        bad("{ dog { name } } query getName { dog { owner { name } } }", "LoneAnonymousOperation");
        ok("subscription sub { newMessage { body sender } }");
        bad("subscription sub { newMessage { body sender } disallowedSecondRootField }", "SingleRootField");
        bad("subscription sub { ...multipleSubscriptions } fragment multipleSubscriptions on Subscription { newMessage { body sender } disallowedSecondRootField }", "SingleRootField");
        bad("subscription sub { __typename }", "SingleRootField");
    }

    #[test]
    fn fields() {
        bad("{ dog { meowVolume } }", "FieldSelections");
        bad("{ dog { kawVolume: meowVolume } }", "FieldSelections");
        ok("{ pet { name } }");
        bad("{ pet { nickname } }", "FieldSelections");
        ok("{ catOrDog { __typename ... on Pet { name } ... on Dog { barkVolume } } }");
        bad("{ catOrDog { name barkVolume } }", "FieldSelections");
        bad("{ dog { barkVolume { sinceWhen } } }", "LeafFieldSelections");
        bad("{ human }", "LeafFieldSelections");
    }

    #[test]
    fn merging() {
        ok("{ dog { name name } }");
        ok("{ dog { otherName: name otherName: name } }");
        bad("{ dog { name: nickname name } }", "FieldSelectionMerging");
        ok("{ dog { doesKnowCommand(dogCommand: SIT) doesKnowCommand(dogCommand: SIT) } }");
        bad("{ dog { doesKnowCommand(dogCommand: SIT) doesKnowCommand(dogCommand: HEEL) } }", "FieldSelectionMerging");
        bad("query($c: DogCommand!) { dog { doesKnowCommand(dogCommand: SIT) doesKnowCommand(dogCommand: $c) } }", "FieldSelectionMerging");
        bad("{ dog { doesKnowCommand(dogCommand: SIT) doesKnowCommand } }", "FieldSelectionMerging");
        ok("{ pet { ... on Dog { volume: barkVolume } ... on Cat { volume: meowVolume } } }");
        ok("{ pet { ... on Dog { doesKnowCommand(dogCommand: SIT) } ... on Cat { doesKnowCommand(catCommand: JUMP) } } }");
        bad("{ pet { ... on Dog { someValue: nickname } ... on Cat { someValue: meowVolume } } }", "FieldSelectionMerging");
        bad("{ dog { ...f } } fragment f on Dog { x: name ... on Dog { x: nickname } }", "FieldSelectionMerging");
    }

    #[test]
    fn arguments() {
        ok("{ dog { doesKnowCommand(dogCommand: SIT) } }");
        bad("{ dog { doesKnowCommand(command: CLEAN_UP_HOUSE, dogCommand: SIT) } }", "ArgumentNames");
        bad("{ dog { isHouseTrained(atOtherHomes: true) @include(unless: false) } }", "ArgumentNames");
        bad("{ arguments { booleanArgField(booleanArg: true, booleanArg: false) } }", "ArgumentUniqueness");
        ok("{ arguments { booleanArgField } }");
        bad("{ arguments { nonNullBooleanArgField } }", "RequiredArguments");
        bad("{ arguments { nonNullBooleanArgField(nonNullBooleanArg: null) } }", "RequiredArguments");
        ok("{ arguments { optionalNonNullBooleanArgField } }");
    }

    #[test]
    fn fragments() {
        bad("{ dog { ...fragmentOne } } fragment fragmentOne on Dog { name } fragment fragmentOne on Dog { owner { name } }", "FragmentNameUniqueness");
        bad("{ dog { ...notOnExistingType } } fragment notOnExistingType on NotInSchema { name }", "FragmentSpreadTypeExistence");
        bad("{ dog { ... on NotInSchema { name } } }", "FragmentSpreadTypeExistence");
        bad("{ dog { ...fragOnScalar } } fragment fragOnScalar on Int { something }", "FragmentsOnCompositeTypes");
        bad("{ dog { name } } fragment nameFragment on Dog { name }", "FragmentsMustBeUsed");
        bad("{ dog { ...undefinedFragment } }", "FragmentSpreadTargetDefined");
        bad("{ dog { ...nameFragment } } fragment nameFragment on Dog { name ...barkVolumeFragment } fragment barkVolumeFragment on Dog { barkVolume ...nameFragment }", "FragmentSpreadsMustNotFormCycles");
        bad("{ dog { ...dogFragment } } fragment dogFragment on Dog { name owner { ...ownerFragment } } fragment ownerFragment on Human { name pets { ...dogFragment } }", "FragmentSpreadsMustNotFormCycles");
        bad("{ dog { ...catInDogFragmentInvalid } } fragment catInDogFragmentInvalid on Dog { ... on Cat { meowVolume } }", "FragmentSpreadIsPossible");
        ok("{ dog { ...petNameFragment ...interfaceWithinObjectFragment } } fragment petNameFragment on Pet { name } fragment interfaceWithinObjectFragment on Dog { ...petNameFragment }");
        ok("{ dog { ...catOrDogNameFragment } } fragment catOrDogNameFragment on CatOrDog { ... on Cat { meowVolume } }");
        bad("{ pet { ...sentientFragment } } fragment sentientFragment on Sentient { ... on Dog { barkVolume } }", "FragmentSpreadIsPossible");
        bad("{ pet { ... on HumanOrAlien { ... on Cat { meowVolume } } } }", "FragmentSpreadIsPossible");
        ok("{ pet { ...unionWithInterface } } fragment unionWithInterface on Pet { ...dogOrHumanFragment } fragment dogOrHumanFragment on DogOrHuman { ... on Dog { barkVolume } }");
    }

    #[test]
    fn values() {
        ok("{ arguments { booleanArgField(booleanArg: true) intArgField(intArg: 123) floatArgField(floatArg: 123) } }");
        bad("{ arguments { intArgField(intArg: \"123\") } }", "ValuesOfCorrectType");
        bad("{ arguments { intArgField(intArg: 1.5) } }", "ValuesOfCorrectType");
        bad("{ findDog(complex: 123) { name } }", "ValuesOfCorrectType");
        ok("{ findDog(complex: { name: \"Fido\" }) { name } }");
        bad("{ findDog(complex: { favoriteCookieFlavor: \"Bacon\" }) { name } }", "InputObjectFieldNames");
        bad("{ findDog(complex: { name: \"Fido\", name: \"x\" }) { name } }", "InputObjectFieldUniqueness");
        ok("{ booleanList(booleanListArg: true) }");
        bad("{ booleanList(booleanListArg: [true, null]) }", "ValuesOfCorrectType");
    }

    #[test]
    fn directives() {
        bad("{ dog { name @nope } }", "DirectivesAreDefined");
        bad("query @skip(if: true) { dog { name } }", "DirectivesAreInValidLocations");
        bad("query ($foo: Boolean = true, $bar: Boolean = false) { dog @skip(if: $foo) @skip(if: $bar) { name } }", "DirectivesAreUniquePerLocation");
        ok("query ($foo: Boolean = true, $bar: Boolean = false) { dog @skip(if: $foo) { name } human @skip(if: $bar) { name } }");
        bad("{ dog { name @skip } }", "RequiredArguments");
    }

    #[test]
    fn variables() {
        bad("query houseTrainedQuery($atOtherHomes: Boolean, $atOtherHomes: Boolean) { dog { isHouseTrained(atOtherHomes: $atOtherHomes) } }", "VariableUniqueness");
        ok("query takesComplexInput($complexInput: ComplexInput) { findDog(complex: $complexInput) { name } }");
        bad("query takesCat($cat: Cat) { dog { name } }", "VariablesAreInputTypes");
        bad("query takesDogBang($dog: Dog!) { dog { name } }", "VariablesAreInputTypes");
        bad("query variableIsNotDefined { dog { isHouseTrained(atOtherHomes: $atOtherHomes) } }", "AllVariableUsesDefined");
        bad("query variableIsNotDefinedUsedInNestedFragment { dog { ...outer } } fragment outer on Dog { ...inner } fragment inner on Dog { isHouseTrained(atOtherHomes: $atOtherHomes) }", "AllVariableUsesDefined");
        bad("query variableUnused($atOtherHomes: Boolean) { dog { isHouseTrained } }", "AllVariablesUsed");
        ok("query variableUsedInFragment($atOtherHomes: Boolean) { dog { ...f } } fragment f on Dog { isHouseTrained(atOtherHomes: $atOtherHomes) }");
        bad("query intCannotGoIntoBoolean($intArg: Int) { arguments { booleanArgField(booleanArg: $intArg) } }", "AllVariableUsagesAreAllowed");
        bad("query booleanListCannotGoIntoBoolean($booleanListArg: [Boolean]) { arguments { booleanArgField(booleanArg: $booleanListArg) } }", "AllVariableUsagesAreAllowed");
        bad("query booleanArgQuery($booleanArg: Boolean) { arguments { nonNullBooleanArgField(nonNullBooleanArg: $booleanArg) } }", "AllVariableUsagesAreAllowed");
        ok("query nonNullListToList($nonNullBooleanList: [Boolean]!) { arguments { booleanListArgField(booleanListArg: $nonNullBooleanList) } }");
        bad("query listToNonNullList($booleanList: [Boolean]) { arguments { booleanListArgField(booleanListArg: $booleanList) } }", "AllVariableUsagesAreAllowed");
        ok("query booleanArgQueryWithDefault($booleanArg: Boolean) { arguments { optionalNonNullBooleanArgField(optionalBooleanArg: $booleanArg) } }");
        ok("query booleanArgQueryWithDefault($booleanArg: Boolean = true) { arguments { nonNullBooleanArgField(nonNullBooleanArg: $booleanArg) } }");
        bad("query q($b: Boolean) { dog @skip(if: $b) { name } }", "AllVariableUsagesAreAllowed");
        bad("query q($s: String) { arguments { intArgField(intArg: 1) } booleanList(booleanListArg: [$s]) }", "AllVariableUsagesAreAllowed");
    }
}
