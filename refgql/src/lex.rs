//! Lexer of the reference model: GraphQL October 2021 §2.1 lexical grammar.
//! Positions are 1-based (line, column); LF, CRLF and a lone CR each end a
//! line; columns count Unicode scalar values.

use crate::ast::Pos;

#[derive(Clone, Debug, PartialEq)]
pub enum Tok {
    Punct(&'static str),
    Name(String),
    Int(String),
    Float(String),
    Str(String),
    BlockStr(String),
    Eof,
}

#[derive(Clone, Debug, PartialEq)]
pub struct Token {
    pub t: Tok,
    pub pos: Pos,
    /// char index of the first character
    pub off: usize,
}

#[derive(Clone, Debug, PartialEq)]
pub struct LexError {
    pub msg: String,
    pub pos: Pos,
    pub off: usize,
}

pub struct Lexer<'a> {
    src: Vec<char>,
    i: usize,
    line: u32,
    col: u32,
    _p: std::marker::PhantomData<&'a ()>,
}

fn is_name_start(c: char) -> bool {
    c == '_' || c.is_ascii_alphabetic()
}
fn is_name_cont(c: char) -> bool {
    c == '_' || c.is_ascii_alphanumeric()
}

/// Position (1-based line/col) of char offset `off` in `src` under the three-terminator rule.
pub fn pos_of(src: &str, off: usize) -> Pos {
    let cs: Vec<char> = src.chars().collect();
    let (mut line, mut col) = (1u32, 1u32);
    let mut i = 0;
    while i < off && i < cs.len() {
        match cs[i] {
            '\n' => {
                line += 1;
                col = 1;
            }
            '\r' => {
                if i + 1 < cs.len() && cs[i + 1] == '\n' && i + 1 < off {
                    i += 1;
                }
                line += 1;
                col = 1;
            }
            _ => col += 1,
        }
        i += 1;
    }
    Pos { line, col }
}

impl<'a> Lexer<'a> {
    pub fn new(src: &'a str) -> Lexer<'a> {
        Lexer { src: src.chars().collect(), i: 0, line: 1, col: 1, _p: std::marker::PhantomData }
    }
    fn peek(&self, k: usize) -> Option<char> {
        self.src.get(self.i + k).copied()
    }
    /// Char offset just behind the last token returned by `next` (= its end).
    pub fn offset(&self) -> usize {
        self.i
    }
    fn here(&self) -> Pos {
        Pos { line: self.line, col: self.col }
    }
    fn bump(&mut self) -> Option<char> {
        let c = self.peek(0)?;
        self.i += 1;
        match c {
            '\n' => {
                self.line += 1;
                self.col = 1;
            }
            '\r' => {
                if self.peek(0) == Some('\n') {
                    self.i += 1;
                }
                self.line += 1;
                self.col = 1;
            }
            _ => self.col += 1,
        }
        Some(c)
    }
    fn err<T>(&self, msg: &str, pos: Pos, off: usize) -> Result<T, LexError> {
        Err(LexError { msg: msg.to_string(), pos, off })
    }

    fn skip_ignored(&mut self) {
        loop {
            match self.peek(0) {
                Some('\u{feff}') | Some('\t') | Some(' ') | Some(',') | Some('\n') | Some('\r') => {
                    self.bump();
                }
                Some('#') => {
                    while let Some(c) = self.peek(0) {
                        if c == '\n' || c == '\r' {
                            break;
                        }
                        self.bump();
                    }
                }
                _ => break,
            }
        }
    }

    pub fn next(&mut self) -> Result<Token, LexError> {
        self.skip_ignored();
        let pos = self.here();
        let off = self.i;
        let Some(c) = self.peek(0) else { return Ok(Token { t: Tok::Eof, pos, off }) };
        let mk = |t| Ok(Token { t, pos, off });
        match c {
            '!' | '$' | '&' | '(' | ')' | ':' | '=' | '@' | '[' | ']' | '{' | '|' | '}' => {
                self.bump();
                let s: &'static str = match c {
                    '!' => "!",
                    '$' => "$",
                    '&' => "&",
                    '(' => "(",
                    ')' => ")",
                    ':' => ":",
                    '=' => "=",
                    '@' => "@",
                    '[' => "[",
                    ']' => "]",
                    '{' => "{",
                    '|' => "|",
                    _ => "}",
                };
                mk(Tok::Punct(s))
            }
            '.' => {
                if self.peek(1) == Some('.') && self.peek(2) == Some('.') {
                    self.bump();
                    self.bump();
                    self.bump();
                    mk(Tok::Punct("..."))
                } else {
                    self.err("unexpected '.'", pos, off)
                }
            }
            '"' => {
                if self.peek(1) == Some('"') && self.peek(2) == Some('"') {
                    self.block_string(pos, off)
                } else {
                    self.string(pos, off)
                }
            }
            '-' | '0'..='9' => self.number(pos, off),
            c if is_name_start(c) => {
                let mut s = String::new();
                while let Some(c) = self.peek(0) {
                    if is_name_cont(c) {
                        s.push(c);
                        self.bump();
                    } else {
                        break;
                    }
                }
                mk(Tok::Name(s))
            }
            _ => self.err("unexpected character", pos, off),
        }
    }

    fn number(&mut self, pos: Pos, off: usize) -> Result<Token, LexError> {
        let mut s = String::new();
        if self.peek(0) == Some('-') {
            s.push('-');
            self.bump();
        }
        match self.peek(0) {
            Some('0') => {
                s.push('0');
                self.bump();
            }
            Some(c @ '1'..='9') => {
                s.push(c);
                self.bump();
                while let Some(c @ '0'..='9') = self.peek(0) {
                    s.push(c);
                    self.bump();
                }
            }
            _ => return self.err("digit expected", self.here(), self.i),
        }
        let mut float = false;
        if self.peek(0) == Some('.') {
            // FractionalPart :: . Digit+
            if !matches!(self.peek(1), Some('0'..='9')) {
                return self.err("digit expected after '.'", self.here(), self.i);
            }
            float = true;
            s.push('.');
            self.bump();
            while let Some(c @ '0'..='9') = self.peek(0) {
                s.push(c);
                self.bump();
            }
        }
        if matches!(self.peek(0), Some('e') | Some('E')) {
            // ExponentPart :: ExponentIndicator Sign? Digit+
            let mut k = 1;
            if matches!(self.peek(1), Some('+') | Some('-')) {
                k = 2;
            }
            if !matches!(self.peek(k), Some('0'..='9')) {
                return self.err("digit expected in exponent", self.here(), self.i);
            }
            float = true;
            for _ in 0..k {
                s.push(self.peek(0).unwrap());
                self.bump();
            }
            while let Some(c @ '0'..='9') = self.peek(0) {
                s.push(c);
                self.bump();
            }
        }
        // lookahead restriction: not followed by Digit, '.', NameStart
        if let Some(c) = self.peek(0) {
            if c.is_ascii_digit() || c == '.' || is_name_start(c) {
                return self.err("invalid character after number", self.here(), self.i);
            }
        }
        Ok(Token { t: if float { Tok::Float(s) } else { Tok::Int(s) }, pos, off })
    }

    fn string(&mut self, pos: Pos, off: usize) -> Result<Token, LexError> {
        self.bump(); // opening quote
        let mut out = String::new();
        loop {
            let cp = self.here();
            let co = self.i;
            let Some(c) = self.peek(0) else { return self.err("unterminated string", cp, co) };
            match c {
                '"' => {
                    self.bump();
                    break;
                }
                '\n' | '\r' => return self.err("line terminator in string", cp, co),
                '\\' => {
                    self.bump();
                    let Some(e) = self.peek(0) else { return self.err("unterminated escape", cp, co) };
                    self.bump();
                    match e {
                        '"' => out.push('"'),
                        '\\' => out.push('\\'),
                        '/' => out.push('/'),
                        'b' => out.push('\u{8}'),
                        'f' => out.push('\u{c}'),
                        'n' => out.push('\n'),
                        'r' => out.push('\r'),
                        't' => out.push('\t'),
                        'u' => {
                            let mut v = 0u32;
                            for _ in 0..4 {
                                let Some(h) = self.peek(0).and_then(|h| h.to_digit(16)) else {
                                    return self.err("bad \\u escape", cp, co);
                                };
                                v = v * 16 + h;
                                self.bump();
                            }
                            // documented deviation of the crate: escapes must denote scalar values
                            match char::from_u32(v) {
                                Some(ch) => out.push(ch),
                                None => return self.err("\\u escape is not a Unicode scalar value", cp, co),
                            }
                        }
                        _ => return self.err("unknown escape", cp, co),
                    }
                }
                c => {
                    out.push(c);
                    self.bump();
                }
            }
        }
        Ok(Token { t: Tok::Str(out), pos, off })
    }

    fn block_string(&mut self, pos: Pos, off: usize) -> Result<Token, LexError> {
        self.bump();
        self.bump();
        self.bump();
        let mut raw = String::new();
        loop {
            let cp = self.here();
            let co = self.i;
            let Some(c) = self.peek(0) else { return self.err("unterminated block string", cp, co) };
            if c == '"' && self.peek(1) == Some('"') && self.peek(2) == Some('"') {
                self.bump();
                self.bump();
                self.bump();
                break;
            }
            if c == '\\' && self.peek(1) == Some('"') && self.peek(2) == Some('"') && self.peek(3) == Some('"') {
                self.bump();
                self.bump();
                self.bump();
                self.bump();
                raw.push_str("\"\"\"");
                continue;
            }
            raw.push(c);
            // bump() swallows CRLF as one terminator; keep the raw text exact
            if c == '\r' && self.peek(1) == Some('\n') {
                raw.push('\n');
            }
            self.bump();
        }
        Ok(Token { t: Tok::BlockStr(block_string_value(&raw)), pos, off })
    }
}

/// §2.9.4 BlockStringValue(rawValue)
pub fn block_string_value(raw: &str) -> String {
    // split on LineTerminator: \n, \r\n, \r
    let mut lines: Vec<String> = Vec::new();
    let mut cur = String::new();
    let cs: Vec<char> = raw.chars().collect();
    let mut i = 0;
    while i < cs.len() {
        match cs[i] {
            '\n' => lines.push(std::mem::take(&mut cur)),
            '\r' => {
                if i + 1 < cs.len() && cs[i + 1] == '\n' {
                    i += 1;
                }
                lines.push(std::mem::take(&mut cur));
            }
            c => cur.push(c),
        }
        i += 1;
    }
    lines.push(cur);
    let is_ws = |c: char| c == ' ' || c == '\t';
    let mut common: Option<usize> = None;
    for l in lines.iter().skip(1) {
        let indent = l.chars().take_while(|c| is_ws(*c)).count();
        if indent < l.chars().count() && common.map(|c| indent < c).unwrap_or(true) {
            common = Some(indent);
        }
    }
    if let Some(c) = common {
        for l in lines.iter_mut().skip(1) {
            let n = l.chars().count().min(c);
            // remove n characters (lines shorter than c are whitespace only)
            *l = l.chars().skip(n).collect();
        }
    }
    while lines.first().map(|l| l.chars().all(is_ws)).unwrap_or(false) {
        lines.remove(0);
    }
    while lines.last().map(|l| l.chars().all(is_ws)).unwrap_or(false) {
        lines.pop();
    }
    lines.join("\n")
}

pub fn tokenize(src: &str) -> Result<Vec<Token>, LexError> {
    let mut lx = Lexer::new(src);
    let mut v = Vec::new();
    loop {
        let t = lx.next()?;
        let eof = t.t == Tok::Eof;
        v.push(t);
        if eof {
            return Ok(v);
        }
    }
}

/// Like `tokenize`, with the char offset just behind each token (its end; `Eof` has start == end).
pub fn tokenize_spans(src: &str) -> Result<Vec<(Token, usize)>, LexError> {
    let mut lx = Lexer::new(src);
    let mut v = Vec::new();
    loop {
        let t = lx.next()?;
        let end = lx.offset();
        let eof = t.t == Tok::Eof;
        v.push((t, end));
        if eof {
            return Ok(v);
        }
    }
}

#[cfg(test)]
mod tests {
    use super::*;

    #[test]
    fn token_spans() {
        let v = tokenize_spans("{ ab(x: \"s\") }").unwrap();
        let spans: Vec<_> = v.iter().map(|(t, e)| (t.off, *e)).collect();
        assert_eq!(spans, vec![(0, 1), (2, 4), (4, 5), (5, 6), (6, 7), (8, 11), (11, 12), (13, 14), (14, 14)]);
    }

    #[test]
    fn spec_block_string_example() {
        // §2.9.4 example: the indented block string equals "Hello,\n  World!\n\nYours,\n  GraphQL."
        let raw = "\n    Hello,\n      World!\n\n    Yours,\n      GraphQL.\n  ";
        assert_eq!(block_string_value(raw), "Hello,\n  World!\n\nYours,\n  GraphQL.");
    }
    #[test]
    fn number_lookahead() {
        assert!(tokenize("0xF1").is_err());
        assert!(tokenize("1.23.4").is_err());
        assert!(tokenize("1.2e3.4").is_err());
        assert!(tokenize("1.0e").is_err());
        assert!(tokenize("01").is_err());
        assert!(tokenize("1x").is_err());
        assert!(tokenize("-0").is_ok());
        assert!(tokenize("1e5").is_ok());
    }
    #[test]
    fn positions() {
        let t = tokenize("{\r a\r\n b\n c }").unwrap();
        let p: Vec<_> = t.iter().map(|t| (t.pos.line, t.pos.col)).collect();
        assert_eq!(&p[..5], &[(1, 1), (2, 2), (3, 2), (4, 2), (4, 4)]);
    }
    #[test]
    fn strings() {
        assert_eq!(tokenize(r#""a\né\"""#).unwrap()[0].t, Tok::Str("a\né\"".into()));
        assert!(tokenize("\"a\nb\"").is_err());
        assert_eq!(tokenize("\"\"").unwrap()[0].t, Tok::Str("".into()));
        assert_eq!(tokenize(r#""""a\"""b""""#).unwrap()[0].t, Tok::BlockStr("a\"\"\"b".into()));
    }
}
