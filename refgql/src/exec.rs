//! Reference executor: §6 ExecuteRequest / CollectFields / ExecuteSelectionSet /
//! CompleteValue with §6.4.4 error handling, over the IR and a *world* that
//! answers what each resolver returns.

use crate::ast::*;
use crate::coerce::{coerce_arguments, coerce_variables, Val, VarValues};
use crate::schema::{FieldT, Kind, Schema};
use serde_json::{Map, Value as J};

#[derive(Clone, Debug, PartialEq, Eq, Hash, PartialOrd, Ord)]
pub enum Seg {
    Key(String),
    Idx(usize),
}
pub type Path = Vec<Seg>;

pub fn path_str(p: &[Seg]) -> String {
    p.iter().map(|s| match s { Seg::Key(k) => k.clone(), Seg::Idx(i) => i.to_string() }).collect::<Vec<_>>().join(".")
}
pub fn path_json(p: &[Seg]) -> J {
    J::Array(p.iter().map(|s| match s { Seg::Key(k) => J::String(k.clone()), Seg::Idx(i) => J::from(*i as u64) }).collect())
}

/// What a resolver (or a list item) yields.
#[derive(Clone, Debug, PartialEq)]
pub enum Ans {
    /// the resolver returns an error
    Err,
    Null,
    Int(i64),
    Float(f64),
    Str(String),
    Bool(bool),
    Enum(String),
    /// a composite value whose runtime object type is named
    Obj(String),
    /// a list with n items (each item is asked separately at path + index)
    List(usize),
    /// (dynamic schemas) a value of a kind that does not fit the declared type
    WrongKind,
}

pub trait World {
    /// Answer for the position `path` whose declared type is `ty`.
    /// `field` is `Some` when the position is a field (a resolver call), `None` for list items.
    fn ask(&mut self, path: &[Seg], ty: &Type, field: Option<(&str, &FieldT, &[(String, Val)])>) -> Ans;
}

#[derive(Clone, Debug, PartialEq)]
pub struct Invocation {
    pub path: Path,
    pub parent_type: String,
    pub field: String,
    pub args: Vec<(String, Val)>,
}

#[derive(Clone, Debug, PartialEq)]
pub enum ErrKind {
    /// resolver returned an error
    Resolver,
    /// argument coercion failed
    Argument,
    /// value invalid for its type / null for non-null / non-finite float
    Completion,
}

#[derive(Clone, Debug, PartialEq)]
pub struct ExecError {
    pub path: Path,
    pub pos: Pos,
    pub kind: ErrKind,
    /// the position that became null because of this error (empty path = data as a whole);
    /// `None` only while the null is still propagating during execution
    pub nulled: Option<Path>,
}

#[derive(Clone, Debug, PartialEq)]
pub struct ExecResult {
    /// `None` = request error before execution (no data entry); `Some(Null)` = data: null
    pub data: Option<J>,
    pub errors: Vec<ExecError>,
    pub request_error: Option<String>,
    pub invocations: Vec<Invocation>,
}

struct Ex<'a, W: World> {
    s: &'a Schema,
    doc: &'a ExecDoc,
    vars: VarValues,
    world: &'a mut W,
    errors: Vec<ExecError>,
    invocations: Vec<Invocation>,
}

/// marker: a null is propagating upwards (the error itself is already recorded)
struct Bubble;

fn directive_if(d: &Directive, vars: &VarValues) -> Option<bool> {
    let (_, v) = d.args.iter().find(|(k, _)| k.s == "if")?;
    match &v.v {
        Value::Bool(b) => Some(*b),
        Value::Var(n) => match vars.get(n) {
            Some(Val::Bool(b)) => Some(*b),
            _ => None,
        },
        _ => None,
    }
}

/// true = the selection is to be skipped
fn skipped(ds: &[Directive], vars: &VarValues) -> bool {
    for d in ds {
        if d.name.s == "skip" && directive_if(d, vars) == Some(true) {
            return true;
        }
    }
    for d in ds {
        if d.name.s == "include" && directive_if(d, vars) == Some(false) {
            return true;
        }
    }
    false
}

impl<'a, W: World> Ex<'a, W> {
    /// §6.3.2 CollectFields
    fn collect<'d>(&self, object: &str, sel: &'d [Selection], visited: &mut Vec<String>, out: &mut Vec<(String, Vec<&'d Field>)>)
    where
        'a: 'd,
    {
        for s in sel {
            match s {
                Selection::Field(f) => {
                    if skipped(&f.directives, &self.vars) {
                        continue;
                    }
                    let key = f.key().to_string();
                    match out.iter_mut().find(|(k, _)| *k == key) {
                        Some((_, v)) => v.push(f),
                        None => out.push((key, vec![f])),
                    }
                }
                Selection::Spread(sp) => {
                    if skipped(&sp.directives, &self.vars) {
                        continue;
                    }
                    if visited.contains(&sp.name.s) {
                        continue;
                    }
                    visited.push(sp.name.s.clone());
                    let Some(fr) = self.doc.frag(&sp.name.s) else { continue };
                    if !self.s.fragment_applies(object, &fr.cond.s) {
                        continue;
                    }
                    self.collect(object, &fr.sel, visited, out);
                }
                Selection::Inline(inl) => {
                    if skipped(&inl.directives, &self.vars) {
                        continue;
                    }
                    if let Some(c) = &inl.cond {
                        if !self.s.fragment_applies(object, &c.s) {
                            continue;
                        }
                    }
                    self.collect(object, &inl.sel, visited, out);
                }
            }
        }
    }

    fn exec_selection_set(&mut self, object: &str, sels: &[&'a [Selection]], path: &Path) -> Result<J, Bubble> {
        let mut grouped: Vec<(String, Vec<&Field>)> = Vec::new();
        let mut visited = Vec::new();
        for sel in sels {
            // one visitedFragments set per selection-set execution (merged sub-selections share it, §6.3.3 MergeSelectionSets + CollectFields)
            self.collect(object, sel, &mut visited, &mut grouped);
        }
        let mut map = Map::new();
        let mut bubble = false;
        for (key, fields) in grouped {
            let f0 = fields[0];
            let mut p = path.clone();
            p.push(Seg::Key(key.clone()));
            if f0.name.s == "__typename" {
                map.insert(key, J::String(object.to_string()));
                continue;
            }
            let Some(fd) = self.s.field(object, &f0.name.s) else { continue };
            let fd = fd.clone();
            match self.exec_field(object, &fd, &fields, &p) {
                Ok(v) => {
                    map.insert(key, v);
                }
                Err(Bubble) => {
                    // keep executing siblings so that the reference error set is the no-cancellation one
                    bubble = true;
                    map.insert(key, J::Null);
                }
            }
        }
        if bubble {
            Err(Bubble)
        } else {
            Ok(J::Object(map))
        }
    }

    fn push_err(&mut self, path: &Path, pos: Pos, kind: ErrKind) {
        self.errors.push(ExecError { path: path.clone(), pos, kind, nulled: None });
    }

    fn exec_field(&mut self, object: &str, fd: &FieldT, fields: &[&'a Field], path: &Path) -> Result<J, Bubble> {
        let first_err = self.errors.len();
        let r = self.exec_field_inner(object, fd, fields, path);
        match r {
            Ok(v) => Ok(v),
            Err(Bubble) => {
                if fd.ty.is_non_null() {
                    Err(Bubble)
                } else {
                    // this field is the nearest nullable position for every error that bubbled to here
                    for e in self.errors[first_err..].iter_mut() {
                        if e.nulled.is_none() {
                            e.nulled = Some(path.clone());
                        }
                    }
                    Ok(J::Null)
                }
            }
        }
    }

    fn exec_field_inner(&mut self, object: &str, fd: &FieldT, fields: &[&'a Field], path: &Path) -> Result<J, Bubble> {
        let f0 = fields[0];
        let args = match coerce_arguments(self.s, &fd.args, &f0.args, &self.vars) {
            Ok(a) => a,
            Err(_) => {
                self.push_err(path, f0.pos, ErrKind::Argument);
                return Err(Bubble);
            }
        };
        self.invocations.push(Invocation { path: path.clone(), parent_type: object.to_string(), field: fd.name.clone(), args: args.clone() });
        let ans = self.world.ask(path, &fd.ty, Some((object, fd, &args)));
        let sub: Vec<&'a [Selection]> = fields.iter().map(|f| f.sel.as_slice()).collect();
        self.complete(&fd.ty, ans, &sub, path, f0.pos)
    }

    /// §6.4.3 CompleteValue. `Err(Bubble)` = null at a position that must not be null at this level.
    fn complete(&mut self, ty: &Type, ans: Ans, sub: &[&'a [Selection]], path: &Path, pos: Pos) -> Result<J, Bubble> {
        if ans == Ans::Err {
            self.push_err(path, pos, ErrKind::Resolver);
            return Err(Bubble);
        }
        match ty {
            Type::NonNull(inner) => {
                if ans == Ans::Null {
                    self.push_err(path, pos, ErrKind::Completion);
                    return Err(Bubble);
                }
                self.complete(inner, ans, sub, path, pos)
            }
            _ if ans == Ans::Null => Ok(J::Null),
            Type::List(item_ty) => {
                let Ans::List(n) = ans else {
                    self.push_err(path, pos, ErrKind::Completion);
                    return Err(Bubble);
                };
                let mut out = Vec::new();
                let mut bubble = false;
                for i in 0..n {
                    let mut p = path.clone();
                    p.push(Seg::Idx(i));
                    let first_err = self.errors.len();
                    let a = self.world.ask(&p, item_ty, None);
                    match self.complete(item_ty, a, sub, &p, pos) {
                        Ok(v) => out.push(v),
                        Err(Bubble) => {
                            if item_ty.is_non_null() {
                                bubble = true;
                                out.push(J::Null);
                            } else {
                                for e in self.errors[first_err..].iter_mut() {
                                    if e.nulled.is_none() {
                                        e.nulled = Some(p.clone());
                                    }
                                }
                                out.push(J::Null);
                            }
                        }
                    }
                }
                if bubble {
                    Err(Bubble)
                } else {
                    Ok(J::Array(out))
                }
            }
            Type::Named(n) => {
                let kind = self.s.ty(n).map(|t| t.kind.clone());
                match kind {
                    Some(Kind::Scalar) => {
                        let v = match (n.as_str(), &ans) {
                            ("Int", Ans::Int(i)) if *i >= i32::MIN as i64 && *i <= i32::MAX as i64 => Some(J::from(*i)),
                            ("Float", Ans::Float(f)) if f.is_finite() => serde_json::Number::from_f64(*f).map(J::Number),
                            ("Float", Ans::Int(i)) => Some(J::from(*i as f64)),
                            ("String", Ans::Str(s)) | ("ID", Ans::Str(s)) => Some(J::String(s.clone())),
                            ("ID", Ans::Int(i)) => Some(J::String(i.to_string())),
                            ("Boolean", Ans::Bool(b)) => Some(J::Bool(*b)),
                            ("Int" | "Float" | "String" | "ID" | "Boolean", _) => None,
                            // the harnesses' validated custom scalar: even integers only
                            ("Even", Ans::Int(i)) if i % 2 == 0 => Some(J::from(*i)),
                            ("Even", _) => None,
                            // custom scalar: carried as is
                            (_, Ans::Int(i)) => Some(J::from(*i)),
                            (_, Ans::Str(s)) => Some(J::String(s.clone())),
                            (_, Ans::Bool(b)) => Some(J::Bool(*b)),
                            (_, Ans::Float(f)) => serde_json::Number::from_f64(*f).map(J::Number),
                            _ => None,
                        };
                        match v {
                            Some(v) => Ok(v),
                            None => {
                                self.push_err(path, pos, ErrKind::Completion);
                                Err(Bubble)
                            }
                        }
                    }
                    Some(Kind::Enum { values }) => match &ans {
                        Ans::Enum(e) if values.iter().any(|(v, _, _)| v == e) => Ok(J::String(e.clone())),
                        _ => {
                            self.push_err(path, pos, ErrKind::Completion);
                            Err(Bubble)
                        }
                    },
                    Some(Kind::Object { .. } | Kind::Interface { .. } | Kind::Union { .. }) => {
                        let Ans::Obj(rt) = &ans else {
                            self.push_err(path, pos, ErrKind::Completion);
                            return Err(Bubble);
                        };
                        if !self.s.is_object(rt) || !self.s.possible_types(n).iter().any(|t| t == rt) {
                            self.push_err(path, pos, ErrKind::Completion);
                            return Err(Bubble);
                        }
                        let rt = rt.clone();
                        self.exec_selection_set(&rt, sub, path)
                    }
                    _ => {
                        self.push_err(path, pos, ErrKind::Completion);
                        Err(Bubble)
                    }
                }
            }
        }
    }
}

/// Select the operation (§6.1 GetOperation).
pub fn get_operation<'d>(doc: &'d ExecDoc, name: Option<&str>) -> Result<&'d Operation, String> {
    match name {
        None => {
            let mut it = doc.ops();
            match (it.next(), it.next()) {
                (Some(o), None) => Ok(o),
                (None, _) => Err("no operation".into()),
                _ => Err("operation name required".into()),
            }
        }
        Some(n) => doc.ops().find(|o| o.name.as_ref().map(|x| x.s.as_str()) == Some(n)).ok_or_else(|| format!("unknown operation {n}")),
    }
}

/// §6.1 ExecuteRequest for an already validated document.
pub fn execute<W: World>(s: &Schema, doc: &ExecDoc, op_name: Option<&str>, variables: &Map<String, J>, world: &mut W) -> ExecResult {
    let req_err = |m: String| ExecResult { data: None, errors: vec![], request_error: Some(m), invocations: vec![] };
    let op = match get_operation(doc, op_name) {
        Ok(o) => o,
        Err(e) => return req_err(e),
    };
    let vars = match coerce_variables(s, &op.vars, variables) {
        Ok(v) => v,
        Err(e) => return req_err(e.0),
    };
    let Some(root) = s.root(op.kind) else { return req_err("schema has no such root".into()) };
    let root = root.to_string();
    let mut ex = Ex { s, doc, vars, world, errors: Vec::new(), invocations: Vec::new() };
    let r = ex.exec_selection_set(&root, &[op.sel.as_slice()], &Vec::new());
    let data = match r {
        Ok(v) => v,
        Err(Bubble) => J::Null,
    };
    let mut errors = ex.errors;
    for e in errors.iter_mut() {
        if e.nulled.is_none() {
            e.nulled = Some(Vec::new());
        }
    }
    ExecResult { data: Some(data), errors, request_error: None, invocations: ex.invocations }
}

/// Does `p` lie inside (or at) the region rooted at `region`?
pub fn within(p: &[Seg], region: &[Seg]) -> bool {
    p.len() >= region.len() && p[..region.len()] == *region
}

/// Cancellation-consistent comparison of an implementation's error paths with the
/// reference's no-cancellation error set: every reported error must be a reference
/// error (each at most once), and every reference error that is missing must lie
/// inside a region nulled by a *reported* other error.
pub fn errors_consistent(reference: &[ExecError], reported: &[Path]) -> Result<(), String> {
    let mut used = vec![false; reference.len()];
    for p in reported {
        match (0..reference.len()).find(|i| !used[*i] && reference[*i].path == *p) {
            Some(i) => used[i] = true,
            None => return Err(format!("reported error at {:?} is not an expected error (or is reported twice)", path_str(p))),
        }
    }
    for (i, e) in reference.iter().enumerate() {
        if used[i] {
            continue;
        }
        let covered = reference.iter().enumerate().any(|(j, r)| j != i && used[j] && within(&e.path, r.nulled.as_deref().unwrap_or(&[])));
        if !covered {
            return Err(format!("expected an error at {:?} but none was reported", path_str(&e.path)));
        }
    }
    Ok(())
}

/// A world given by a table path -> answer, with a per-type default for missing entries.
#[derive(Clone, Debug, Default)]
pub struct TableWorld {
    pub table: std::collections::BTreeMap<String, Ans>,
}
impl TableWorld {
    pub fn default_for(s: &Schema, ty: &Type) -> Ans {
        match ty {
            Type::NonNull(t) => Self::default_for(s, t),
            Type::List(_) => Ans::List(1),
            Type::Named(n) => match s.ty(n).map(|t| &t.kind) {
                Some(Kind::Scalar) => match n.as_str() {
                    "Int" => Ans::Int(1),
                    "Even" => Ans::Int(2),
                    "Float" => Ans::Float(1.5),
                    "Boolean" => Ans::Bool(true),
                    _ => Ans::Str("x".into()),
                },
                Some(Kind::Enum { values }) => Ans::Enum(values[0].0.clone()),
                Some(Kind::Object { .. }) => Ans::Obj(n.clone()),
                // an abstract type nothing implements can only be null
                Some(Kind::Interface { .. } | Kind::Union { .. }) => s.possible_types(n).first().cloned().map(Ans::Obj).unwrap_or(Ans::Null),
                _ => Ans::Null,
            },
        }
    }
}
pub struct TableWorldRef<'a> {
    pub s: &'a Schema,
    pub w: &'a TableWorld,
}
impl<'a> World for TableWorldRef<'a> {
    fn ask(&mut self, path: &[Seg], ty: &Type, _field: Option<(&str, &FieldT, &[(String, Val)])>) -> Ans {
        self.w.table.get(&path_str(path)).cloned().unwrap_or_else(|| TableWorld::default_for(self.s, ty))
    }
}

#[cfg(test)]
mod tests {
    use super::*;
    use crate::parse::parse_exec;

    const SDL: &str = "type Query { a: Int! n: Int o: A onn: A! i: I u: U l: [A!]! ln: [A] } interface I { x: Int! } type A implements I { x: Int! n: Int o: A } type B implements I { x: Int! y: Int } union U = A | B";

    fn run(q: &str, table: &[(&str, Ans)]) -> (String, Vec<String>) {
        let s = Schema::from_sdl(SDL).unwrap();
        let d = parse_exec(q).unwrap();
        let w = TableWorld { table: table.iter().map(|(k, v)| (k.to_string(), v.clone())).collect() };
        let r = execute(&s, &d, None, &Map::new(), &mut TableWorldRef { s: &s, w: &w });
        (r.data.unwrap().to_string(), r.errors.iter().map(|e| format!("{}>{}", path_str(&e.path), path_str(e.nulled.as_ref().unwrap()))).collect())
    }

    #[test]
    fn collect_and_merge() {
        // §6.3.2 example: fields with the same response key are merged, order = first occurrence
        let (d, e) = run("{ o { x } a o { n } ...F } fragment F on Query { k: a }", &[]);
        assert_eq!(d, r#"{"o":{"x":1,"n":1},"a":1,"k":1}"#);
        assert!(e.is_empty());
    }
    #[test]
    fn type_conditions() {
        let (d, _) = run("{ i { __typename x ... on A { n } ... on B { y } ... on U { ... on A { o { x } } } } }", &[("i", Ans::Obj("B".into()))]);
        assert_eq!(d, r#"{"i":{"__typename":"B","x":1,"y":1}}"#);
        let (d, _) = run("{ u { ... on I { x } ... on U { ... on A { n } } } }", &[]);
        assert_eq!(d, r#"{"u":{"x":1,"n":1}}"#);
    }
    #[test]
    fn null_propagation() {
        // §6.4.4: non-null field error propagates to the nearest nullable parent
        let (d, e) = run("{ a o { x n } }", &[("o.x", Ans::Err)]);
        assert_eq!(d, r#"{"a":1,"o":null}"#);
        assert_eq!(e, vec!["o.x>o"]);
        let (d, e) = run("{ a onn { x } }", &[("onn.x", Ans::Err)]);
        assert_eq!(d, "null");
        assert_eq!(e, vec!["onn.x>"]);
        let (d, e) = run("{ l { x } ln { x } }", &[("ln", Ans::List(2)), ("ln.1.x", Ans::Err)]);
        assert_eq!(d, r#"{"l":[{"x":1}],"ln":[{"x":1},null]}"#);
        assert_eq!(e, vec!["ln.1.x>ln.1"]);
        let (d, e) = run("{ a l { x } }", &[("l", Ans::List(2)), ("l.1.x", Ans::Err)]);
        assert_eq!(d, "null");
        assert_eq!(e, vec!["l.1.x>"]);
        let (d, e) = run("{ n }", &[("n", Ans::Err)]);
        assert_eq!(d, r#"{"n":null}"#);
        assert_eq!(e, vec!["n>n"]);
    }
    #[test]
    fn skip_include_with_defaults() {
        let s = Schema::from_sdl(SDL).unwrap();
        let d = parse_exec("query($v: Boolean = true, $w: Boolean = false) { a @skip(if: $v) n @include(if: $w) k: a @include(if: $v) }").unwrap();
        let w = TableWorld::default();
        let r = execute(&s, &d, None, &Map::new(), &mut TableWorldRef { s: &s, w: &w });
        assert_eq!(r.data.unwrap().to_string(), r#"{"k":1}"#);
    }
    #[test]
    fn consistency_rule() {
        let (_, _) = run("{ a }", &[]);
        let s = Schema::from_sdl(SDL).unwrap();
        let d = parse_exec("{ o { x n } }").unwrap();
        let w = TableWorld { table: [("o.x".to_string(), Ans::Err), ("o.n".to_string(), Ans::Err)].into_iter().collect() };
        let r = execute(&s, &d, None, &Map::new(), &mut TableWorldRef { s: &s, w: &w });
        let px = vec![Seg::Key("o".into()), Seg::Key("x".into())];
        let pn = vec![Seg::Key("o".into()), Seg::Key("n".into())];
        assert!(errors_consistent(&r.errors, &[px.clone(), pn.clone()]).is_ok());
        // n's error may be dropped when x (non-null) nulls `o` ...
        assert!(errors_consistent(&r.errors, &[px.clone()]).is_ok());
        // ... but x's may not be dropped in favour of n's (n only nulls itself)
        assert!(errors_consistent(&r.errors, &[pn.clone()]).is_err());
        assert!(errors_consistent(&r.errors, &[]).is_err());
        assert!(errors_consistent(&r.errors, &[px.clone(), px.clone()]).is_err());
    }
}

/// §6.3.2 CollectFields as a free function: (response key, field) pairs an object of runtime type
/// `object` gets from `sel`, with @skip/@include evaluated against `vars`.
pub fn collect_fields<'d>(s: &Schema, doc: &'d ExecDoc, vars: &VarValues, object: &str, sel: &'d [Selection], visited: &mut Vec<String>, out: &mut Vec<(String, &'d Field)>) {
    for x in sel {
        match x {
            Selection::Field(f) => {
                if !skipped(&f.directives, vars) {
                    out.push((f.key().to_string(), f));
                }
            }
            Selection::Spread(sp) => {
                if skipped(&sp.directives, vars) || visited.contains(&sp.name.s) {
                    continue;
                }
                visited.push(sp.name.s.clone());
                if let Some(fr) = doc.frag(&sp.name.s) {
                    if s.fragment_applies(object, &fr.cond.s) {
                        collect_fields(s, doc, vars, object, &fr.sel, visited, out);
                    }
                }
            }
            Selection::Inline(i) => {
                if skipped(&i.directives, vars) {
                    continue;
                }
                if i.cond.as_ref().map(|c| s.fragment_applies(object, &c.s)).unwrap_or(true) {
                    collect_fields(s, doc, vars, object, &i.sel, visited, out);
                }
            }
        }
    }
}
