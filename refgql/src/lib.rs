//! agv-refgql: a deliberately boring reference model of GraphQL (October 2021)
//! used as the oracle of the input-quantified checks. No dependency on
//! async-graphql or pest.

pub mod ast;
pub mod coerce;
pub mod exec;
pub mod lex;
pub mod measures;
pub mod parse;
pub mod print;
pub mod schema;
pub mod schema_validate;
pub mod validate;
