pub fn placeholder() {}
