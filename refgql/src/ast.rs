//! AST of the reference model (October 2021 grammar), deliberately plain.

#[derive(Clone, Copy, Debug, PartialEq, Eq, Hash, Default, PartialOrd, Ord)]
pub struct Pos {
    pub line: u32,
    pub col: u32,
}
impl Pos {
    pub fn new(line: u32, col: u32) -> Pos {
        Pos { line, col }
    }
}

#[derive(Clone, Debug, PartialEq)]
pub enum Value {
    Var(String),
    /// Raw token text of an IntValue (arbitrary precision in the grammar).
    Int(String),
    /// Raw token text of a FloatValue.
    Float(String),
    Str(String),
    Bool(bool),
    Null,
    Enum(String),
    List(Vec<PValue>),
    Object(Vec<(PName, PValue)>),
}

#[derive(Clone, Debug, PartialEq)]
pub struct PValue {
    pub v: Value,
    pub pos: Pos,
}
#[derive(Clone, Debug, PartialEq)]
pub struct PName {
    pub s: String,
    pub pos: Pos,
}
impl PName {
    pub fn new(s: &str) -> PName {
        PName { s: s.to_string(), pos: Pos::default() }
    }
}
impl PValue {
    pub fn new(v: Value) -> PValue {
        PValue { v, pos: Pos::default() }
    }
}

#[derive(Clone, Debug, PartialEq, Eq, Hash)]
pub enum Type {
    Named(String),
    List(Box<Type>),
    NonNull(Box<Type>),
}
impl Type {
    pub fn named(s: &str) -> Type {
        Type::Named(s.to_string())
    }
    pub fn nn(self) -> Type {
        Type::NonNull(Box::new(self))
    }
    pub fn list(self) -> Type {
        Type::List(Box::new(self))
    }
    pub fn is_non_null(&self) -> bool {
        matches!(self, Type::NonNull(_))
    }
    pub fn nullable(&self) -> &Type {
        match self {
            Type::NonNull(t) => t,
            t => t,
        }
    }
    pub fn base(&self) -> &str {
        match self {
            Type::Named(n) => n,
            Type::List(t) | Type::NonNull(t) => t.base(),
        }
    }
}
impl std::fmt::Display for Type {
    fn fmt(&self, f: &mut std::fmt::Formatter<'_>) -> std::fmt::Result {
        match self {
            Type::Named(n) => write!(f, "{n}"),
            Type::List(t) => write!(f, "[{t}]"),
            Type::NonNull(t) => write!(f, "{t}!"),
        }
    }
}

#[derive(Clone, Debug, PartialEq)]
pub struct Directive {
    pub name: PName,
    pub args: Vec<(PName, PValue)>,
    pub pos: Pos,
}

#[derive(Clone, Copy, Debug, PartialEq, Eq, Hash)]
pub enum OpKind {
    Query,
    Mutation,
    Subscription,
}
impl OpKind {
    pub fn word(self) -> &'static str {
        match self {
            OpKind::Query => "query",
            OpKind::Mutation => "mutation",
            OpKind::Subscription => "subscription",
        }
    }
}

#[derive(Clone, Debug, PartialEq)]
pub struct VarDef {
    pub name: PName,
    pub ty: Type,
    pub ty_pos: Pos,
    pub default: Option<PValue>,
    pub directives: Vec<Directive>,
    pub pos: Pos,
}

#[derive(Clone, Debug, PartialEq)]
pub struct Field {
    pub alias: Option<PName>,
    pub name: PName,
    pub args: Vec<(PName, PValue)>,
    pub directives: Vec<Directive>,
    pub sel: Vec<Selection>,
    pub pos: Pos,
}
impl Field {
    pub fn key(&self) -> &str {
        self.alias.as_ref().map(|a| a.s.as_str()).unwrap_or(&self.name.s)
    }
}

#[derive(Clone, Debug, PartialEq)]
pub struct Spread {
    pub name: PName,
    pub directives: Vec<Directive>,
    pub pos: Pos,
}
#[derive(Clone, Debug, PartialEq)]
pub struct Inline {
    pub cond: Option<PName>,
    pub directives: Vec<Directive>,
    pub sel: Vec<Selection>,
    pub pos: Pos,
}

#[derive(Clone, Debug, PartialEq)]
pub enum Selection {
    Field(Field),
    Spread(Spread),
    Inline(Inline),
}

#[derive(Clone, Debug, PartialEq)]
pub struct Operation {
    pub kind: OpKind,
    /// true when written in the shorthand form `{ ... }`
    pub shorthand: bool,
    pub name: Option<PName>,
    pub vars: Vec<VarDef>,
    pub directives: Vec<Directive>,
    pub sel: Vec<Selection>,
    pub pos: Pos,
}

#[derive(Clone, Debug, PartialEq)]
pub struct Fragment {
    pub name: PName,
    pub cond: PName,
    pub directives: Vec<Directive>,
    pub sel: Vec<Selection>,
    pub pos: Pos,
}

#[derive(Clone, Debug, PartialEq)]
pub enum ExecDef {
    Op(Operation),
    Frag(Fragment),
}

#[derive(Clone, Debug, PartialEq, Default)]
pub struct ExecDoc {
    pub defs: Vec<ExecDef>,
}
impl ExecDoc {
    pub fn ops(&self) -> impl Iterator<Item = &Operation> {
        self.defs.iter().filter_map(|d| if let ExecDef::Op(o) = d { Some(o) } else { None })
    }
    pub fn frags(&self) -> impl Iterator<Item = &Fragment> {
        self.defs.iter().filter_map(|d| if let ExecDef::Frag(o) = d { Some(o) } else { None })
    }
    pub fn frag(&self, name: &str) -> Option<&Fragment> {
        self.frags().find(|f| f.name.s == name)
    }
}

// ---------------------------------------------------------------- type system

#[derive(Clone, Debug, PartialEq)]
pub struct InputValueDef {
    pub desc: Option<String>,
    pub name: PName,
    pub ty: Type,
    pub default: Option<PValue>,
    pub directives: Vec<Directive>,
}
#[derive(Clone, Debug, PartialEq)]
pub struct FieldDef {
    pub desc: Option<String>,
    pub name: PName,
    pub args: Vec<InputValueDef>,
    pub ty: Type,
    pub directives: Vec<Directive>,
}
#[derive(Clone, Debug, PartialEq)]
pub struct EnumValueDef {
    pub desc: Option<String>,
    pub name: PName,
    pub directives: Vec<Directive>,
}

#[derive(Clone, Debug, PartialEq)]
pub enum TypeDefKind {
    Scalar,
    Object { interfaces: Vec<PName>, fields: Vec<FieldDef> },
    Interface { interfaces: Vec<PName>, fields: Vec<FieldDef> },
    Union { members: Vec<PName> },
    Enum { values: Vec<EnumValueDef> },
    Input { fields: Vec<InputValueDef> },
}

#[derive(Clone, Debug, PartialEq)]
pub struct TypeDef {
    pub desc: Option<String>,
    pub extend: bool,
    pub name: PName,
    pub directives: Vec<Directive>,
    pub kind: TypeDefKind,
    pub pos: Pos,
}

#[derive(Clone, Debug, PartialEq)]
pub struct SchemaDef {
    pub desc: Option<String>,
    pub extend: bool,
    pub directives: Vec<Directive>,
    pub roots: Vec<(OpKind, PName)>,
    pub pos: Pos,
}

#[derive(Clone, Debug, PartialEq)]
pub struct DirectiveDef {
    pub desc: Option<String>,
    pub name: PName,
    pub args: Vec<InputValueDef>,
    pub repeatable: bool,
    pub locations: Vec<PName>,
    pub pos: Pos,
}

#[derive(Clone, Debug, PartialEq)]
pub enum TsDef {
    Schema(SchemaDef),
    Type(TypeDef),
    Directive(DirectiveDef),
}

#[derive(Clone, Debug, PartialEq, Default)]
pub struct TsDoc {
    pub defs: Vec<TsDef>,
}
