//! Input coercion of the reference model: §6.1.2 CoerceVariableValues,
//! §6.4.1 CoerceArgumentValues, §3.x input coercion per type kind (incl. @oneOf).

use crate::ast::{Type, Value, VarDef};
use crate::schema::{Arg, Kind, Schema};
use serde_json::Value as J;
use std::collections::BTreeMap;

#[derive(Clone, Debug, PartialEq)]
pub enum Val {
    Null,
    Bool(bool),
    Int(i128),
    Float(f64),
    Str(String),
    Enum(String),
    List(Vec<Val>),
    Obj(Vec<(String, Val)>),
}

impl Val {
    /// JSON rendering used to compare with what a resolver echoes (enums as strings;
    /// absent object fields stay absent).
    pub fn to_json(&self) -> J {
        match self {
            Val::Null => J::Null,
            Val::Bool(b) => J::Bool(*b),
            Val::Int(i) => {
                if *i >= 0 {
                    J::from(*i as u64)
                } else {
                    J::from(*i as i64)
                }
            }
            Val::Float(f) => serde_json::Number::from_f64(*f).map(J::Number).unwrap_or(J::Null),
            Val::Str(s) => J::String(s.clone()),
            Val::Enum(s) => J::String(s.clone()),
            Val::List(l) => J::Array(l.iter().map(|x| x.to_json()).collect()),
            Val::Obj(o) => J::Object(o.iter().map(|(k, v)| (k.clone(), v.to_json())).collect()),
        }
    }
}

#[derive(Clone, Debug, PartialEq)]
pub struct CoerceError(pub String);
type R<T> = Result<T, CoerceError>;
fn err<T>(s: impl Into<String>) -> R<T> {
    Err(CoerceError(s.into()))
}

pub type VarValues = BTreeMap<String, Val>;

/// How the reference treats custom scalars: any value is accepted and carried as is.
fn json_any(v: &J) -> Val {
    match v {
        J::Null => Val::Null,
        J::Bool(b) => Val::Bool(*b),
        J::Number(n) => {
            if let Some(i) = n.as_i64() {
                Val::Int(i as i128)
            } else if let Some(u) = n.as_u64() {
                Val::Int(u as i128)
            } else {
                Val::Float(n.as_f64().unwrap_or(f64::NAN))
            }
        }
        J::String(s) => Val::Str(s.clone()),
        J::Array(a) => Val::List(a.iter().map(json_any).collect()),
        J::Object(o) => Val::Obj(o.iter().map(|(k, v)| (k.clone(), json_any(v))).collect()),
    }
}

pub const INT_MIN: i128 = i32::MIN as i128;
pub const INT_MAX: i128 = i32::MAX as i128;

/// Coerce a JSON (variable) value to an input type.
pub fn coerce_json(s: &Schema, ty: &Type, v: &J) -> R<Val> {
    match ty {
        Type::NonNull(t) => {
            if v.is_null() {
                return err(format!("null for non-null type {ty}"));
            }
            coerce_json(s, t, v)
        }
        _ if v.is_null() => Ok(Val::Null),
        Type::List(t) => match v {
            J::Array(a) => Ok(Val::List(a.iter().map(|x| coerce_json(s, t, x)).collect::<R<Vec<_>>>()?)),
            other => Ok(Val::List(vec![coerce_json(s, t, other)?])),
        },
        Type::Named(n) => {
            let Some(td) = s.ty(n) else { return err(format!("unknown type {n}")) };
            match &td.kind {
                Kind::Scalar => match n.as_str() {
                    "Int" => match v {
                        J::Number(x) if x.is_i64() || x.is_u64() => {
                            let i = x.as_i64().map(|i| i as i128).or(x.as_u64().map(|u| u as i128)).unwrap();
                            if (INT_MIN..=INT_MAX).contains(&i) {
                                Ok(Val::Int(i))
                            } else {
                                err("Int out of 32-bit range")
                            }
                        }
                        _ => err("Int expects an integer"),
                    },
                    "Float" => match v {
                        J::Number(x) => Ok(Val::Float(x.as_f64().unwrap_or(f64::NAN))),
                        _ => err("Float expects a number"),
                    },
                    "String" => match v {
                        J::String(x) => Ok(Val::Str(x.clone())),
                        _ => err("String expects a string"),
                    },
                    "Boolean" => match v {
                        J::Bool(b) => Ok(Val::Bool(*b)),
                        _ => err("Boolean expects a boolean"),
                    },
                    "ID" => match v {
                        J::String(x) => Ok(Val::Str(x.clone())),
                        J::Number(x) if x.is_i64() || x.is_u64() => Ok(Val::Str(x.to_string())),
                        _ => err("ID expects a string or integer"),
                    },
                    _ => Ok(json_any(v)),
                },
                Kind::Enum { values } => match v {
                    J::String(x) if values.iter().any(|(n, _, _)| n == x) => Ok(Val::Enum(x.clone())),
                    _ => err(format!("not a value of enum {n}")),
                },
                Kind::Input { fields, one_of } => {
                    let J::Object(o) = v else { return err(format!("input object {n} expects an object")) };
                    for k in o.keys() {
                        if !fields.iter().any(|f| &f.name == k) {
                            return err(format!("unknown field {k} of {n}"));
                        }
                    }
                    let mut out = Vec::new();
                    for f in fields {
                        match o.get(&f.name) {
                            Some(x) => out.push((f.name.clone(), coerce_json(s, &f.ty, x)?)),
                            None => {
                                if let Some(d) = &f.default {
                                    out.push((f.name.clone(), coerce_literal(s, &f.ty, d, &VarValues::new())?.unwrap_or(Val::Null)));
                                } else if f.ty.is_non_null() {
                                    return err(format!("missing required field {} of {n}", f.name));
                                }
                            }
                        }
                    }
                    if *one_of {
                        check_one_of(n, &out)?;
                    }
                    Ok(Val::Obj(out))
                }
                _ => err(format!("{n} is not an input type")),
            }
        }
    }
}

fn check_one_of(n: &str, out: &[(String, Val)]) -> R<()> {
    if out.len() != 1 || out[0].1 == Val::Null {
        return err(format!("oneOf input object {n} needs exactly one non-null field"));
    }
    Ok(())
}

/// Coerce a literal (which may contain variables) to an input type.
/// `Ok(None)` = the literal is a variable without a runtime value ("no value").
pub fn coerce_literal(s: &Schema, ty: &Type, v: &Value, vars: &VarValues) -> R<Option<Val>> {
    if let Value::Var(name) = v {
        return match vars.get(name) {
            None => Ok(None),
            Some(Val::Null) if ty.is_non_null() => err(format!("variable ${name} is null at non-null position")),
            Some(x) => Ok(Some(x.clone())),
        };
    }
    match ty {
        Type::NonNull(t) => {
            if matches!(v, Value::Null) {
                return err(format!("null literal for non-null type {ty}"));
            }
            coerce_literal(s, t, v, vars)
        }
        _ if matches!(v, Value::Null) => Ok(Some(Val::Null)),
        Type::List(t) => match v {
            Value::List(items) => {
                let mut out = Vec::new();
                for it in items {
                    match coerce_literal(s, t, &it.v, vars)? {
                        Some(x) => out.push(x),
                        None => {
                            if t.is_non_null() {
                                return err("variable without value at non-null list item");
                            }
                            out.push(Val::Null)
                        }
                    }
                }
                Ok(Some(Val::List(out)))
            }
            other => match coerce_literal(s, t, other, vars)? {
                Some(x) => Ok(Some(Val::List(vec![x]))),
                None => Ok(None),
            },
        },
        Type::Named(n) => {
            let Some(td) = s.ty(n) else { return err(format!("unknown type {n}")) };
            match &td.kind {
                Kind::Scalar => match n.as_str() {
                    "Int" => match v {
                        Value::Int(t) => match t.parse::<i128>() {
                            Ok(i) if (INT_MIN..=INT_MAX).contains(&i) => Ok(Some(Val::Int(i))),
                            _ => err("Int literal out of 32-bit range"),
                        },
                        _ => err("Int expects an integer literal"),
                    },
                    "Float" => match v {
                        Value::Int(t) | Value::Float(t) => match t.parse::<f64>() {
                            Ok(f) if f.is_finite() => Ok(Some(Val::Float(f))),
                            _ => err("Float literal not finite"),
                        },
                        _ => err("Float expects a numeric literal"),
                    },
                    "String" => match v {
                        Value::Str(x) => Ok(Some(Val::Str(x.clone()))),
                        _ => err("String expects a string literal"),
                    },
                    "Boolean" => match v {
                        Value::Bool(b) => Ok(Some(Val::Bool(*b))),
                        _ => err("Boolean expects a boolean literal"),
                    },
                    "ID" => match v {
                        Value::Str(x) => Ok(Some(Val::Str(x.clone()))),
                        Value::Int(t) => Ok(Some(Val::Str(t.clone()))),
                        _ => err("ID expects a string or integer literal"),
                    },
                    _ => Ok(Some(literal_any(v, vars))),
                },
                Kind::Enum { values } => match v {
                    Value::Enum(x) if values.iter().any(|(n, _, _)| n == x) => Ok(Some(Val::Enum(x.clone()))),
                    _ => err(format!("not a value of enum {n}")),
                },
                Kind::Input { fields, one_of } => {
                    let Value::Object(o) = v else { return err(format!("input object {n} expects an object literal")) };
                    for (k, _) in o {
                        if !fields.iter().any(|f| f.name == k.s) {
                            return err(format!("unknown field {} of {n}", k.s));
                        }
                    }
                    for (i, (k, _)) in o.iter().enumerate() {
                        if o[..i].iter().any(|(k2, _)| k2.s == k.s) {
                            return err(format!("duplicate field {} of {n}", k.s));
                        }
                    }
                    let mut out = Vec::new();
                    for f in fields {
                        let given = o.iter().find(|(k, _)| k.s == f.name).map(|(_, x)| &x.v);
                        let coerced = match given {
                            Some(x) => coerce_literal(s, &f.ty, x, vars)?,
                            None => None,
                        };
                        match coerced {
                            Some(x) => out.push((f.name.clone(), x)),
                            None => {
                                if let Some(d) = &f.default {
                                    out.push((f.name.clone(), coerce_literal(s, &f.ty, d, &VarValues::new())?.unwrap_or(Val::Null)));
                                } else if f.ty.is_non_null() {
                                    return err(format!("missing required field {} of {n}", f.name));
                                }
                            }
                        }
                    }
                    if *one_of {
                        check_one_of(n, &out)?;
                    }
                    Ok(Some(Val::Obj(out)))
                }
                _ => err(format!("{n} is not an input type")),
            }
        }
    }
}

fn literal_any(v: &Value, vars: &VarValues) -> Val {
    match v {
        Value::Var(n) => vars.get(n).cloned().unwrap_or(Val::Null),
        Value::Int(t) => t.parse::<i128>().map(Val::Int).unwrap_or(Val::Float(t.parse().unwrap_or(f64::NAN))),
        Value::Float(t) => Val::Float(t.parse().unwrap_or(f64::NAN)),
        Value::Str(s) => Val::Str(s.clone()),
        Value::Bool(b) => Val::Bool(*b),
        Value::Null => Val::Null,
        Value::Enum(e) => Val::Enum(e.clone()),
        Value::List(l) => Val::List(l.iter().map(|x| literal_any(&x.v, vars)).collect()),
        Value::Object(o) => Val::Obj(o.iter().map(|(k, x)| (k.s.clone(), literal_any(&x.v, vars))).collect()),
    }
}

/// §6.1.2
pub fn coerce_variables(s: &Schema, defs: &[VarDef], given: &serde_json::Map<String, J>) -> R<VarValues> {
    let mut out = VarValues::new();
    for d in defs {
        if !s.is_input(d.ty.base()) {
            return err(format!("variable ${} is not of an input type", d.name.s));
        }
        match given.get(&d.name.s) {
            None => {
                if let Some(def) = &d.default {
                    let v = coerce_literal(s, &d.ty, &def.v, &VarValues::new())?.unwrap_or(Val::Null);
                    out.insert(d.name.s.clone(), v);
                } else if d.ty.is_non_null() {
                    return err(format!("variable ${} of required type {} was not provided", d.name.s, d.ty));
                }
            }
            Some(J::Null) if d.ty.is_non_null() => return err(format!("variable ${} of non-null type {} must not be null", d.name.s, d.ty)),
            Some(v) => {
                out.insert(d.name.s.clone(), coerce_json(s, &d.ty, v)?);
            }
        }
    }
    Ok(out)
}

/// §6.4.1 — result: for every argument that has a value, (name, value). Absent = not in the list.
pub fn coerce_arguments(s: &Schema, defs: &[Arg], given: &[(crate::ast::PName, crate::ast::PValue)], vars: &VarValues) -> R<Vec<(String, Val)>> {
    let mut out = Vec::new();
    for d in defs {
        let lit = given.iter().find(|(k, _)| k.s == d.name).map(|(_, v)| &v.v);
        let coerced = match lit {
            Some(v) => coerce_literal(s, &d.ty, v, vars)?,
            None => None,
        };
        match coerced {
            Some(v) => out.push((d.name.clone(), v)),
            None => {
                if let Some(def) = &d.default {
                    out.push((d.name.clone(), coerce_literal(s, &d.ty, def, &VarValues::new())?.unwrap_or(Val::Null)));
                } else if d.ty.is_non_null() {
                    return err(format!("argument {} of required type {} was not provided", d.name, d.ty));
                }
            }
        }
    }
    Ok(out)
}

#[cfg(test)]
mod tests {
    use super::*;
    use crate::parse::parse_value;

    fn sch() -> Schema {
        Schema::from_sdl("type Query { a: Int } enum E { X Y } input In { r: Int! d: Int = 7 n: Int sub: In } input One @oneOf { a: Int b: String }").unwrap()
    }
    fn lit(ty: Type, src: &str, vars: &VarValues) -> R<Option<Val>> {
        coerce_literal(&sch(), &ty, &parse_value(src, false).unwrap().v, vars)
    }

    #[test]
    fn spec_list_coercion_table() {
        // §3.11 input coercion examples for [Int] and [[Int]]
        let li = Type::named("Int").list();
        assert_eq!(lit(li.clone(), "[1, 2, 3]", &VarValues::new()), Ok(Some(Val::List(vec![Val::Int(1), Val::Int(2), Val::Int(3)]))));
        assert!(lit(li.clone(), "[1, \"b\", true]", &VarValues::new()).is_err());
        assert_eq!(lit(li.clone(), "1", &VarValues::new()), Ok(Some(Val::List(vec![Val::Int(1)]))));
        assert_eq!(lit(li.clone(), "null", &VarValues::new()), Ok(Some(Val::Null)));
        let lli = li.clone().list();
        assert_eq!(lit(lli.clone(), "[[1], [2, 3]]", &VarValues::new()), Ok(Some(Val::List(vec![Val::List(vec![Val::Int(1)]), Val::List(vec![Val::Int(2), Val::Int(3)])]))));
        assert_eq!(lit(lli.clone(), "[1, 2, 3]", &VarValues::new()), Ok(Some(Val::List(vec![Val::List(vec![Val::Int(1)]), Val::List(vec![Val::Int(2)]), Val::List(vec![Val::Int(3)])]))));
        assert_eq!(lit(lli.clone(), "1", &VarValues::new()), Ok(Some(Val::List(vec![Val::List(vec![Val::Int(1)])]))));
    }

    #[test]
    fn spec_input_object_table() {
        // §3.10 table: input ExampleInputObject { a: String  b: Int! }
        let s = Schema::from_sdl("type Query { x: Int } input Ex { a: String b: Int! }").unwrap();
        let t = Type::named("Ex");
        let c = |src: &str, vars: &VarValues| coerce_literal(&s, &t, &parse_value(src, false).unwrap().v, vars);
        let none = VarValues::new();
        assert_eq!(c("{ a: \"abc\", b: 123 }", &none), Ok(Some(Val::Obj(vec![("a".into(), Val::Str("abc".into())), ("b".into(), Val::Int(123))]))));
        assert_eq!(c("{ a: null, b: 123 }", &none), Ok(Some(Val::Obj(vec![("a".into(), Val::Null), ("b".into(), Val::Int(123))]))));
        assert_eq!(c("{ b: 123 }", &none), Ok(Some(Val::Obj(vec![("b".into(), Val::Int(123))]))));
        let mut v = VarValues::new();
        v.insert("var".into(), Val::Int(123));
        assert_eq!(c("{ a: $var, b: 123 }", &none), Ok(Some(Val::Obj(vec![("b".into(), Val::Int(123))]))));
        assert_eq!(c("{ b: $var }", &v), Ok(Some(Val::Obj(vec![("b".into(), Val::Int(123))]))));
        assert!(c("$var", &none).unwrap().is_none());
        assert!(c("{ b: $var }", &none).is_err());
        assert!(c("\"abc123\"", &none).is_err());
        assert!(c("{ a: \"abc\", b: \"123\" }", &none).is_err());
        assert!(c("{ a: \"abc\" }", &none).is_err());
        assert!(c("{ b: 123, c: \"xyz\" }", &none).is_err());
        v.insert("var".into(), Val::Null);
        assert!(c("{ b: $var }", &v).is_err());
    }

    #[test]
    fn defaults_and_oneof() {
        let t = Type::named("In");
        assert_eq!(lit(t.clone(), "{r: 1}", &VarValues::new()), Ok(Some(Val::Obj(vec![("r".into(), Val::Int(1)), ("d".into(), Val::Int(7))]))));
        assert_eq!(lit(t.clone(), "{r: 1, d: null}", &VarValues::new()), Ok(Some(Val::Obj(vec![("r".into(), Val::Int(1)), ("d".into(), Val::Null)]))));
        let o = Type::named("One");
        assert!(lit(o.clone(), "{a: 1}", &VarValues::new()).is_ok());
        assert!(lit(o.clone(), "{a: 1, b: \"x\"}", &VarValues::new()).is_err());
        assert!(lit(o.clone(), "{a: null}", &VarValues::new()).is_err());
        assert!(lit(o.clone(), "{}", &VarValues::new()).is_err());
    }

    #[test]
    fn argument_values_6_4_1() {
        // §6.4.1 CoerceArgumentValues, steps 5.e–5.j, on `f(a: Int! = 5, b: Int, c: [Int], i: In)`
        let s = Schema::from_sdl("type Query { f(a: Int! = 5, b: Int, c: [Int], i: In): Int } input In { r: Int! d: Int = 7 n: Int }").unwrap();
        let defs = s.field("Query", "f").unwrap().args.clone();
        let run = |q: &str, vars: &str| -> R<Vec<(String, Val)>> {
            let doc = crate::parse::parse_exec(q).unwrap();
            let crate::ast::ExecDef::Op(op) = &doc.defs[0] else { unreachable!() };
            let crate::ast::Selection::Field(f) = &op.sel[0] else { unreachable!() };
            let given: serde_json::Map<String, J> = serde_json::from_str(vars).unwrap();
            let vv = coerce_variables(&s, &op.vars, &given)?;
            coerce_arguments(&s, &defs, &f.args, &vv)
        };
        let a = |v: Val| ("a".to_string(), v);
        // 5.h: a variable without a runtime value counts as "no value" → the argument's default applies
        assert_eq!(run("query($v: Int) { f(a: $v) }", "{}"), Ok(vec![a(Val::Int(5))]));
        assert_eq!(run("{ f }", "{}"), Ok(vec![a(Val::Int(5))]));
        // 5.i: non-null argument type and the value is null (explicitly, or through a variable's own default) → field error
        assert!(run("query($v: Int) { f(a: $v) }", r#"{"v":null}"#).is_err());
        assert!(run("query($v: Int = null) { f(a: $v) }", "{}").is_err());
        assert!(run("{ f(a: null) }", "{}").is_err());
        // 5.j: hasValue → the value; null is a value; no value and no default → no entry
        assert_eq!(run("query($v: Int) { f(b: $v) }", r#"{"v":null}"#), Ok(vec![a(Val::Int(5)), ("b".into(), Val::Null)]));
        assert_eq!(run("query($v: Int) { f(b: $v) }", "{}"), Ok(vec![a(Val::Int(5))]));
        assert_eq!(run("query($v: Int = 9) { f(b: $v) }", "{}"), Ok(vec![a(Val::Int(5)), ("b".into(), Val::Int(9))]));
        // §6.1.2 3.h: a non-null variable without value, or null, is a request error wherever it is used
        assert!(run("query($v: Int!) { f(b: $v) }", "{}").is_err());
        assert!(run("query($v: Int!) { f(b: $v) }", r#"{"v":null}"#).is_err());
        // §3.10: an input field given as a variable without runtime value takes the field's default; §3.11
        // (as implemented by graphql-js valueFromAST): such a variable as a list item is a null item
        assert_eq!(run("query($v: Int) { f(i: {r: 1, d: $v}) }", "{}"), Ok(vec![a(Val::Int(5)), ("i".into(), Val::Obj(vec![("r".into(), Val::Int(1)), ("d".into(), Val::Int(7))]))]));
        assert_eq!(run("query($v: Int) { f(i: {r: 1, n: $v}) }", "{}"), Ok(vec![a(Val::Int(5)), ("i".into(), Val::Obj(vec![("r".into(), Val::Int(1)), ("d".into(), Val::Int(7))]))]));
        assert_eq!(run("query($v: Int) { f(c: [1, $v]) }", "{}"), Ok(vec![a(Val::Int(5)), ("c".into(), Val::List(vec![Val::Int(1), Val::Null]))]));
        // §3.11: a single variable value for a list type is wrapped when the *variable* is coerced
        assert_eq!(run("query($v: [Int]) { f(c: $v) }", r#"{"v":3}"#), Ok(vec![a(Val::Int(5)), ("c".into(), Val::List(vec![Val::Int(3)]))]));
    }

    #[test]
    fn variables() {
        let s = sch();
        let defs = match &crate::parse::parse_exec("query($a: Int = 5, $b: Int!, $c: [Int], $e: E) { a }").unwrap().defs[0] {
            crate::ast::ExecDef::Op(o) => o.vars.clone(),
            _ => unreachable!(),
        };
        let mut m = serde_json::Map::new();
        assert!(coerce_variables(&s, &defs, &m).is_err()); // $b missing
        m.insert("b".into(), 1.into());
        m.insert("c".into(), 3.into());
        m.insert("e".into(), "X".into());
        let v = coerce_variables(&s, &defs, &m).unwrap();
        assert_eq!(v.get("a"), Some(&Val::Int(5)));
        assert_eq!(v.get("c"), Some(&Val::List(vec![Val::Int(3)])));
        assert_eq!(v.get("e"), Some(&Val::Enum("X".into())));
        m.insert("a".into(), J::Null);
        assert_eq!(coerce_variables(&s, &defs, &m).unwrap().get("a"), Some(&Val::Null));
    }
}
