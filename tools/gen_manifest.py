#!/usr/bin/env python3
"""Regenerates /verif/MANIFEST.json from tools/checks.json (one entry per claimed property)
and validates it against the schema. Properties without an entry are listed under
not_applicable with the reason recorded in tools/checks.json["unclaimed"] (or a default)."""
import json, os, sys
root = os.path.dirname(os.path.dirname(os.path.abspath(__file__)))
spec = json.load(open(os.path.join(root, "tools", "checks.json")))
spec["checks"] = {}
for fn in sorted(os.listdir(os.path.join(root, "tools", "checks.d"))):
    if fn.endswith(".json"):
        spec["checks"][fn[:-5]] = json.load(open(os.path.join(root, "tools", "checks.d", fn)))
props = [json.loads(l)["id"] for l in open(os.path.join(root, "properties.jsonl")) if l.strip()]
ready = set(open(os.path.join(root, "tools", "ready.txt")).read().split())
for pid in list(spec["checks"]):
    if pid not in ready:
        spec["checks"].pop(pid)
        continue
    if not os.path.isdir(os.path.join(root, "checks", pid.lower())):
        spec["checks"].pop(pid)
checks = []
for pid in props:
    c = spec["checks"].get(pid)
    if not c:
        continue
    checks.append({
        "property_id": pid,
        "quick_cmd": f"./check {pid} quick",
        "thorough_cmd": f"./check {pid} thorough",
        "evidence_file": f"/verif/evidence/{pid}.json",
        "replay_cmd_template": f"./check {pid} --replay {{path}}",
        "engine": c.get("engine", "sweep"),
        "level_claimed": {"category": c["level"], "text": c["text"], "design_ref": f"DESIGN.md §7 {pid}"},
        "level_note": c["note"],
        "technique": c["technique"],
    })
na = []
for pid in props:
    if not os.path.isdir(os.path.join(root, "checks", pid.lower())):
        spec["checks"].pop(pid, None)
    if pid not in spec["checks"]:
        na.append({"property_id": pid, "reason": spec.get("unclaimed", {}).get(pid, spec["unclaimed_default"])})
m = {
    "version": 1,
    "setup_cmd": "cd /verif && CARGO_NET_OFFLINE=true cargo build --offline --profile agv " + " ".join("-p agv-" + c["property_id"].lower() for c in checks),
    "hooks": spec["hooks"],
    "engines": spec["engines"],
    "checks": checks,
    "notes": spec["notes"],
    "not_applicable": na,
}
json.dump(m, open(os.path.join(root, "MANIFEST.json"), "w"), indent=1)
try:
    import jsonschema
    jsonschema.validate(m, json.load(open("/root/.vp/MANIFEST.schema.json")))
    print("MANIFEST.json valid;", len(checks), "checks,", len(na), "unclaimed")
except ImportError:
    print("jsonschema not importable here; wrote MANIFEST.json unvalidated")
