#!/usr/bin/env python3
"""Applies each deliberate property-breaking edit of tools/demos.json to /repo (under the tree lock),
runs the named check(s) at the quick tier, records the verdict in notes/demo-results.json and reverts the
edited file with `git checkout -- <file>`. Usage: tools/run_demos.py [ID ...]"""
import json, subprocess, sys, os, fcntl
root = '/verif'
demos = json.load(open(f'{root}/tools/demos.json'))
want = set(sys.argv[1:])
resp = f'{root}/notes/demo-results.json'
res = json.load(open(resp)) if os.path.exists(resp) else {}
lock = open('/tmp/repo-tree.lock', 'w')
for d in demos:
    if d.get('skip') or (want and d['id'] not in want):
        continue
    path = f"/repo/{d['file']}"
    fcntl.flock(lock, fcntl.LOCK_EX)
    try:
        s = open(path).read()
        if s.count(d['old']) != 1:
            res[d['id']] = {'status': f"edit does not apply (old text occurs {s.count(d['old'])} times)", 'note': d['note']}
            print(d['id'], res[d['id']]['status']); continue
        open(path, 'w').write(s.replace(d['old'], d['new']))
        out = {}
        try:
            for c in d['check']:
                p = subprocess.run([f'{root}/check', c, 'quick'], capture_output=True, text=True, cwd=root)
                classes = [l.strip() for l in p.stdout.splitlines() if l.startswith('  violation class')]
                out[c] = {'exit': p.returncode, 'violation_lines': p.stdout.count('\nVIOLATION '), 'classes': classes[:6]}
        finally:
            subprocess.run(['git', '-C', '/repo', 'checkout', '--', d['file']], check=True)
        res[d['id']] = {'edit': {'file': d['file'], 'old': d['old'], 'new': d['new']}, 'note': d['note'], 'result': out}
        print(d['id'], out)
    finally:
        fcntl.flock(lock, fcntl.LOCK_UN)
    json.dump(res, open(resp, 'w'), indent=1)
