#!/usr/bin/env python3
import json, glob, sys
import jsonschema
sch = json.load(open('/root/.vp/EVIDENCE.schema.json'))
man = json.load(open('/verif/MANIFEST.json'))
lv = {c['property_id']: c['level_claimed']['category'] for c in man['checks']}
bad = 0
for f in sorted(glob.glob('/verif/evidence/*.json')):
    e = json.load(open(f))
    try:
        jsonschema.validate(e, sch)
    except Exception as ex:
        print(f, 'INVALID', str(ex)[:200]); bad += 1; continue
    pid = e['property_id']
    if lv.get(pid) != e['level']:
        print(f, 'level mismatch', lv.get(pid), e['level']); bad += 1
print('checked', len(glob.glob('/verif/evidence/*.json')), 'files,', bad, 'problems')
