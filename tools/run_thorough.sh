#!/bin/bash
# runs the named checks' thorough tier sequentially; results in notes/thorough-results.txt.
# The /repo tree lock is held only while the harness is built (the run itself does not read /repo).
cd /verif
out=notes/thorough-results.txt
echo "# thorough runs started $(date -u +%FT%TZ) at /repo $(git -C /repo log --oneline -1 | cut -d' ' -f1)" >> $out
mkdir -p target/thorough-bin
for c in "$@"; do
  pkg="agv-$(echo "$c" | tr 'A-Z' 'a-z')"
  s=$(date +%s)
  if ! flock /tmp/repo-tree.lock bash -c "git -C /repo diff --quiet && CARGO_NET_OFFLINE=true cargo build --offline --profile agv -p $pkg >target/build-$pkg.log 2>&1 && cp target/agv/$pkg target/thorough-bin/$pkg"; then
    echo "$c build failed or /repo tree dirty" >> $out; continue
  fi
  AGV_ROOT=/verif target/thorough-bin/$pkg $c thorough > /tmp/thorough-$c.log 2>&1; code=$?
  e=$(date +%s)
  echo "$c exit=$code wall=$((e-s))s $(grep -E '^\[C[0-9]+ thorough\]' /tmp/thorough-$c.log | head -1) known=$(grep -c '^KNOWN-FINDING' /tmp/thorough-$c.log) violations=$(grep -c '^VIOLATION' /tmp/thorough-$c.log)" >> $out
done
echo "# done $(date -u +%FT%TZ)" >> $out
