#!/bin/bash
# runs every ready check's thorough tier sequentially; results in notes/thorough-results.txt
cd /verif
out=notes/thorough-results.txt
echo "# thorough runs started $(date -u +%FT%TZ) at /repo $(git -C /repo log --oneline -1 | cut -d' ' -f1)" >> $out
for c in "$@"; do
  s=$(date +%s)
  flock /tmp/repo-tree.lock ./check $c thorough > /tmp/thorough-$c.log 2>&1; code=$?
  e=$(date +%s)
  echo "$c exit=$code wall=$((e-s))s $(grep -E '^\[C[0-9]+ thorough\]' /tmp/thorough-$c.log | head -1) known=$(grep -c '^KNOWN-FINDING' /tmp/thorough-$c.log) violations=$(grep -c '^VIOLATION' /tmp/thorough-$c.log)" >> $out
done
echo "# done $(date -u +%FT%TZ)" >> $out
