#!/bin/bash
# runs every ready check's quick tier sequentially (tree lock held per check); results in notes/quick-results.txt
cd /verif
out=notes/quick-results.txt
echo "# quick runs started $(date -u +%FT%TZ) at /repo $(git -C /repo log --oneline -1 | cut -d' ' -f1)" > $out
for c in $(cat tools/ready.txt); do
  s=$(date +%s)
  flock /tmp/repo-tree.lock ./check $c quick > /tmp/quick-$c.log 2>&1; code=$?
  e=$(date +%s)
  echo "$c exit=$code wall=$((e-s))s $(grep -E '^\[C[0-9]+ quick\]' /tmp/quick-$c.log | head -1) known=$(grep -c '^KNOWN-FINDING' /tmp/quick-$c.log) violations=$(grep -c '^VIOLATION' /tmp/quick-$c.log)" >> $out
done
echo "# done $(date -u +%FT%TZ)" >> $out
