#!/bin/bash
# tools/try_seed.sh <seed-dir> <CHECK...>: apply <seed-dir>/patch.diff to /repo, run the listed checks (quick),
# print verdicts, and ALWAYS revert with `git apply -R` (never `checkout -- .`: /repo may hold uncommitted hooks).
set -u
# /repo's working tree is shared with other runs: hold the tree lock for the whole apply-run-revert
if [ -z "${TRY_SEED_LOCKED:-}" ]; then exec env TRY_SEED_LOCKED=1 flock /tmp/repo-tree.lock "$0" "$@"; fi
seed="$1"; shift
cd /verif || exit 2
if ! git -C /repo apply --check "$seed/patch.diff" 2>/tmp/try_seed.err; then echo "PATCH DOES NOT APPLY to /repo HEAD:"; cat /tmp/try_seed.err; exit 3; fi
git -C /repo apply "$seed/patch.diff"
trap 'git -C /repo apply -R "$seed/patch.diff" && echo "[reverted]"' EXIT
for c in "$@"; do
  out=$(./check "$c" quick 2>&1); code=$?
  classes=$(echo "$out" | grep -E "^  violation class" | tr -s ' ' | tr '\n' ';')
  echo "check=$c exit=$code $(echo "$out" | grep -c '^VIOLATION') VIOLATION line(s) $classes"
  echo "$out" | grep -E "^VIOLATION|^  class=" | head -4
done
