#!/bin/bash
# tools/confirm_seed.sh <worktree>: demo must FAIL with the change and PASS without it (suite checked separately)
wt="$1"; cd "$wt" || exit 2
demo="cargo test --offline --test seed_demo"
$demo >/tmp/cs_with.log 2>&1; with=$?
git apply -R SEED/patch.diff || { echo "cannot revert patch"; exit 3; }
$demo >/tmp/cs_without.log 2>&1; without=$?
git apply SEED/patch.diff
echo "demo with change: exit $with ($(grep -E '^test result' /tmp/cs_with.log | tail -1)); without: exit $without ($(grep -E '^test result' /tmp/cs_without.log | tail -1))"
