#!/usr/bin/env python3
"""Regenerates the tables between the AUTOGEN markers of DESIGN.md from evidence/, known_findings.json,
tools/checks.d and seeded/*/meta.json."""
import json, os, glob, re
root = os.path.dirname(os.path.dirname(os.path.abspath(__file__)))
props = [json.loads(l) for l in open(os.path.join(root, "properties.jsonl")) if l.strip()]
ready = set(open(os.path.join(root, "tools", "ready.txt")).read().split())
kf = json.load(open(os.path.join(root, "known_findings.json")))["findings"]
rows = ["| id | check | level | quick: evaluations / non-trivial / states / transitions / wall s | known findings | fixed in /repo |", "|---|---|---|---|---|---|"]
for p in props:
    pid = p["id"]
    ev = None
    try:
        ev = json.load(open(os.path.join(root, "evidence", pid + ".json")))
    except Exception:
        pass
    spec = None
    try:
        spec = json.load(open(os.path.join(root, "tools", "checks.d", pid + ".json")))
    except Exception:
        pass
    known = sorted({f["class"] for f in kf if f["property"] == pid and f["status"] == "known"})
    fixed = [f["commit"] for f in kf if f["property"] == pid and f["status"] == "fixed"]
    if pid in ready and ev and spec:
        c = ev["coverage"]
        cov = f'{c.get("evaluations")} / {c.get("distinct_nontrivial")} / {c.get("states","–")} / {c.get("transitions","–")} / {ev.get("wall_s")} ({ev.get("tier")})'
        rows.append(f'| {pid} | `checks/{pid.lower()}` ({spec.get("engine")}) | {spec.get("level")} | {cov} | {len(known)}: {", ".join(known) if known else "–"} | {len(fixed)}: {" ".join(sorted(set(fixed)))} |')
    else:
        rows.append(f'| {pid} | not claimed yet | | | | |')
table1 = "\n".join(rows)
rows = ["| seeded change | property | what it needs to manifest | caught by (quick tier) |", "|---|---|---|---|"]
for m in sorted(glob.glob(os.path.join(root, "seeded", "*", "meta.json"))):
    j = json.load(open(m))
    rows.append(f'| `seeded/{os.path.basename(os.path.dirname(m))}` | {j.get("property")} | {j.get("needs","")[:160]} | {j.get("caught_by","not run yet")} |')
table2 = "\n".join(rows)
p = os.path.join(root, "DESIGN.md")
s = open(p).read()
def put(s, name, body):
    a, b = f"<!-- AUTOGEN:{name}:BEGIN -->", f"<!-- AUTOGEN:{name}:END -->"
    if a in s:
        return re.sub(re.escape(a) + r".*?" + re.escape(b), lambda _: a + "\n" + body + "\n" + b, s, flags=re.S)
    return s
s = put(s, "STATUS", table1)
s = put(s, "SEEDED", table2)
open(p, "w").write(s)
print("DESIGN.md tables regenerated")
